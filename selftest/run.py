#!/venv/bin/python
"""Self-test of the checkers: applies each catalogued variant to a scratch copy of /repo/cvss
(outside /repo and /verif, removed immediately), checks that it still byte-compiles, runs the named
check against it and compares the verdict with the expectation (fire on rule R / stay silent).

usage: selftest/run.py [--prop Cnn] [--id substring] [--jobs N] [--list]
"""

import argparse
import json
import os
import py_compile
import shutil
import subprocess
import sys
import tempfile
from concurrent.futures import ThreadPoolExecutor

HERE = os.path.dirname(os.path.abspath(__file__))
VERIF = os.path.dirname(HERE)
REPO = os.environ.get("VERIF_REPO", "/repo")
sys.path.insert(0, HERE)


def load_variants():
    from variants import VARIANTS

    return VARIANTS


def apply_variant(v, root):
    if v.get("patch"):
        # a stored diff (behaviour-preserving refactorings written by independent sub-agents)
        p = subprocess.run(["patch", "-p1", "-s", "-i", os.path.join(VERIF, v["patch"])], cwd=root, stdout=subprocess.PIPE, stderr=subprocess.STDOUT, text=True)
        if p.returncode != 0:
            return "patch does not apply: %s" % p.stdout[-200:]
        return None
    for edit in v["edits"]:
        path = os.path.join(root, edit["file"])
        with open(path) as f:
            src = f.read()
        if edit["old"] not in src:
            return "anchor text not found in %s: %r" % (edit["file"], edit["old"][:60])
        if src.count(edit["old"]) > 1 and not edit.get("all") and "nth" not in edit:
            return "anchor text ambiguous in %s: %r" % (edit["file"], edit["old"][:60])
        if "nth" in edit:
            parts = src.split(edit["old"])
            n = edit["nth"]
            src = edit["old"].join(parts[: n + 1]) + edit["new"] + edit["old"].join(parts[n + 1 :])
        elif edit.get("all"):
            src = src.replace(edit["old"], edit["new"])
        else:
            src = src.replace(edit["old"], edit["new"], 1)
        with open(path, "w") as f:
            f.write(src)
        try:
            py_compile.compile(path, cfile=os.path.join(root, "_c.pyc"), doraise=True)
        except py_compile.PyCompileError as e:
            return "variant does not compile: %s" % e
    return None


def run_variant(v):
    tmp = tempfile.mkdtemp(prefix="vsel_")
    try:
        shutil.copytree(os.path.join(REPO, "cvss"), os.path.join(tmp, "cvss"))
        for extra in ("setup.py", "tox.ini", "README.rst"):
            if os.path.exists(os.path.join(REPO, extra)):
                shutil.copy(os.path.join(REPO, extra), os.path.join(tmp, extra))
        err = apply_variant(v, tmp)
        if err:
            return v, "BROKEN-VARIANT", err, ""
        env = dict(os.environ)
        env["VERIF_REPO"] = tmp
        env["VERIF_EVIDENCE_DIR"] = os.path.join(tmp, "evidence")
        env.setdefault("VERIF_JOBS", "2")  # the variants already run in parallel
        results = []
        for prop in v["props"]:
            p = subprocess.run(
                [os.path.join(VERIF, "vcheck"), prop, "--tier", "quick"],
                env=env,
                cwd=VERIF,
                stdout=subprocess.PIPE,
                stderr=subprocess.STDOUT,
                text=True,
                timeout=900,
            )
            results.append((prop, p.returncode, p.stdout))
        return (v,) + judge(v, results)
    finally:
        shutil.rmtree(tmp, ignore_errors=True)


def judge(v, results):
    expect = v["expect"]
    out_all = "\n".join(o for _, _, o in results)
    if expect == "silent":
        bad = [(p, rc) for p, rc, _ in results if rc != 0]
        if bad:
            return "FAIL", "neutral variant made %s exit %s" % bad[0], out_all
        return "ok", "silent", out_all
    # expect fire: at least one prop exits 1 with a violated line naming the rule prefix
    rule = v.get("rule", "")
    for p, rc, o in results:
        if rc == 1 and ("violated " + rule) in o:
            return "ok", "fired %s" % rule, out_all
    codes = [(p, rc) for p, rc, _ in results]
    return "FAIL", "expected rule %s to fire; exit codes %s" % (rule, codes), out_all


def main():
    ap = argparse.ArgumentParser()
    ap.add_argument("--prop")
    ap.add_argument("--id")
    ap.add_argument("--jobs", type=int, default=16)
    ap.add_argument("--list", action="store_true")
    ap.add_argument("-v", action="store_true")
    ap.add_argument("--summary-json", default=None)
    args = ap.parse_args()
    vs = load_variants()
    if args.prop:
        vs = [v for v in vs if args.prop in v["props"]]
    if args.id:
        vs = [v for v in vs if args.id in v["id"]]
    if args.list:
        for v in vs:
            print(v["id"], v["props"], v["expect"], v.get("rule", ""))
        return 0
    fails = 0
    summary = []
    if args.prop:
        # only run the named property's check for each variant (slice of the catalogue)
        vs = [dict(v, props=[args.prop]) for v in vs if v["expect"] == "silent" or v["props"] == [args.prop]]
    with ThreadPoolExecutor(max_workers=args.jobs) as ex:
        for v, verdict, msg, out in ex.map(run_variant, vs):
            print("%-7s %-46s %s" % (verdict, v["id"], msg))
            summary.append({"variant": v["id"], "expect": v["expect"], "rule": v.get("rule", ""), "verdict": verdict, "detail": msg})
            if verdict != "ok":
                fails += 1
                if args.v or True:
                    tail = [l for l in out.splitlines() if "violated" in l or "ANALYSIS-ERROR" in l or "Error" in l][:4]
                    for l in tail:
                        print("        " + l[:300])
    print("%d variants, %d failures" % (len(vs), fails))
    if args.summary_json:
        with open(args.summary_json, "w") as f:
            json.dump({"variants": len(vs), "failures": fails, "results": summary}, f, indent=1)
    return 1 if fails else 0


if __name__ == "__main__":
    sys.exit(main())
