"""Catalogue of checker self-test variants.

Each variant is a small edit of /repo/cvss applied to a scratch copy.  expect="fire": the named
rule of one of the listed properties must report a violation (exit 1).  expect="silent": a
behaviour-neutral edit on which every listed check must stay quiet (exit 0).
"""


def V(id, props, file, old, new, expect="fire", rule="", **kw):
    e = dict(file=file, old=old, new=new)
    e.update(kw)
    return dict(id=id, props=props if isinstance(props, list) else [props], edits=[e], expect=expect, rule=rule)


def V2(id, props, edits, expect="fire", rule=""):
    return dict(
        id=id,
        props=props if isinstance(props, list) else [props],
        edits=[dict(file=f, old=o, new=n) for f, o, n in edits],
        expect=expect,
        rule=rule,
    )


def PV(id, props, patch):
    """a stored behaviour-preserving diff: every listed check must stay silent"""
    return dict(id=id, props=props if isinstance(props, list) else [props], edits=[], patch=patch, expect="silent", rule="")


NO14 = ["C%02d" % i for i in range(1, 21) if i != 14]

C3 = "cvss/cvss3.py"
C2 = "cvss/cvss2.py"
C4 = "cvss/cvss4.py"
K2 = "cvss/constants2.py"
K3 = "cvss/constants3.py"
K4 = "cvss/constants4.py"

VARIANTS = [
    # ---------------------------------------------------------------- C01
    V("c01-weight-av-a", "C01", K3, '"A": D("0.62"), "L": D("0.55")', '"A": D("0.63"), "L": D("0.55")', rule="C01", nth=0),
    V("c01-weight-trailing-zero-N", "C01", K3, '"H": D("0.56"), "L": D("0.22"), "N": D("0")},\n    "I"', '"H": D("0.560"), "L": D("0.22"), "N": D("0")},\n    "I"', "silent"),
    V("c01-drop-cap", "C01", C3, 'D("0.915"),\n        )', 'D("1.915"),\n        )', rule="C01.formula"),
    V("c01-exp-15-13", "C01", C3, ') ** D("15")\n\n    def compute_modified_isc(self)', ') ** D("13")\n\n    def compute_modified_isc(self)', rule="C01.formula"),
    V("c01-swap-30-31", "C01", C3, "if self.minor_version == 0:\n            self.compute_modified_isc_30()", "if self.minor_version == 1:\n            self.compute_modified_isc_30()", rule="C01.formula"),
    V2("c01-round-half-up", "C01", [(C3, "from decimal import ROUND_CEILING", "from decimal import ROUND_HALF_UP as ROUND_CEILING")], rule="C01.formula"),
    V("c01-le-to-lt", "C01", C3, 'if self.isc <= D("0.0"):', 'if self.isc < D("0.0"):', rule="C01.formula"),
    V("c01-commute-N", "C01", C3, "round_up(min((self.isc + self.esc), D(\"10\")))", "round_up(min(D(\"10\"), (self.esc + self.isc)))", "silent"),
    V("c01-pr-modified-scope", "C01", C3, '(abbreviation == "PR" and self.scope == "C")', '(abbreviation == "PR" and self.modified_scope == "C")', rule="C01"),
    V("c01-fill-remove-MI", "C01", C3, '["MAV", "MAC", "MPR", "MUI", "MC", "MS", "MI", "MA"]', '["MAV", "MAC", "MPR", "MUI", "MC", "MS", "MA"]', rule="C01"),
    V("c01-fill-wrong-base", "C01", C3, "self.metrics[abbreviation] = self.metrics[abbreviation[1:]]", 'self.metrics[abbreviation] = self.metrics["A" if abbreviation == "MI" else abbreviation[1:]]', rule="C01"),
    V("c01-alias-original", "C07", C3, "self.original_metrics = copy.copy(self.metrics)", "self.original_metrics = self.metrics", rule="C07"),
    V("c01-temporal-drop-rc", "C01", C3, 'self.base_score * self.get_value("E") * self.get_value("RL") * self.get_value("RC")', 'self.base_score * self.get_value("E") * self.get_value("RL")', rule="C01.formula"),
    V("c01-scores-order", "C01", C3, "return float(self.base_score), float(self.temporal_score), float(self.environmental_score)", "return float(self.base_score), float(self.environmental_score), float(self.temporal_score)", rule="C01.out"),
    V("c01-ms-x-not-inherit", "C01", C3, 'if self.modified_scope in [None, "X"]:', "if self.modified_scope in [None]:", rule="C01"),
    V("c01-108-typo", "C01", C3, 'modified = round_up(\n                    min(D("1.08")', 'modified = round_up(\n                    min(D("1.8")', rule="C01.formula"),
    V("c01-extract-helper-N", "C01", C3, "        self.compute_isc_base()\n        self.compute_isc()\n        self.compute_esc()\n\n        if self.isc", "        self.compute_isc_base()\n        self.compute_isc()\n        self.compute_esc()\n        unused_local = 1\n\n        if self.isc", "silent"),
    # ---------------------------------------------------------------- C03
    V("c03-1176", "C03", C2, 'D("1.176")', 'D("1.177")', rule="C03.formula"),
    V("c03-drop-min10", "C03", C2, 'return min(\n            D("10"),', 'return min(\n            D("100"),', rule="C03.formula"),
    V2("c03-half-even", "C03", [(C2, "from decimal import ROUND_HALF_UP", "from decimal import ROUND_HALF_EVEN as ROUND_HALF_UP")], rule="C03.formula"),
    V("c03-env-from-temporal", "C03", C2, "temporal_score_adjusted = self.temporal_score_equation(adjusted_impact=True)", "temporal_score_adjusted = self.temporal_score_equation()", rule="C03.formula"),
    V("c03-temporal-without-rc", "C03", K2, 'TEMPORAL_METRICS = ["E", "RL", "RC"]', 'TEMPORAL_METRICS = ["E", "RL"]', rule="C03.formula"),
    V("c03-weight-au", "C03", K2, '"S": D("0.56")', '"S": D("0.57")', rule="C03"),
    V("c03-nd-present", "C03", C2, 'if all(self.metrics.get(a, "ND") == "ND" for a in TEMPORAL_METRICS):', "if all(a not in self.metrics for a in TEMPORAL_METRICS):", rule="C03.formula"),
    V("c03-fimpact", "C03", C2, 'f_impact = D("0") if impact == D("0") else D("1.176")', 'f_impact = D("1.176")', rule="C03.formula"),
    V("c03-reorder-N", "C03", C2, '((D("0.6") * impact) + (D("0.4") * exploitability) - D("1.5")) * f_impact', 'f_impact * ((D("0.4") * exploitability) - D("1.5") + (impact * D("0.6")))', "silent"),
    # ---------------------------------------------------------------- C02
    V("c02-lookup-row", "C02", K4, '("101021", 6.7)', '("101021", 6.8)', rule="C02.lookup"),
    V("c02-depth-eq4", "C02", K4, '("eq4", OrderedDict([(0, 6), (1, 5), (2, 4)]))', '("eq4", OrderedDict([(0, 6), (1, 4), (2, 4)]))', rule="C02"),
    V("c02-maxvec-typo", "C02", K4, '"VC:H/VI:H/VA:L/CR:M/IR:M/AR:H/"', '"VC:H/VI:H/VA:N/CR:M/IR:M/AR:H/"', rule="C02"),
    V("c02-level-av", "C02", C4, 'AV_levels = {"N": 0.0, "A": 0.1, "L": 0.2, "P": 0.3}', 'AV_levels = {"N": 0.0, "A": 0.1, "L": 0.3, "P": 0.3}', rule="C02"),
    V("c02-eq3-and-or", "C02", C4, 'if self.m("VC") == "H" and self.m("VI") == "H":\n            eq3 = "0"', 'if self.m("VC") == "H" or self.m("VI") == "H":\n            eq3 = "0"', rule="C02.eq"),
    V("c02-eq1-drop-not-p", "C02", C4, '            and not self.m("AV") == "P"\n', "", rule="C02.eq"),
    V("c02-e-default", "C02", C4, 'if metric == "E" and selected == "X":\n            return "A"', 'if metric == "E" and selected == "X":\n            return "P"', rule="C02"),
    V("c02-cr-default", "C02", C4, 'if metric == "CR" and selected == "X":\n            return "H"', 'if metric == "CR" and selected == "X":\n            return "M"', rule="C02"),
    V("c02-modified-not-override", "C02", C4, 'if modified_selected != "X":\n                return modified_selected', 'if modified_selected != "X" and metric != "AC":\n                return modified_selected', rule="C02"),
    V("c02-joint-01", "C02", C4, "elif eq3_val == 0 and eq6_val == 1:\n            eq3eq6_next_lower_macro = \"\".join(\n                str(val) for val in [eq1_val, eq2_val, eq3_val + 1, eq4_val, eq5_val, eq6_val]", "elif eq3_val == 0 and eq6_val == 1:\n            eq3eq6_next_lower_macro = \"\".join(\n                str(val) for val in [eq1_val, eq2_val, eq3_val, eq4_val, eq5_val, eq6_val + 1]", rule="C02.tail"),
    V("c02-copy-paste-level", "C02", C4, 'VI_levels[self.m("VI")] - VI_levels', 'VI_levels[self.m("VC")] - VI_levels', rule="C02"),
    V("c02-drop-distance", "C02", C4, "            + severity_distance_IR\n            + severity_distance_AR\n        )", "            + severity_distance_IR\n        )", rule="C02.tail"),
    V("c02-wrong-divisor", "C02", C4, "percent_to_next_eq1_severity = (current_severity_distance_eq1) / max_severity_eq1", "percent_to_next_eq1_severity = (current_severity_distance_eq1) / max_severity_eq2", rule="C02.tail"),
    V("c02-count-not-incremented", "C02", C4, "            n_existing_lower += 1\n            percent_to_next_eq2_severity", "            n_existing_lower += 0\n            percent_to_next_eq2_severity", rule="C02.tail"),
    V("c02-clamp", "C02", C4, "value = max(0.0, value)", "value = max(0.1, value)", rule="C02.tail"),
    V("c02-epsilon", "C02", K4, "EPSILON = 10**-6", "EPSILON = 10**-3", rule="C02.tail"),
    V("c02-reorder-sum-N", "C02", C4, "severity_distance_AV + severity_distance_PR + severity_distance_UI", "severity_distance_UI + severity_distance_AV + severity_distance_PR", "silent"),
    V("c02-reject-drop", "C02", C4, "                        severity_distance_IR,\n                        severity_distance_AR,\n                    ]", "                        severity_distance_IR,\n                    ]", rule="C02.search"),
    V("c02-zero-shortcut", "C02", C4, 'for metric in ["VC", "VI", "VA", "SC", "SI", "SA"]]', 'for metric in ["VC", "VI", "VA", "SC", "SI"]]', rule="C02.tail"),
    V("c02-rounding-mode", "C02", C4, "from decimal import ROUND_HALF_UP", "from decimal import ROUND_HALF_EVEN as ROUND_HALF_UP", rule="C02.tail"),
    V("c02-eq-order", "C02", C4, "return eq1 + eq2 + eq3 + eq4 + eq5 + eq6", "return eq1 + eq2 + eq3 + eq4 + eq6 + eq5", rule="C02"),
    V("c02-get-eq-maxes-index", "C02", C4, 'return MAX_COMPOSED["eq" + str(eq)][str(lookup[eq - 1])]', 'return MAX_COMPOSED["eq" + str(eq)][str(lookup[eq - 1 if eq != 2 else 0])]', rule="C02"),
    # behaviour-neutral for the score: an absent MSA and MSA:X are both "not Safety" (confirmed once on the real code)
    V("c02-fill-missing-msa", "C02", C4, '            "MSI",\n            "MSA",\n        ]:', '            "MSI",\n        ]:', "silent"),
    # ---------------------------------------------------------------- C04
    V("c04-no-dup-v2", "C04", C2, '                    if metric in self.metrics:\n                        raise CVSS2MalformedError(\'Duplicate metric "{0}"\'.format(metric))\n', "", rule="C04.store.dup"),
    V("c04-no-dup-v3", "C04", C3, '                    if metric in self.metrics:\n                        raise CVSS3MalformedError(\'Duplicate metric "{0}"\'.format(metric))\n', "", rule="C04.store.dup"),
    V("c04-no-dup-v4", "C04", C4, '            if metric in self.metrics:\n                raise CVSS4MalformedError(\'Duplicate metric "{0}"\'.format(metric))\n', "", rule="C04.store.dup"),
    V("c04-value-wrong-row", "C04", C3, "if value in METRICS_VALUES[metric]:", 'if value in METRICS_VALUES["AV"]:', rule="C04"),
    V("c04-prefix-loose", "C04", C3, 'elif self.vector.startswith("CVSS:3.1/"):', 'elif self.vector.startswith("CVSS:3."):', rule="C04.prefix"),
    V("c04-prefix-noslash", "C04", C3, 'if self.vector.startswith("CVSS:3.0/"):', 'if self.vector.startswith("CVSS:3.0"):', rule="C04.prefix"),
    V("c04-upper-normaliser", "C04", C3, '                metric, value = field.split(":")\n            except ValueError:\n                raise CVSS3MalformedError(\'Malformed CVSS3 field "{0}"\'.format(field))\n', '                metric, value = field.split(":")\n            except ValueError:\n                raise CVSS3MalformedError(\'Malformed CVSS3 field "{0}"\'.format(field))\n            metric = metric.upper()\n', rule="C04.store.raw"),
    V("c04-mandatory-drop-ui", "C04", K3, 'METRICS_MANDATORY = ["AV", "AC", "PR", "UI", "S", "C", "I", "A"]', 'METRICS_MANDATORY = ["AV", "AC", "PR", "S", "C", "I", "A"]', rule="C04"),
    V("c04-raise-valueerror", "C04", C2, "raise CVSS2MalformedError('Malformed CVSS2 vector, trailing \"/\"')", "raise ValueError('Malformed CVSS2 vector, trailing \"/\"')", rule="C04.kinds"),
    V("c04-remove-empty-test-N", "C04", C2, '        if self.vector == "":\n            raise CVSS2MalformedError("Malformed CVSS2 vector, vector is empty")\n', "", "silent"),
    V("c04-remove-trailing-test-N", "C04", C3, '        if self.vector.endswith("/"):\n            raise CVSS3MalformedError(\'Malformed CVSS3 vector, trailing "/"\')\n', "", "silent"),
    V("c04-legal-value-added", "C04", K3, '"UI": {"N": D("0.85"), "R": D("0.62")},', '"UI": {"N": D("0.85"), "R": D("0.62"), "P": D("0.62")},', rule="C04.tables"),
    V("c04-fill-omission-typeerror", "C04", C3, '["MAV", "MAC", "MPR", "MUI", "MC", "MS", "MI", "MA"]', '["MAV", "MAC", "MPR", "MUI", "MC", "MS", "MI"]', rule="C04.escape"),
    # behaviour-neutral for the property: "AV:N:X" is then rejected as an unknown value, same error class
    V("c04-split-limit", "C04", C2, 'metric, value = field.split(":")', 'metric, value = field.split(":", 1)', "silent"),
    V("c04-mandatory-exc-class", "C04", C3, "raise CVSS3MandatoryError(", "raise CVSS3MalformedError(", rule="C04.kinds"),
]

PAR = "cvss/parser.py"
INT = "cvss/interactive.py"
CLI = "cvss/cvss_calculator.py"

VARIANTS += [
    # ---------------------------------------------------------------- C05
    V("c05-clean-iterates-parsed", ["C05", "C07"], C3, "for metric in METRICS_ABBREVIATIONS:\n            if metric in self.original_metrics:\n                value = self.original_metrics[metric]", "for metric in self.original_metrics:\n            if metric in self.original_metrics:\n                value = self.original_metrics[metric]", rule="C0"),
    V("c05-get-default-none", "C05", C2, 'if all(self.metrics.get(a, "ND") == "ND" for a in TEMPORAL_METRICS):', 'if all(self.metrics.get(a) is None for a in TEMPORAL_METRICS):', rule="C05.nd"),
    V("c05-ms-x-differs", "C05", C3, 'if self.modified_scope in [None, "X"]:', "if self.modified_scope in [None]:", rule="C05.nd"),
    V("c05-v4-e-not-defaulted", "C05", C4, '            "AR",\n            "E",\n        ]:\n            if abbreviation not in self.metrics:', '            "AR",\n        ]:\n            if abbreviation not in self.metrics:', rule="C0"),
    V("c05-last-seen", "C05", C3, "                    self.metrics[metric] = value\n                else:", "                    self.metrics[metric] = value\n                    self.missing_metrics = [metric]\n                else:", rule="C05.order.parse"),
    V("c05-clean-keeps-x-absent-differs", ["C05", "C07"], C3, '                if value != "X":\n                    vector.append("{0}:{1}".format(metric, value))\n        if output_prefix:\n            prefix = "CVSS:3.{0}/"', '                if value != "X" or metric == "E":\n                    vector.append("{0}:{1}".format(metric, value))\n        if output_prefix:\n            prefix = "CVSS:3.{0}/"', rule="C0"),
    # ---------------------------------------------------------------- C06
    V("c06-supplemental-read", "C06", C4, 'if self.m("E") == "A":\n            eq5 = "0"', 'if self.m("E") == "A" and self.m("S") != "P":\n            eq5 = "0"', rule="C06.c"),
    V("c06-e-x-weight", "C06", K3, '"E": {"X": D("1"), "H": D("1"),', '"E": {"X": D("0.97"), "H": D("1"),', rule="C06.b"),
    V("c06-env-uses-base-ac", "C06", C3, '            * self.get_value("MAC")\n', '            * self.get_value("AC")\n', rule="C06"),
    V("c06-base-leak-temporal", "C06", C2, "self.base_score = max(D(\"0.0\"), self.base_score_equation())", "self.base_score = max(D(\"0.0\"), self.base_score_equation()) * self.get_value(\"RC\")", rule="C06.e"),
    V("c06-m-base-wins", "C06", C4, 'if modified_selected != "X":\n                return modified_selected', 'if modified_selected != "X" and metric != "UI":\n                return modified_selected', rule="C06"),
    # ---------------------------------------------------------------- C07
    V("c07-prefix-no-minor", "C07", C3, 'prefix = "CVSS:3.{0}/".format(self.minor_version)', 'prefix = "CVSS:3.0/"', rule="C07"),
    V("c07-hash-raw", "C07", C3, "return hash(self.clean_vector())", "return hash(self.vector)", rule="C07.eq.hash"),
    V("c07-drop-isinstance", "C07", C2, "        if isinstance(o, CVSS2):\n            return self.clean_vector() == o.clean_vector()\n        return False", "        return self.clean_vector() == o.clean_vector()", rule="C07.eq"),
    V("c07-eq-noprefix", "C07", C3, "return self.clean_vector() == o.clean_vector()", "return self.clean_vector(output_prefix=False) == o.clean_vector(output_prefix=False)", rule="C07.eq"),
    V("c07-clean-from-filled", "C07", C3, "            if metric in self.original_metrics:\n                value = self.original_metrics[metric]\n                if value != \"X\":", "            if metric in self.metrics:\n                value = self.metrics[metric]\n                if value != \"X\":", rule="C07.emit"),
    V("c07-table-mismatch", "C07", K4, '        ("MSA", "Modified Subsequent System Impact Availability"),\n', "", rule="C07.emit"),
    V("c07-sep", "C07", C2, 'return "/".join(vector)', 'return ",".join(vector)', rule="C07.emit.sep"),
    V("c07-rename-local-N", "C07", C2, '        vector = []\n        for metric in METRICS_ABBREVIATIONS:\n            if metric in self.metrics:\n                value = self.metrics[metric]\n                if value != "ND":\n                    vector.append("{0}:{1}".format(metric, value))\n        return "/".join(vector)', '        parts = []\n        for m_ in METRICS_ABBREVIATIONS:\n            if m_ in self.metrics:\n                val = self.metrics[m_]\n                if val != "ND":\n                    parts.append(m_ + ":" + val)\n        return "/".join(parts)', "silent"),
    # ---------------------------------------------------------------- C12
    V("c12-tolerance", "C12", C3, "if cvss_object.scores()[0] == score_value:", "if abs(cvss_object.scores()[0] - score_value) < 0.05:", rule="C12.sem"),
    V("c12-slot1", "C12", C3, "if cvss_object.scores()[0] == score_value:", "if cvss_object.scores()[1] == score_value:", rule="C12.sem"),
    V("c12-split-nolimit", "C12", C2, 'score, base_vector = vector.split("/", 1)', 'score, base_vector = vector.split("/")', rule="C12.sem"),
    V("c12-rh-int", "C12", C2, 'return str(self.scores()[0]) + "/" + self.clean_vector()', 'return str(int(self.scores()[0])) + "/" + self.clean_vector()', rule="C12.emit"),
    V("c12-rh-temporal", "C12", C3, 'return str(self.scores()[0]) + "/" + self.clean_vector()', 'return str(self.scores()[1]) + "/" + self.clean_vector()', rule="C12.emit"),
    V("c12-wrong-exc", "C12", C4, "        except ValueError:\n            raise CVSS4RHMalformedError(\n                'Malformed CVSS4 vector in Red Hat notation \"{0}\"'.format(vector)\n            )\n        cvss_object", "        except ValueError:\n            raise CVSS4MalformedError(\n                'Malformed CVSS4 vector in Red Hat notation \"{0}\"'.format(vector)\n            )\n        cvss_object", rule="C12.sem"),
    V("c12-swallow-ctor", "C12", C3, "        cvss_object = cls(base_vector)\n", "        try:\n            cvss_object = cls(base_vector)\n        except Exception:\n            raise CVSS3RHMalformedError(\"bad\")\n", rule="C12.sem"),
    V("c12-format-N", "C12", C2, 'return str(self.scores()[0]) + "/" + self.clean_vector()', 'return "{0}/{1}".format(self.scores()[0], self.clean_vector())', "silent"),
    # ---------------------------------------------------------------- C15
    V("c15-order", "C15", K2, 'TEMPORAL_METRICS = ["E", "RL", "RC"]', 'TEMPORAL_METRICS = ["E", "RC", "RL"]', rule="C15.emit.order"),
    V("c15-v3-original", "C15", C3, '[metric + ":" + self.metrics.get(metric, "X") for metric in ENVIRONMENTAL_METRICS]', '[metric + ":" + self.original_metrics.get(metric, "X") for metric in ENVIRONMENTAL_METRICS]', rule="C15.emit.value"),
    V("c15-missing-metric", "C15", K3, 'ENVIRONMENTAL_METRICS = ["CR", "IR", "AR", "MAV", "MAC", "MPR", "MUI", "MS", "MC", "MI", "MA"]', 'ENVIRONMENTAL_METRICS = ["CR", "IR", "AR", "MAV", "MAC", "MPR", "MUI", "MC", "MS", "MI", "MA"]', rule="C15.emit.order"),
    # ---------------------------------------------------------------- C18
    V("c18-pop-in-scores", "C18", C2, "        scores = (self.base_score, self.temporal_score, self.environmental_score)\n", "        self.metrics.pop(\"E\", None)\n        scores = (self.base_score, self.temporal_score, self.environmental_score)\n", rule="C18"),
    V("c18-memo-json", "C18", C3, "        if sort:\n            data = OrderedDict(sorted(data.items()))\n        return data\n\n    def __hash__(self):\n        return hash(self.clean_vector())\n\n    def __eq__(self, o):\n        if isinstance(o, CVSS3)", "        if sort:\n            data = OrderedDict(sorted(data.items()))\n        self._json = data\n        return data\n\n    def __hash__(self):\n        return hash(self.clean_vector())\n\n    def __eq__(self, o):\n        if isinstance(o, CVSS3)", rule="C18"),
    V("c18-name-row-missing", "C18", K3, '[("X", "Not Defined"), ("C", "Confirmed"), ("R", "Reasonable"), ("U", "Unknown")]', '[("X", "Not Defined"), ("C", "Confirmed"), ("U", "Unknown")]', rule="C18.total"),
    V("c18-clean-fills-original", "C18", C3, "        vector = []\n        for metric in METRICS_ABBREVIATIONS:\n            if metric in self.original_metrics:", "        vector = []\n        self.original_metrics.setdefault(\"E\", \"X\")\n        for metric in METRICS_ABBREVIATIONS:\n            if metric in self.original_metrics:", rule="C18"),
    V("c18-return-metrics", "C18", C4, "    def scores(self):", "    def raw(self):\n        return self.metrics\n\n    def scores(self):", "silent"),
    # ---------------------------------------------------------------- C19
    V2("c19-module-cache", "C19", [(C3, "def round_up(value):", "_CACHE = {}\n\n\ndef round_up(value):"), (C3, "        self.vector = vector\n        self.minor_version = None", "        _CACHE[vector] = 1\n        self.vector = vector\n        self.minor_version = None")], rule="C19.globals"),
    V2("c19-getcontext", "C19", [(C2, "from decimal import ROUND_HALF_UP", "from decimal import ROUND_HALF_UP, getcontext"), (C2, "    return value.quantize(D(\"0.1\"), rounding=ROUND_HALF_UP)", "    getcontext().prec = 10\n    return value.quantize(D(\"0.1\"), rounding=ROUND_HALF_UP)")], rule="C19.ambient"),
    V("c19-print-lib", "C19", C3, "        self.vector = vector\n        self.minor_version = None", "        print(vector)\n        self.vector = vector\n        self.minor_version = None", rule="C19.ambient.io"),
    V2("c19-class-attr", "C19", [(C2, 'class CVSS2(object):\n    """\n    Class to hold CVSS2 vector, parsed values, and all scores.\n    """\n', 'class CVSS2(object):\n    """\n    Class to hold CVSS2 vector, parsed values, and all scores.\n    """\n\n    seen = []\n'), (C2, "        self.vector = vector\n", "        self.vector = vector\n        self.seen.append(vector)\n")], rule="C19.toplevel"),
    V("c19-class-attr-never-written-N", "C19", C2, 'class CVSS2(object):\n    """\n    Class to hold CVSS2 vector, parsed values, and all scores.\n    """\n', 'class CVSS2(object):\n    """\n    Class to hold CVSS2 vector, parsed values, and all scores.\n    """\n\n    seen = []\n', "silent"),
    V("c19-table-write", "C19", C3, "        self.vector = vector\n        self.minor_version = None", "        METRICS_VALUES[\"E\"][\"X\"] = D(\"1\")\n        self.vector = vector\n        self.minor_version = None", rule="C19.globals"),
    V("c19-quantize-no-mode", "C19", C2, 'return value.quantize(D("0.1"), rounding=ROUND_HALF_UP)', 'return value.quantize(D("0.1"))', rule="C19.rounding"),
    V("c19-set-return", "C19", PAR, "    return cvsss\n", "    return list(set(cvsss))\n", rule="C19.hashorder"),
    V("c19-default-arg", "C19", C3, "def clean_vector(self, output_prefix=True):", "def clean_vector(self, output_prefix=True, _seen=[]):", rule="C19.globals"),
]

VARIANTS += [
    # ---------------------------------------------------------------- C08
    V("c08-v4-order-e-first", "C08", K4, '        ("E", "Exploit Maturity"),\n        ("CR", "Confidentiality Req."),', '        ("CR", "Confidentiality Req."),\n        ("E", "Exploit Maturity"),', rule="C08.official"),
    V("c08-v4-prefix-noslash", ["C08", "C07"], C4, 'prefix = "CVSS:4.0/"', 'prefix = "CVSS:4.0"', rule="C0"),
    V("c08-v3-order-swap-N", "C08", K3, '        ("E", "Exploit Code Maturity"),\n        ("RL", "Remediation Level"),', '        ("RL", "Remediation Level"),\n        ("E", "Exploit Code Maturity"),', "silent"),
    # ---------------------------------------------------------------- C09
    V("c09-le-lt", "C09", C3, 'elif score <= D("8.9"):', 'elif score < D("8.9"):', rule="C09.scale"),
    V("c09-v2-threshold", "C09", C2, 'elif score <= D("6.9"):', 'elif score <= D("7.0"):', rule="C09.scale"),
    V("c09-unrounded", "C09", C3, 'self.base_score = round_up(min((self.isc + self.esc), D("10")))', 'self.base_score = min((self.isc + self.esc), D("10"))', rule="C09.quantised"),
    V("c09-v4-drop-clamp", "C09", C4, "        value = min(10.0, value)\n", "", rule="C09.range"),
    V("c09-temporal-sev-from-base", "C09", C3, "for score in (self.base_score, self.temporal_score, self.environmental_score):\n            if score == D(\"0.0\"):", "for score in (self.base_score, self.base_score, self.environmental_score):\n            if score == D(\"0.0\"):", rule="C09.agree"),
    V("c09-v4-none-branch", "C09", C4, '        if self.base_score == 0.0:\n            self.severity = "None"\n        elif self.base_score <= 3.9:', '        if self.base_score < 0.0:\n            self.severity = "None"\n        elif self.base_score <= 3.9:', rule="C09.scale"),
    V("c09-label", "C09", C2, 'severities.append("Medium")', 'severities.append("Moderate")', rule="C09.scale"),
    V("c09-float-after-round", "C09", C3, "return float(self.base_score), float(self.temporal_score), float(self.environmental_score)", "return float(self.base_score) / 3 * 3, float(self.temporal_score), float(self.environmental_score)", rule="C09"),
    # ---------------------------------------------------------------- C10
    V("c10-v3-name", "C10", K3, '("N", "Network"), ("A", "Adjacent"), ("L", "Local"), ("P", "Physical")]),\n        ),\n        ("AC"', '("N", "Network"), ("A", "Adjacent Net"), ("L", "Local"), ("P", "Physical")]),\n        ),\n        ("AC"', rule="C10.validate"),
    V("c10-score-str", "C10", C3, 'data["baseScore"] = float(self.base_score)', 'data["baseScore"] = str(self.base_score)', rule="C10"),
    V("c10-drop-version", "C10", C2, '                ("version", "2.0"),\n', "", rule="C10.required"),
    V("c10-v2-key", "C10", K2, '("Au", "authentication"),\n        ("C", "confidentialityImpact"),', '("Au", "authentification"),\n        ("C", "confidentialityImpact"),', "silent"),
    V("c10-v3-severity-case", "C10", C3, 'data["baseSeverity"] = us(base_severity)', 'data["baseSeverity"] = base_severity', rule="C10.validate"),
    V("c10-v4-version-back", "C10", C4, '("version", "4.0"),', '("version", "4"),', rule="C10.validate"),
    # ---------------------------------------------------------------- C11
    V("c11-swap-names", "C11", K3, '("MC", OrderedDict([("X", "Not Defined"), ("H", "High"), ("L", "Low"), ("N", "None")])),', '("MC", OrderedDict([("X", "Not Defined"), ("H", "Low"), ("L", "High"), ("N", "None")])),', rule="C11.metrics"),
    V("c11-vectorstring-clean", "C11", C3, '("vectorString", self.vector),', '("vectorString", self.clean_vector()),', rule="C11.id"),
    V("c11-sort-drops", "C11", C3, "data = OrderedDict(sorted(data.items()))", "data = OrderedDict(sorted((k, v) for k, v in data.items() if k != \"version\"))", rule="C11.sort"),
    V("c11-v2-truthiness-back", "C11", C2, "if not minimal or self.temporal_score is not None:", "if not minimal or self.temporal_score:", rule="C11.minimal"),
    V("c11-unfilled-map", "C11", C3, '    def get_value_description(self, abbreviation):\n        """\n        Gets textual description of specific metric specified by its abbreviation.\n        """\n        string_value = self.metrics.get(abbreviation, "X")', '    def get_value_description(self, abbreviation):\n        """\n        Gets textual description of specific metric specified by its abbreviation.\n        """\n        string_value = self.original_metrics.get(abbreviation, "X")', rule="C11.metrics"),
    V("c11-slots-crossed", "C11", C3, 'data["temporalSeverity"] = us(temporal_severity)', 'data["temporalSeverity"] = us(base_severity)', rule="C11.scores"),
    V("c11-v3-minimal-env-on-score", "C11", C3, "if not minimal or any(metric in self.original_metrics for metric in ENVIRONMENTAL_METRICS):", "if not minimal or self.environmental_score != self.base_score:", rule="C11.minimal"),
    V("c11-json-key-dup", "C11", K3, '("MI", "modifiedIntegrityImpact"),', '("MI", "modifiedConfidentialityImpact"),', rule="C11.metrics"),
    # ---------------------------------------------------------------- C13
    V("c13-minlen-27", "C13", PAR, "[A-Za-z:/]{26,}", "[A-Za-z:/]{27,}", rule="C13.complete.minlen"),
    V("c13-prefix-30-only", "C13", PAR, r"(?:CVSS:3\.\d/)?", r"(?:CVSS:3\.0/)?", rule="C13.complete.prefix"),
    V("c13-class-upper", "C13", PAR, "[A-Za-z:/]{26,}", "[A-Z:/]{26,}", rule="C13.complete.alphabet"),
    V("c13-capturing", "C13", PAR, r"(?:CVSS:3\.\d/)?", r"(CVSS:3\.\d/)?", rule="C13.sound.groups"),
    V("c13-fastpath-au", "C13", PAR, "    # Looks for substrings which resemble CVSS2 or CVSS3 vectors.", '    if "CVSS:3." not in text and "/Au:" not in text:\n        return []\n    # Looks for substrings which resemble CVSS2 or CVSS3 vectors.', rule="C13.sem.result"),
    V("c13-fastpath-colon-N", "C13", PAR, "    # Looks for substrings which resemble CVSS2 or CVSS3 vectors.", '    if ":" not in text or "/" not in text:\n        return []\n    # Looks for substrings which resemble CVSS2 or CVSS3 vectors.', "silent"),
    V("c13-except-narrow", "C13", PAR, "except (CVSSError, KeyError):", "except KeyError:", rule="C13.sem.total"),
    V("c13-no-dedup", "C13", PAR, "            if cvss not in cvsss:\n                cvsss.append(cvss)", "            cvsss.append(cvss)", rule="C13.sem.result"),
    # a part of the match is still a substring of the text: the property holds (the idiom rule that demanded the untransformed match was stricter)
    V("c13-strip-arg-N", "C13", PAR, "cvss = CVSS3(match)", "cvss = CVSS3(match.rstrip('/'))", "silent"),
    V("c13-upper-arg", "C13", PAR, "cvss = CVSS3(match)", "cvss = CVSS3(match.upper())", rule="C13.sem"),
    V("c13-minlen-20-N", "C13", PAR, "[A-Za-z:/]{26,}", "[A-Za-z:/]{20,}", "silent"),
    # ---------------------------------------------------------------- C14
    V("c14-swap-pr", "C14", K3, '"PR": {"N": D("0.85"), "L": D("0.62"), "H": D("0.27")},', '"PR": {"N": D("0.85"), "L": D("0.27"), "H": D("0.62")},', rule="C14.weights"),
    V("c14-lookup-inverted", "C14", K4, '("000010", 9.8),\n        ("000011", 9.5),', '("000010", 9.4),\n        ("000011", 9.5),', rule="C02.lookup.monotone"),
    V("c14-v2-ac", "C14", K2, '"AC": {"H": D("0.35"), "M": D("0.61"), "L": D("0.71")},', '"AC": {"H": D("0.35"), "M": D("0.71"), "L": D("0.61")},', rule="C14.weights"),
    V("c14-v4-level", "C14", C4, 'UI_levels = {"N": 0.0, "P": 0.1, "A": 0.2}', 'UI_levels = {"N": 0.0, "P": 0.2, "A": 0.1}', rule="C14.levels"),
    V("c14-v4-depth-shallow", "C14", K4, '("eq1", OrderedDict([(0, 1), (1, 4), (2, 5)])),', '("eq1", OrderedDict([(0, 1), (1, 1), (2, 5)])),', rule="C14.v4.cross"),
    V("c14-v4-lookup-tweak-N", "C14", K4, '("111110", 5.7),', '("111110", 5.8),', "silent"),
    V("c14-v4-lookup-tweak", "C02", K4, '("111110", 5.7),', '("111110", 5.8),', rule="C02.lookup"),
    V("c14-v4-lookup-cliff", "C14", K4, '("111111", 5.7),', '("111111", 0.3),', rule="C14.v4.cross"),
    V2("c12-rh-memo-vector-part", "C12", [(C4, "    def __init__(self, vector):\n        \"\"\"\n        Args:\n            vector (str): string specifying CVSS4 vector", "    _rh_seen = {}\n\n    def __init__(self, vector):\n        \"\"\"\n        Args:\n            vector (str): string specifying CVSS4 vector"), (C4, "        cvss_object = cls(base_vector)\n        if cvss_object.scores()[0] == score_value:\n            return cvss_object\n        else:", "        if base_vector in cls._rh_seen:\n            return cls._rh_seen[base_vector]\n        cvss_object = cls(base_vector)\n        if cvss_object.scores()[0] == score_value:\n            cls._rh_seen[base_vector] = cvss_object\n            return cvss_object\n        else:")], rule="C12.sem.history"),
    V2("c12-rh-memo-whole-string-N", "C12", [(C4, "    def __init__(self, vector):\n        \"\"\"\n        Args:\n            vector (str): string specifying CVSS4 vector", "    _rh_seen = {}\n\n    def __init__(self, vector):\n        \"\"\"\n        Args:\n            vector (str): string specifying CVSS4 vector"), (C4, "        cvss_object = cls(base_vector)\n        if cvss_object.scores()[0] == score_value:\n            return cvss_object\n        else:", "        if vector in cls._rh_seen:\n            return cls._rh_seen[vector]\n        cvss_object = cls(base_vector)\n        if cvss_object.scores()[0] == score_value:\n            cls._rh_seen[vector] = cvss_object\n            return cvss_object\n        else:")], "silent"),
    V("c17-main-returns-true", "C17", CLI, '                print("CVSS vector in JSON:", json_output, sep="\\n")\n    except (KeyboardInterrupt, EOFError):\n        print()\n', '                print("CVSS vector in JSON:", json_output, sep="\\n")\n            return True\n    except (KeyboardInterrupt, EOFError):\n        print()\n', rule="C17.sem.exit.return"),
    V("c17-main-returns-0-N", "C17", CLI, '                print("CVSS vector in JSON:", json_output, sep="\\n")\n    except (KeyboardInterrupt, EOFError):\n        print()\n', '                print("CVSS vector in JSON:", json_output, sep="\\n")\n            return 0\n    except (KeyboardInterrupt, EOFError):\n        print()\n        return None\n', "silent"),
    # ---------------------------------------------------------------- C16
    V("c16-prefix-30-as-31", "C16", INT, 'vector_string = "CVSS:3.0/" + "/".join(vector)', 'vector_string = "CVSS:3.1/" + "/".join(vector)', rule="C16.semantic"),
    V("c16-no-upper", "C16", INT, "input_value = string_input().strip().upper()", "input_value = string_input().strip()", rule="C16.semantic"),
    V("c16-append-before-test", "C16", INT, "            if matching:\n                vector.append(metric + \":\" + matching[0])\n                break", "            vector.append(metric + \":\" + input_value)\n            if matching:\n                break", rule="C16"),
    V("c16-empty-x-for-v2", "C16", INT, '                if version == 2:\n                    input_value = "ND"', '                if version == 3:\n                    input_value = "ND"', rule="C16.semantic"),
    V("c16-tables-v4-as-v3", "C16", INT, "    elif version == 4.0:\n        print(\"Interactive CVSS4 calculator\")\n        from .constants4 import (", "    elif version == 4.0:\n        print(\"Interactive CVSS4 calculator\")\n        from .constants3 import (", rule="C16.semantic"),
    V("c16-always-mandatory", "C16", INT, "    if all_metrics:\n        metrics = METRICS_ABBREVIATIONS.keys()", "    if all_metrics and version != 2:\n        metrics = METRICS_ABBREVIATIONS.keys()", rule="C16.semantic"),
    V("c16-back-to-old-accept", "C16", INT, '            matching = [value for value in values if value.upper() == input_value]\n            if matching:\n                vector.append(metric + ":" + matching[0])\n                break', '            if input_value in values:\n                vector.append(metric + ":" + input_value)\n                break', rule="C16.semantic"),
    V("c16-message-N", "C16", INT, 'print("Interactive CVSS2 calculator")', 'print("Interactive CVSS 2 calculator")', "silent"),
    # ---------------------------------------------------------------- C17
    V("c17-4-as-3", "C17", CLI, "            elif version == 4.0:\n                cvss_vector = CVSS4(vector_string)", "            elif version == 4.0:\n                cvss_vector = CVSS3(vector_string)", rule="C17.sem.dispatch"),
    V("c17-json-no-minimal", "C17", CLI, "as_json(sort=True, minimal=True)", "as_json(sort=True)", rule="C17.sem.print"),
    V("c17-except-narrow", "C17", CLI, "        except CVSSError as e:\n            print(e)", "        except CVSS3Error as e:\n            print(e)", rule="C17.sem.contain"),
    V("c17-eof-uncaught", "C17", CLI, "    except (KeyboardInterrupt, EOFError):", "    except KeyboardInterrupt:", rule="C17.sem.contain"),
    # -3 selecting 3.1 instead of 3.0 is still CVSS v3: the property pins the major version only
    V("c17-mapping-3-N", "C17", CLI, 'version_mapping = {"2": 2, "3": 3.0, "3.1": 3.1, "4": 4.0}', 'version_mapping = {"2": 2, "3": 3.1, "3.1": 3.1, "4": 4.0}', "silent"),
    V("c17-score-slot", "C17", CLI, 'score = scores[i], "({0})".format(severities[i])', 'score = scores[i], "({0})".format(severities[0])', rule="C17.sem.print"),
    V("c17-order-flags", "C17", CLI, 'for key in ("2", "3", "4") if getattr(args, key)', 'for key in ("json", "2", "3", "4") if getattr(args, key)', rule="C17.sem"),
    V("c17-pad-N", "C17", CLI, "PAD = 24", "PAD = 26", "silent"),
    # ---------------------------------------------------------------- C20
    V("c20-fstring", "C20", C3, "raise CVSS3MalformedError('Duplicate metric \"{0}\"'.format(metric))", "raise CVSS3MalformedError(f'Duplicate metric \"{metric}\"')", rule="C20.syntax"),
    V("c20-walrus", "C20", C2, "        missing = []\n        for mandatory_metric in METRICS_MANDATORY:", "        missing = []\n        if (n_ := len(METRICS_MANDATORY)) < 0:\n            pass\n        for mandatory_metric in METRICS_MANDATORY:", rule="C20.syntax"),
    V("c20-removeprefix", "C20", C3, 'fields = self.vector.split("/")[1:]', 'fields = self.vector.removeprefix("CVSS:3.0/").removeprefix("CVSS:3.1/").split("/")', rule="C20.names"),
    V("c20-round", "C20", C4, "        value = max(0.0, value)\n", "        value = max(0.0, round(value, 10))\n", rule="C20.division"),
    V("c20-int-div", "C20", C4, "        step = 0.1\n", "        step = 1 / 10\n", rule="C20.division"),
    V("c20-class-no-object", "C20", C2, "class CVSS2(object):", "class CVSS2:", rule="C20.syntax"),
    V("c20-plain-dict-json", "C20", C4, '        data = OrderedDict(\n            [\n                ("version", "4.0"),\n                ("vectorString", self.vector),\n            ]\n        )', '        data = {"version": "4.0", "vectorString": self.vector}', rule="C20.order"),
    V("c20-unicode-literals", "C20", C3, "from __future__ import unicode_literals\n\nimport copy", "import copy", rule="C20.future"),
    V("c20-kwonly", "C20", C3, "def clean_vector(self, output_prefix=True):", "def clean_vector(self, *, output_prefix=True):", rule="C20.syntax"),
    V("c20-iterate-plain-values", "C20", C3, "        for metric in METRICS_ABBREVIATIONS:\n            if metric in self.original_metrics:", "        for metric in METRICS_VALUES:\n            if metric in self.original_metrics:", rule="C20.order"),
    V("c20-annotations", "C20", C2, "def round_to_1_decimal(value):", "def round_to_1_decimal(value: D) -> D:", rule="C20.syntax"),
]

ALL = ["C%02d" % i for i in range(1, 21)]

# behaviour-neutral refactorings: every check must stay silent (exit 0)
VARIANTS += [
    V("n-check-mandatory-comprehension", ALL, C3, "        missing = []\n        for mandatory_metric in METRICS_MANDATORY:\n            if mandatory_metric not in self.metrics:\n                missing.append(mandatory_metric)\n        if missing:\n            raise CVSS3MandatoryError", "        missing = [m for m in METRICS_MANDATORY if m not in self.metrics]\n        if missing:\n            raise CVSS3MandatoryError", "silent"),
    V("n-v2-parse-early-exit", ALL, C2, '            if metric in METRICS_ABBREVIATIONS:\n                if value in METRICS_VALUES[metric]:\n                    if metric in self.metrics:\n                        raise CVSS2MalformedError(\'Duplicate metric "{0}"\'.format(metric))\n                    self.metrics[metric] = value\n                else:\n                    raise CVSS2MalformedError(\n                        \'Unknown value "{0}" in field "{1}"\'.format(value, field)\n                    )\n            else:\n                raise CVSS2MalformedError(\n                    \'Unknown metric "{0}" in field "{1}"\'.format(metric, field)\n                )', '            if metric not in METRICS_ABBREVIATIONS:\n                raise CVSS2MalformedError(\n                    \'Unknown metric "{0}" in field "{1}"\'.format(metric, field)\n                )\n            if value not in METRICS_VALUES[metric]:\n                raise CVSS2MalformedError(\n                    \'Unknown value "{0}" in field "{1}"\'.format(value, field)\n                )\n            if metric in self.metrics:\n                raise CVSS2MalformedError(\'Duplicate metric "{0}"\'.format(metric))\n            self.metrics[metric] = value', "silent"),
    V("n-v3-clean-vector-listcomp", ALL, C3, '        vector = []\n        for metric in METRICS_ABBREVIATIONS:\n            if metric in self.original_metrics:\n                value = self.original_metrics[metric]\n                if value != "X":\n                    vector.append("{0}:{1}".format(metric, value))\n        if output_prefix:', '        vector = [\n            "{0}:{1}".format(metric, self.original_metrics[metric])\n            for metric in METRICS_ABBREVIATIONS\n            if metric in self.original_metrics and self.original_metrics[metric] != "X"\n        ]\n        if output_prefix:', "silent"),
    V("n-v3-base-score-locals", ALL, C3, '        if self.isc <= D("0.0"):\n            self.base_score = D("0.0")\n        else:\n            assert self.scope in ("U", "C")\n            if self.scope == "U":\n                self.base_score = round_up(min((self.isc + self.esc), D("10")))\n            elif self.scope == "C":\n                self.base_score = round_up(min(D("1.08") * (self.isc + self.esc), D("10")))', '        impact, exploitability = self.isc, self.esc\n        if impact <= D("0.0"):\n            score = D("0.0")\n        elif self.scope == "U":\n            score = round_up(min(impact + exploitability, D("10")))\n        else:\n            score = round_up(min((impact + exploitability) * D("1.08"), D("10")))\n        self.base_score = score', "silent"),
    V("n-v3-pr-table-constant", ALL, C3, '            result = {"X": None, "N": D("0.85"), "L": D("0.68"), "H": D("0.50")}[string_value]', '            changed_scope_pr = {"N": D("0.85"), "L": D("0.68"), "H": D("0.5")}\n            result = changed_scope_pr[string_value]', "silent"),
    V("n-v2-scores-explicit", ALL, C2, "        scores = (self.base_score, self.temporal_score, self.environmental_score)\n        return tuple(float(a) if a is not None else None for a in scores)", "        result = []\n        for a in (self.base_score, self.temporal_score, self.environmental_score):\n            if a is None:\n                result.append(None)\n            else:\n                result.append(float(a))\n        return tuple(result)", "silent"),
    V("n-v3-severities-helper", ALL, C3, '        severities = []\n        for score in (self.base_score, self.temporal_score, self.environmental_score):\n            if score == D("0.0"):\n                severities.append("None")\n            elif score <= D("3.9"):\n                severities.append("Low")\n            elif score <= D("6.9"):\n                severities.append("Medium")\n            elif score <= D("8.9"):\n                severities.append("High")\n            else:\n                severities.append("Critical")\n        return tuple(severities)', '        def rate(score):\n            if score == D("0.0"):\n                return "None"\n            if score <= D("3.9"):\n                return "Low"\n            if score <= D("6.9"):\n                return "Medium"\n            if score <= D("8.9"):\n                return "High"\n            return "Critical"\n\n        return (rate(self.base_score), rate(self.temporal_score), rate(self.environmental_score))', "silent"),
    V("n-v4-m-restructured", ALL, C4, '        selected = self.metrics.get(metric)\n        if metric == "E" and selected == "X":\n            return "A"\n\n        if metric == "CR" and selected == "X":\n            return "H"\n\n        if metric == "IR" and selected == "X":\n            return "H"\n\n        if metric == "AR" and selected == "X":\n            return "H"\n', '        selected = self.metrics.get(metric)\n        if selected == "X":\n            if metric == "E":\n                return "A"\n            if metric in ("CR", "IR", "AR"):\n                return "H"\n', "silent"),
    V("n-v4-eq2-simplified", ALL, C4, '        if self.m("AC") == "L" and self.m("AT") == "N":\n            eq2 = "0"\n        elif not (self.m("AC") == "L" and self.m("AT") == "N"):\n            eq2 = "1"', '        if self.m("AC") == "L" and self.m("AT") == "N":\n            eq2 = "0"\n        else:\n            eq2 = "1"', "silent"),
    V("n-v4-tail-sum-loop", ALL, C4, "        mean_distance = (\n            0\n            if n_existing_lower == 0\n            else (\n                normalized_severity_eq1\n                + normalized_severity_eq2\n                + normalized_severity_eq3eq6\n                + normalized_severity_eq4\n                + normalized_severity_eq5\n            )\n            / n_existing_lower\n        )", "        total = 0\n        for part in (\n            normalized_severity_eq5,\n            normalized_severity_eq4,\n            normalized_severity_eq3eq6,\n            normalized_severity_eq2,\n            normalized_severity_eq1,\n        ):\n            total = total + part\n        if n_existing_lower == 0:\n            mean_distance = 0\n        else:\n            mean_distance = total / n_existing_lower", "silent"),
    V("n-v3-as-json-update", ALL, C3, '        data["baseScore"] = float(self.base_score)\n        data["baseSeverity"] = us(base_severity)', '        data.update({"baseScore": float(self.base_score)})\n        data["baseSeverity"] = us(base_severity)', "silent"),
    V("n-v3-rename-everything", ALL, C3, "    def compute_esc(self):\n        \"\"\"\n        8.22 x AttackVector x AttackComplexity x PrivilegeRequired x UserInteraction\n        \"\"\"\n        self.esc = (\n            D(\"8.22\")\n            * self.get_value(\"AV\")\n            * self.get_value(\"AC\")\n            * self.get_value(\"PR\")\n            * self.get_value(\"UI\")\n        )", "    def compute_esc(self):\n        \"\"\"\n        8.22 x AttackVector x AttackComplexity x PrivilegeRequired x UserInteraction\n        \"\"\"\n        product = D(\"8.22\")\n        for key in (\"UI\", \"PR\", \"AC\", \"AV\"):\n            product = product * self.get_value(key)\n        self.esc = product", "silent"),
    V("n-v2-temporal-guard-rewrite", ALL, C2, 'if all(self.metrics.get(a, "ND") == "ND" for a in TEMPORAL_METRICS):\n            self.temporal_score = None\n        else:\n            self.temporal_score = max(D("0.0"), self.temporal_score_equation())', 'if any(self.metrics.get(a, "ND") != "ND" for a in TEMPORAL_METRICS):\n            self.temporal_score = max(D("0.0"), self.temporal_score_equation())\n        else:\n            self.temporal_score = None', "silent"),
    V("n-parser-regex-flags-free", ALL, PAR, 'matches = re.compile(r"(?:CVSS:3\\.\\d/)?[A-Za-z:/]{26,}").findall(text)', 'matches = re.findall(r"(?:CVSS:3\\.\\d/)?[A-Za-z:/]{26,}", text)', "silent"),
]

VARIANTS += [
    V("n2-v3-loop-header-split", ALL, C3, '        try:\n            fields = self.vector.split("/")[1:]\n        except IndexError:\n            raise CVSS3MalformedError(\'Malformed CVSS3 vector "{0}"\'.format(self.vector))\n\n        # Parse fields\n        for field in fields:', '        # Parse fields\n        for field in self.vector.split("/")[1:]:', "silent"),
    V("n2-v3-prefix-order", ALL, C3, '        if self.vector.startswith("CVSS:3.0/"):\n            self.minor_version = 0\n        elif self.vector.startswith("CVSS:3.1/"):\n            self.minor_version = 1\n        else:', '        if self.vector.startswith("CVSS:3.1/"):\n            self.minor_version = 1\n        elif self.vector.startswith("CVSS:3.0/"):\n            self.minor_version = 0\n        else:', "silent"),
    V("n2-v2-rename-components", ALL, C2, '                metric, value = field.split(":")\n            except ValueError:\n                raise CVSS2MalformedError(\'Malformed CVSS2 field "{0}"\'.format(field))\n\n            if metric in METRICS_ABBREVIATIONS:\n                if value in METRICS_VALUES[metric]:\n                    if metric in self.metrics:\n                        raise CVSS2MalformedError(\'Duplicate metric "{0}"\'.format(metric))\n                    self.metrics[metric] = value\n                else:\n                    raise CVSS2MalformedError(\n                        \'Unknown value "{0}" in field "{1}"\'.format(value, field)\n                    )\n            else:\n                raise CVSS2MalformedError(\n                    \'Unknown metric "{0}" in field "{1}"\'.format(metric, field)\n                )', '                key, val = field.split(":")\n            except ValueError:\n                raise CVSS2MalformedError(\'Malformed CVSS2 field "{0}"\'.format(field))\n\n            if key in METRICS_ABBREVIATIONS:\n                if val in METRICS_VALUES[key]:\n                    if key in self.metrics:\n                        raise CVSS2MalformedError(\'Duplicate metric "{0}"\'.format(key))\n                    self.metrics[key] = val\n                else:\n                    raise CVSS2MalformedError(\n                        \'Unknown value "{0}" in field "{1}"\'.format(val, field)\n                    )\n            else:\n                raise CVSS2MalformedError(\n                    \'Unknown metric "{0}" in field "{1}"\'.format(key, field)\n                )', "silent"),
    V("n2-rh-merged-try", ALL, C2, '        try:\n            score, base_vector = vector.split("/", 1)\n        except ValueError:\n            raise CVSS2RHMalformedError(\n                \'Malformed CVSS2 vector in Red Hat notation "{0}"\'.format(vector)\n            )\n        try:\n            score_value = float(score)\n        except ValueError:', '        try:\n            score, base_vector = vector.split("/", 1)\n            score_value = float(score)\n        except ValueError:', "silent"),
    V("n2-rh-inverted-test", ALL, C3, '        if cvss_object.scores()[0] == score_value:\n            return cvss_object\n        else:\n            raise CVSS3RHScoreDoesNotMatch(', '        if cvss_object.scores()[0] == score_value:\n            return cvss_object\n        raise CVSS3RHScoreDoesNotMatch(', "silent", all=False),
    V("n2-parser-module-regex", ALL, PAR, 'def parse_cvss_from_text(text):', 'CANDIDATE = r"(?:CVSS:3\\.\\d/)?[A-Za-z:/]{26,}"\n\n\ndef parse_cvss_from_text(text):', "silent"),
    V("n2-interactive-values-list", ALL, INT, "        values = METRICS_VALUE_NAMES[metric]\n", "        values = list(METRICS_VALUE_NAMES[metric])\n", "silent"),
    V("n2-cli-class-variable", ALL, CLI, "            if version == 2:\n                cvss_vector = CVSS2(vector_string)\n            elif 3.0 <= version < 4.0:\n                cvss_vector = CVSS3(vector_string)\n            elif version == 4.0:\n                cvss_vector = CVSS4(vector_string)\n            else:\n                raise CVSSError(\"Unknown version: {0}\".format(version))", "            if version == 2:\n                cvss_class = CVSS2\n            elif 3.0 <= version < 4.0:\n                cvss_class = CVSS3\n            elif version == 4.0:\n                cvss_class = CVSS4\n            else:\n                raise CVSSError(\"Unknown version: {0}\".format(version))\n            cvss_vector = cvss_class(vector_string)", "silent"),
    V("n2-v4-levels-module-level", ALL, C4, '        AV_levels = {"N": 0.0, "A": 0.1, "L": 0.2, "P": 0.3}\n', '        AV_levels = dict(N=0.0, A=0.1, L=0.2, P=0.3)\n', "silent"),
    V("n2-v3-env-temporal-helper", ALL, C3, '            self.environmental_score = round_up(\n                modified * self.get_value("E") * self.get_value("RL") * self.get_value("RC")\n            )', '            temporal_factor = self.get_value("E") * self.get_value("RL") * self.get_value("RC")\n            self.environmental_score = round_up(temporal_factor * modified)', "silent"),
    V("n2-v2-as-json-locals", ALL, C2, '            data["temporalScore"] = float(self.temporal_score) if self.temporal_score else 0.0', '            temporal = self.temporal_score\n            data["temporalScore"] = float(temporal) if temporal else 0.0', "silent"),
    V("n2-v3-hash-tuple", ALL, C3, "        return hash(self.clean_vector())", "        return hash((self.clean_vector(),))", "silent"),
    V("n2-v3-eq-tuple-key", ALL, C3, "            return self.clean_vector() == o.clean_vector()", "            return (self.minor_version, self.clean_vector(output_prefix=False)) == (\n                o.minor_version,\n                o.clean_vector(output_prefix=False),\n            )", "silent"),
    # ------------------------------------------------ third batch of neutral twins (new engine features)
    V2(
        "n3-v3-clean-vector-memo-keyed",
        ALL,
        [
            (C3, "        self.original_metrics = None\n", "        self.original_metrics = None\n        self._clean = {}\n"),
            (
                C3,
                '        vector = []\n        for metric in METRICS_ABBREVIATIONS:\n            if metric in self.original_metrics:\n                value = self.original_metrics[metric]\n                if value != "X":\n                    vector.append("{0}:{1}".format(metric, value))\n        if output_prefix:\n            prefix = "CVSS:3.{0}/".format(self.minor_version)\n        else:\n            prefix = ""\n        return prefix + "/".join(vector)',
                '        key = bool(output_prefix)\n        if key in self._clean:\n            return self._clean[key]\n        vector = []\n        for metric in METRICS_ABBREVIATIONS:\n            if metric in self.original_metrics:\n                value = self.original_metrics[metric]\n                if value != "X":\n                    vector.append("{0}:{1}".format(metric, value))\n        if key:\n            prefix = "CVSS:3.{0}/".format(self.minor_version)\n        else:\n            prefix = ""\n        self._clean[key] = prefix + "/".join(vector)\n        return self._clean[key]',
            ),
        ],
        "silent",
    ),
    V2(
        "n3-k3-table-helper-str",
        ALL,
        [
            (
                K3,
                'METRICS_VALUES = {\n',
                'def _multipliers(**weights):\n    table = {"X": D("1")}\n    table.update((value, D(weight)) for value, weight in weights.items())\n    return table\n\n\nMETRICS_VALUES = {\n',
            ),
            (
                K3,
                '    "RC": {"X": D("1"), "C": D("1"), "R": D("0.96"), "U": D("0.92")},\n',
                '    "RC": _multipliers(C="1", R="0.96", U="0.92"),\n',
            ),
        ],
        "silent",
    ),
    V("n3-k2-decimal-of-exact-float", ALL, K2, '"TD": {"N": D("0"), "L": D("0.25"), "M": D("0.75"), "H": D("1"), "ND": D("1")}', '"TD": {"N": D(0), "L": D(0.25), "M": D(0.75), "H": D(1), "ND": D(1)}', "silent"),
    V2(
        "n3-v3-impact-static-helper",
        ALL,
        [
            (
                C3,
                '        if self.scope == "U":\n            self.isc = D("6.42") * self.isc_base\n        elif self.scope == "C":\n            self.isc = D("7.52") * (self.isc_base - D("0.029")) - D("3.25") * (\n                self.isc_base - D("0.02")\n            ) ** D("15")\n        else:  # This should never happen\n            raise RuntimeError(\'Invalid Scope: "{0}"\'.format(self.scope))',
                '        self.isc = self.impact_sub_score(self.isc_base, self.scope)',
            ),
            (
                C3,
                "    def compute_isc(self):",
                '    @staticmethod\n    def impact_sub_score(isc_base, scope):\n        if scope == "U":\n            return D("6.42") * isc_base\n        elif scope == "C":\n            return D("7.52") * (isc_base - D("0.029")) - D("3.25") * (isc_base - D("0.02")) ** D("15")\n        raise RuntimeError(\'Invalid Scope: "{0}"\'.format(scope))\n\n    def compute_isc(self):',
            ),
        ],
        "silent",
    ),
    V2(
        "n3-v3-metrics-defaultdict-get-kept",
        ALL,
        [
            (C3, "import copy\n", "import copy\nfrom collections import defaultdict\n"),
            (C3, "        self.metrics = {}\n", '        self.metrics = defaultdict(lambda: "X")\n'),
        ],
        "silent",
    ),
    V2(
        "n3-v2-severity-table-11",
        ALL,
        [
            (K2, "METRICS_MANDATORY = ", 'SEVERITY_BY_INTEGER_SCORE = ["Low"] * 4 + ["Medium"] * 3 + ["High"] * 4\n\nMETRICS_MANDATORY = '),
            (C2, "    METRICS_VALUES,\n", "    METRICS_VALUES,\n    SEVERITY_BY_INTEGER_SCORE,\n"),
            (
                C2,
                '            elif score <= D("3.9"):\n                severities.append("Low")\n            elif score <= D("6.9"):\n                severities.append("Medium")\n            else:\n                severities.append("High")',
                "            else:\n                severities.append(SEVERITY_BY_INTEGER_SCORE[int(score)])",
            ),
        ],
        "silent",
    ),
    V2(
        "n3-v2-max-length-exact",
        ALL,
        [
            (
                C2,
                "def round_to_1_decimal(value):",
                'MAX_VECTOR_LENGTH = (\n    sum(len(metric) + 1 + max(len(v) for v in METRICS_VALUES[metric]) for metric in METRICS_ABBREVIATIONS)\n    + len(METRICS_ABBREVIATIONS)\n    - 1\n)\n\n\ndef round_to_1_decimal(value):',
            ),
            (
                C2,
                '        fields = self.vector.split("/")\n\n        # Parse fields\n        for field in fields:\n            if field == "":\n                raise CVSS2MalformedError',
                '        if len(self.vector) > MAX_VECTOR_LENGTH:\n            raise CVSS2MalformedError("Malformed CVSS2 vector, too long")\n\n        fields = self.vector.split("/")\n\n        # Parse fields\n        for field in fields:\n            if field == "":\n                raise CVSS2MalformedError',
            ),
        ],
        "silent",
    ),
    V("n3-parser-regex-upper-bound-200", ALL, "cvss/parser.py", "[A-Za-z:/]{26,}", "[A-Za-z:/]{26,200}", "silent"),
    V("n3-k4-epsilon-float-division", ALL, K4, "EPSILON = 10**-6", "EPSILON = 1.0 / 10**6", "silent"),
    V(
        "n3-interactive-table-alias-readonly",
        ALL,
        "cvss/interactive.py",
        "        values = METRICS_VALUE_NAMES[metric]\n        value_names = []\n        for value in values:\n            name = METRICS_VALUE_NAMES[metric][value]\n",
        "        names_of_metric = METRICS_VALUE_NAMES[metric]\n        values = names_of_metric\n        value_names = []\n        for value in values:\n            name = names_of_metric[value]\n",
        "silent",
    ),
    V2(
        "n3-v3-get-value-dead-recursion",
        ALL,
        [
            (
                C3,
                '        string_value = self.metrics.get(abbreviation, "X")\n        if (abbreviation == "PR" and self.scope == "C") or (',
                '        string_value = self.metrics.get(abbreviation, "X")\n        if abbreviation in ("MAV", "MAC", "MUI", "MC", "MI", "MA") and string_value == "X":\n            # cannot happen after add_missing_optional(); kept as a safety net\n            return self.get_value(abbreviation[1:])\n        if (abbreviation == "PR" and self.scope == "C") or (',
            ),
        ],
        "silent",
    ),
    V2(
        "n3-interactive-ask-value-helper",
        ALL,
        [
            (
                "cvss/interactive.py",
                "def ask_interactively(version=3.1, all_metrics=False, no_colors=False):",
                'def ask_value(prompt, values, not_defined):\n    """Asks until one of the values is given; returns it as spelled in the specification."""\n    while True:\n        print(prompt, end=" ")\n        answer = string_input().strip().upper() or not_defined\n        matching = [value for value in values if value.upper() == answer]\n        if matching:\n            return matching[0]\n\n\ndef ask_interactively(version=3.1, all_metrics=False, no_colors=False):',
            ),
            (
                "cvss/interactive.py",
                '        while True:\n            print(METRICS_ABBREVIATIONS[metric] + ":", end=" ")\n            print("/".join(values), end=" ")\n            input_value = string_input().strip().upper()\n            if not input_value:\n                if version == 2:\n                    input_value = "ND"\n                else:\n                    input_value = "X"\n            # Match case-insensitively, but keep the spelling used by the specification\n            # (e.g. "Clear", "Green", "Amber", "Red" of the CVSS4 Provider Urgency metric).\n            matching = [value for value in values if value.upper() == input_value]\n            if matching:\n                vector.append(metric + ":" + matching[0])\n                break\n',
                '        prompt = METRICS_ABBREVIATIONS[metric] + ": " + "/".join(values)\n        vector.append(metric + ":" + ask_value(prompt, values, "ND" if version == 2 else "X"))\n',
            ),
        ],
        "silent",
    ),
    V(
        "n3-interactive-dict-of-upper",
        ALL,
        "cvss/interactive.py",
        '            matching = [value for value in values if value.upper() == input_value]\n            if matching:\n                vector.append(metric + ":" + matching[0])\n                break\n',
        '            by_upper = dict((value.upper(), value) for value in values)\n            if input_value in by_upper:\n                vector.append(metric + ":" + by_upper[input_value])\n                break\n',
        "silent",
    ),
    V(
        "n3-interactive-prefix-table",
        ALL,
        "cvss/interactive.py",
        '    if version == 3.0:\n        vector_string = "CVSS:3.0/" + "/".join(vector)\n    elif version == 3.1:\n        vector_string = "CVSS:3.1/" + "/".join(vector)\n    elif version == 4.0:\n        vector_string = "CVSS:4.0/" + "/".join(vector)\n    else:\n        vector_string = "/".join(vector)\n    return vector_string',
        '    prefix = ""\n    if version == 3.0:\n        prefix = "CVSS:3.0/"\n    elif version == 3.1:\n        prefix = "CVSS:3.1/"\n    elif version == 4.0:\n        prefix = "CVSS:4.0/"\n    return prefix + "/".join(vector)',
        "silent",
    ),
    # ---------------------------------------------------------------- round 4: sentinel iterators, generators
    V("c16-iter-sentinel-empty-is-nd", "C16", INT, '        while True:\n            print(METRICS_ABBREVIATIONS[metric] + ":", end=" ")\n            print("/".join(values), end=" ")\n            input_value = string_input().strip().upper()\n            if not input_value:\n                if version == 2:\n                    input_value = "ND"\n                else:\n                    input_value = "X"\n            # Match case-insensitively, but keep the spelling used by the specification\n            # (e.g. "Clear", "Green", "Amber", "Red" of the CVSS4 Provider Urgency metric).\n            matching = [value for value in values if value.upper() == input_value]\n            if matching:\n                vector.append(metric + ":" + matching[0])\n                break\n', '        def prompt():\n            print(METRICS_ABBREVIATIONS[metric] + ":", end=" ")\n            print("/".join(values), end=" ")\n            return string_input().strip().upper()\n\n        for input_value in iter(prompt, ""):\n            matching = [value for value in values if value.upper() == input_value]\n            if matching:\n                break\n        else:\n            matching = ["ND" if version == 2 else "X"]\n        vector.append(metric + ":" + matching[0])\n', rule="C16.semantic"),
    V("n4-interactive-iter-sentinel", ALL, INT, '        while True:\n            print(METRICS_ABBREVIATIONS[metric] + ":", end=" ")\n            print("/".join(values), end=" ")\n            input_value = string_input().strip().upper()\n            if not input_value:\n                if version == 2:\n                    input_value = "ND"\n                else:\n                    input_value = "X"\n            # Match case-insensitively, but keep the spelling used by the specification\n            # (e.g. "Clear", "Green", "Amber", "Red" of the CVSS4 Provider Urgency metric).\n            matching = [value for value in values if value.upper() == input_value]\n            if matching:\n                vector.append(metric + ":" + matching[0])\n                break\n', '        def prompt():\n            print(METRICS_ABBREVIATIONS[metric] + ":", end=" ")\n            print("/".join(values), end=" ")\n            answer = string_input().strip().upper()\n            if not answer:\n                answer = "ND" if version == 2 else "X"\n            return answer\n\n        for input_value in iter(prompt, None):\n            matching = [value for value in values if value.upper() == input_value]\n            if matching:\n                break\n        vector.append(metric + ":" + matching[0])\n', "silent"),
    V2("c16-first-try-then-retry-no-nd", "C16", [(INT, 'def ask_interactively(version=3.1, all_metrics=False, no_colors=False):', 'def read_answer(prompt):\n    print(prompt, end="")\n    return string_input().strip().upper()\n\n\ndef ask_interactively(version=3.1, all_metrics=False, no_colors=False):'), (INT, '        # Ask for input\n        while True:\n            print(METRICS_ABBREVIATIONS[metric] + ":", end=" ")\n            print("/".join(values), end=" ")\n            input_value = string_input().strip().upper()\n            if not input_value:\n                if version == 2:\n                    input_value = "ND"\n                else:\n                    input_value = "X"\n            # Match case-insensitively, but keep the spelling used by the specification\n            # (e.g. "Clear", "Green", "Amber", "Red" of the CVSS4 Provider Urgency metric).\n            matching = [value for value in values if value.upper() == input_value]\n            if matching:\n                vector.append(metric + ":" + matching[0])\n                break\n', '        not_defined = "ND" if version == 2 else "X"\n        prompt = METRICS_ABBREVIATIONS[metric] + ": " + "/".join(values) + " "\n        input_value = read_answer(prompt) or not_defined\n        matching = [value for value in values if value.upper() == input_value]\n        while not matching:\n            input_value = read_answer(prompt)\n            matching = [value for value in values if value.upper() == input_value]\n        vector.append(metric + ":" + matching[0])\n')], rule="C16.semantic"),
    V2("n4-interactive-first-try-then-retry", ["C16", "C08", "C17", "C20", "C19"], [(INT, 'def ask_interactively(version=3.1, all_metrics=False, no_colors=False):', 'def read_answer(prompt):\n    print(prompt, end="")\n    return string_input().strip().upper()\n\n\ndef ask_interactively(version=3.1, all_metrics=False, no_colors=False):'), (INT, '        # Ask for input\n        while True:\n            print(METRICS_ABBREVIATIONS[metric] + ":", end=" ")\n            print("/".join(values), end=" ")\n            input_value = string_input().strip().upper()\n            if not input_value:\n                if version == 2:\n                    input_value = "ND"\n                else:\n                    input_value = "X"\n            # Match case-insensitively, but keep the spelling used by the specification\n            # (e.g. "Clear", "Green", "Amber", "Red" of the CVSS4 Provider Urgency metric).\n            matching = [value for value in values if value.upper() == input_value]\n            if matching:\n                vector.append(metric + ":" + matching[0])\n                break\n', '        not_defined = "ND" if version == 2 else "X"\n        prompt = METRICS_ABBREVIATIONS[metric] + ": " + "/".join(values) + " "\n        input_value = read_answer(prompt) or not_defined\n        matching = [value for value in values if value.upper() == input_value]\n        while not matching:\n            input_value = read_answer(prompt) or not_defined\n            matching = [value for value in values if value.upper() == input_value]\n        vector.append(metric + ":" + matching[0])\n')], "silent"),
    # ---------------------------------------------------------------- round 5: behaviour-preserving refactorings written by independent sub-agents
    # Extracted the argparse set-up out of main() into a new module-level function build_parser(); the three near-identical add_argument calls for -2/-3/-4 
    PV("n5-cli-1", ["C17", "C19", "C20"], "selftest/patches/n5-cli-1.diff"),
    # Version selection in main(): the version_mapping dict, the next(generator, None) search for the first set flag and the dict.get(..., DEFAULT_VERSION) 
    PV("n5-cli-2", ["C17", "C19", "C20"], "selftest/patches/n5-cli-2.diff"),
    # The two parallel if/elif chains on `version` in main() (one constructing CVSS2/CVSS3/CVSS4, one printing the title and fetching severities) are merged
    PV("n5-cli-3", ["C17", "C19", "C20"], "selftest/patches/n5-cli-3.diff"),
    # Score printing in main(): the index-based loop `for i, name in enumerate([...])` with try/except IndexError around scores[i]/severities[i] and the `if
    PV("n5-cli-4", ["C17", "C19", "C20"], "selftest/patches/n5-cli-4.diff"),
    # Control flow of main() flattened: the try/except CVSSError/else construct becomes try/except with `print(e); return` in the handler and the former els
    PV("n5-cli-5", ["C17", "C19", "C20"], "selftest/patches/n5-cli-5.diff"),
    # Output section of main(): a local helper show(label, *values) printing `(label + ':').ljust(PAD - 2)` followed by the values now produces the score li
    PV("n5-cli-6", ["C17", "C19", "C20"], "selftest/patches/n5-cli-6.diff"),
    # cvss/constants3.py: the eight 'Modified' environmental metrics (MAV..MA) are no longer spelled out in METRICS_ABBREVIATIONS, METRICS_ABBREVIATIONS_JSO
    PV("n5-consts-1", ALL, "selftest/patches/n5-consts-1.diff"),
    # cvss/constants2.py: extracted helper functions for building the tables - a varargs helper _names(*pairs) replaces every OrderedDict([...]) literal of 
    PV("n5-consts-2", ALL, "selftest/patches/n5-consts-2.diff"),
    # cvss/constants4.py: CVSS_LOOKUP_GLOBAL is no longer a 270-line literal list of (macro vector, score) pairs; the keys are produced by a generator funct
    PV("n5-consts-3", ALL, "selftest/patches/n5-consts-3.diff"),
    # cvss/constants4.py: the (value, name) pair lists that recur in METRICS_VALUE_NAMES are hoisted into private module-level aliases (_NOT_DEFINED, _HIGH_
    PV("n5-consts-4", ALL, "selftest/patches/n5-consts-4.diff"),
    # cvss/constants2.py and cvss/constants3.py: the parallel tables METRICS_ABBREVIATIONS, METRICS_ABBREVIATIONS_JSON and the three group lists (METRICS_MA
    PV("n5-consts-5", ALL, "selftest/patches/n5-consts-5.diff"),
    # cvss/constants4.py: MAX_COMPOSED and MAX_SEVERITY are no longer nested OrderedDict([(key, value), ...]) literals with hand-numbered level keys; two he
    PV("n5-consts-6", ALL, "selftest/patches/n5-consts-6.diff"),
    # from_rh_vector() and check_mandatory(), which were triplicated in cvss2.py, cvss3.py and cvss4.py, are moved into a new common base class cvss/base.py
    PV("n5-cross-1", NO14, "selftest/patches/n5-cross-1.diff"),
    # cvss/interactive.py: the version if/elif chain with function-level constant imports becomes select_constants() using module-level 'from . import const
    PV("n5-cross-2", NO14, "selftest/patches/n5-cross-2.diff"),
    # The closures us() and add_metric_to_data() nested in as_json() of CVSS2, CVSS3 and CVSS4 are extracted into a private staticmethod _json_value() and a
    PV("n5-cross-3", NO14, "selftest/patches/n5-cross-3.diff"),
    # parse_vector() of CVSS2 and CVSS3 validates each field with flat guard clauses instead of three nested if/else levels (same error precedence: unknown 
    PV("n5-cross-5", NO14, "selftest/patches/n5-cross-5.diff"),
    # The severity if/elif chains of CVSS2.severities(), CVSS3.severities() and CVSS4.compute_severity() are replaced by module-level SEVERITY_RATINGS thres
    PV("n5-cross-6", NO14, "selftest/patches/n5-cross-6.diff"),
    # Extracted the per-value hint construction of ask_interactively into a module-level helper _name_with_hints(version, value, name) (if/elif turned into 
    PV("n5-inter-1", ["C16", "C08", "C17", "C19", "C20"], "selftest/patches/n5-inter-1.diff"),
    # color() now applies its three replacements by looping over a module-level tuple table COLOR_REPLACEMENTS (same order) instead of chained .replace call
    PV("n5-inter-2", ["C16", "C08", "C17", "C19", "C20"], "selftest/patches/n5-inter-2.diff"),
    # The nested loops building the hinted value names became a list comprehension over values.items() calling a local closure add_hints(value, name), whose
    PV("n5-inter-3", ["C16", "C08", "C17", "C19", "C20"], "selftest/patches/n5-inter-3.diff"),
    # locals of ask_interactively renamed
    PV("n5-inter-4", ["C16", "C08", "C17", "C19", "C20"], "selftest/patches/n5-inter-4.diff"),
    # version dispatch imports the constants module itself
    PV("n5-inter-5", ["C16", "C08", "C17", "C19", "C20"], "selftest/patches/n5-inter-5.diff"),
    # cvss/parser.py: hoisted the candidate regular expression (compiled once as module constant _VECTOR_CANDIDATE_RE) and the 'CVSS:3.' prefix literal (_CV
    PV("n5-parser-1", ["C13", "C19", "C20"], "selftest/patches/n5-parser-1.diff"),
    # cvss/parser.py: extracted the try/except + version dispatch into a new module-level helper _parse_candidate(candidate) that returns the CVSS2/CVSS3 ob
    PV("n5-parser-2", ["C13", "C19", "C20"], "selftest/patches/n5-parser-2.diff"),
    # cvss/parser.py: the if/else that picked the constructor became a conditional expression selecting the class (cvss_class = CVSS3 if ... else CVSS2) eva
    PV("n5-parser-3", ["C13", "C19", "C20"], "selftest/patches/n5-parser-3.diff"),
    # cvss/parser.py: the duplicate test `cvss not in cvsss` (list membership through CVSS2/CVSS3.__eq__, which compares class and clean_vector()) was repla
    PV("n5-parser-4", ["C13", "C19", "C20"], "selftest/patches/n5-parser-4.diff"),
    # cvss/parser.py: the startswith if/else dispatch was replaced by a lookup in an ordered, immutable module-level prefix table _CONSTRUCTORS_BY_PREFIX = 
    PV("n5-parser-5", ["C13", "C19", "C20"], "selftest/patches/n5-parser-5.diff"),
    # cvss/exceptions.py: removed the redundant `pass` statement from all 16 exception classes (the docstring alone is a valid class body; names, bases, MRO
    PV("n5-parser-6", ["C13", "C19", "C20"], "selftest/patches/n5-parser-6.diff"),
    # CVSS2.parse_vector: the nested if/else pyramid (known metric -> known value -> not duplicate) is flattened into guard clauses in the same check order,
    PV("n5-v2-1", NO14, "selftest/patches/n5-v2-1.diff"),
    # Scoring equations of CVSS2: Decimal literals 0, 1, 10 and 0.0 hoisted to module constants (ZERO, ONE, TEN, LOWEST_SCORE); impact_equation and adjusted
    PV("n5-v2-2", NO14, "selftest/patches/n5-v2-2.diff"),
    # CVSS2.severities: the if/elif threshold chain is replaced by a lookup over a module-level ordered table SEVERITY_UPPER_BOUNDS in a new module function
    PV("n5-v2-3", NO14, "selftest/patches/n5-v2-3.diff"),
    # CVSS2.as_json: the two nested closures (us, add_metric_to_data) that mutated the enclosing `data` are removed; the snake-case conversion becomes modul
    PV("n5-v2-4", NO14, "selftest/patches/n5-v2-4.diff"),
    # constants2: METRICS_MANDATORY / TEMPORAL_METRICS / ENVIRONMENTAL_METRICS are derived by slicing list(METRICS_ABBREVIATIONS) instead of being spelled o
    PV("n5-v2-5", NO14, "selftest/patches/n5-v2-5.diff"),
    # CVSS2.from_rh_vector: the two try/except ValueError blocks with identical handlers are merged, the score comparison is inverted into a guard clause (r
    PV("n5-v2-6", NO14, "selftest/patches/n5-v2-6.diff"),
    # parse_vector(): the per-field validation (empty field, split on ':', unknown metric, unknown value) was extracted into a new helper method _split_fiel
    PV("n5-v3out-1", NO14, "selftest/patches/n5-v3out-1.diff"),
    # parse_vector(): the if/elif chain on the 'CVSS:3.0/' / 'CVSS:3.1/' prefix became an enumerate() loop over a prefix tuple with for/else; check_mandator
    PV("n5-v3out-2", NO14, "selftest/patches/n5-v3out-2.diff"),
    # severities(): the if/elif rating chain was replaced by a lookup in a hoisted module-level tuple of (upper bound, rating) pairs, performed by a new sta
    PV("n5-v3out-3", NO14, "selftest/patches/n5-v3out-3.diff"),
    # clean_vector(): nested-if accumulation loop rewritten as a list comprehension using dict.get(metric, 'X') with a local alias, '{0}:{1}'.format and the
    PV("n5-v3out-4", NO14, "selftest/patches/n5-v3out-4.diff"),
    # as_json(): the three copy-pasted blocks (base / temporal / environmental) are now driven by a tuple of groups and one local helper group_items() retur
    PV("n5-v3out-5", NO14, "selftest/patches/n5-v3out-5.diff"),
    # from_rh_vector(): the two try/except ValueError blocks merged into one, if/else turned into an early raise with '!=' test, the base score computed onc
    PV("n5-v3out-6", NO14, "selftest/patches/n5-v3out-6.diff"),
    # get_value() in cvss/cvss3.py: the per-call dict literal with the Privileges Required weights for Changed scope is hoisted to the module-level constant
    PV("n5-v3score-1", ALL, "selftest/patches/n5-v3score-1.diff"),
    # compute_isc_base, compute_esc, compute_modified_isc_base and compute_modified_esc no longer spell out the Decimal products; they pass lazy generator e
    PV("n5-v3score-2", ALL, "selftest/patches/n5-v3score-2.diff"),
    # compute_base_score and compute_environmental_score use early returns instead of if/else nesting; Round up(Minimum[..., 10]) is extracted into the stat
    PV("n5-v3score-3", ALL, "selftest/patches/n5-v3score-3.diff"),
    # The three copies of the impact sub score formulas in compute_isc, compute_modified_isc_30 and compute_modified_isc are extracted into module-level fun
    PV("n5-v3score-4", ALL, "selftest/patches/n5-v3score-4.diff"),
    # handle_scope computes into local variables and uses metrics.get('MS', 'X') with a conditional expression instead of assign-then-overwrite on self; add
    PV("n5-v3score-5", ALL, "selftest/patches/n5-v3score-5.diff"),
    # cvss/constants3.py: the Modified Base metric entries of METRICS_VALUES and METRICS_VALUE_NAMES are no longer spelled out but derived from the Base met
    PV("n5-v3score-6", ALL, "selftest/patches/n5-v3score-6.diff"),
    # parse_vector: the whole-vector checks (empty, trailing slash, prefix) and the split are extracted into a new method vector_fields() (with a local alia
    PV("n5-v4misc-1", NO14, "selftest/patches/n5-v4misc-1.diff"),
    # check_mandatory collects the missing metrics with a list comprehension; add_missing_optional derives the modified metric names from METRICS_MANDATORY 
    PV("n5-v4misc-2", NO14, "selftest/patches/n5-v4misc-2.diff"),
    # clean_vector builds its fields with one list comprehension (original.get(metric, 'X') != 'X' filter, string concatenation instead of .format, local al
    PV("n5-v4misc-3", NO14, "selftest/patches/n5-v4misc-3.diff"),
    # as_json: the nested helper us() becomes the module level function upper_snake_case(), the nested add_metric_to_data() closure is inlined; the result i
    PV("n5-v4misc-4", NO14, "selftest/patches/n5-v4misc-4.diff"),
    # from_rh_vector: splitting and float conversion move into a new staticmethod split_rh_vector() returning a 3-tuple, with the two identical try/except V
    PV("n5-v4misc-5", NO14, "selftest/patches/n5-v4misc-5.diff"),
    # constants4.py: METRICS_MANDATORY is derived as the leading slice of METRICS (up to and including 'SA', a new list object with the same 11 names); the 
    PV("n5-v4misc-6", NO14, "selftest/patches/n5-v4misc-6.diff"),
    # CVSS4.m(): the four copy-pasted `if metric == ... and selected == 'X'` tests become one lookup in a class-level table NOT_DEFINED_DEFAULTS (E->A, CR/I
    PV("n5-v4score-1", ALL, "selftest/patches/n5-v4score-1.diff"),
    # CVSS4.macroVector(): split into six private helper methods _eq1().._eq6() that use early returns instead of pre-initialised eqN='None' variables and i
    PV("n5-v4score-2", ALL, "selftest/patches/n5-v4score-2.diff"),
    # compute_base_score(): the six int(macroVector[i]) statements become one comprehension with tuple unpacking; the eight copy-pasted '''.join(str(val) fo
    PV("n5-v4score-3", ALL, "selftest/patches/n5-v4score-3.diff"),
    # compute_base_score(): the fourteen XX_levels dictionaries become one ordered list of (metric, levels) pairs, the fourteen copy-pasted severity_distanc
    PV("n5-v4score-4", ALL, "selftest/patches/n5-v4score-4.diff"),
    # Tail of compute_base_score(): the four copy-pasted 'available distance / n_existing_lower / percent / normalized severity' blocks for EQ1, EQ2, EQ3+EQ
    PV("n5-v4score-6", ALL, "selftest/patches/n5-v4score-6.diff"),
    # per-metric work moved into a helper class MetricQuestion with properties and an ask() method
    PV("n5-inter-6", ["C16", "C08", "C17", "C19", "C20"], "selftest/patches/n5-inter-6.diff"),
    # ---------------------------------------------------------------- round 6: neutral refactorings of the fourth round of sub-agents
    # cvss/cvss2.py: CVSS2.parse_vector's per-field work (empty check, split on ':', metric and value lookup) is extracted into a new method CVSS2._parse_fi
    PV("n6-C04-1", NO14, "selftest/patches/n6-C04-1.diff"),
    # cvss/cvss3.py: the if/elif startswith chain for 'CVSS:3.0/' / 'CVSS:3.1/' in CVSS3.parse_vector becomes a for/else loop over a new module-level table 
    PV("n6-C04-2", NO14, "selftest/patches/n6-C04-2.diff"),
    # cvss/cvss4.py: the prefix literal is hoisted into a module constant VECTOR_PREFIX; the syntactic part of CVSS4.parse_vector (slicing off the prefix, s
    PV("n6-C04-3", NO14, "selftest/patches/n6-C04-3.diff"),
    # cvss/cvss2.py: CVSS2.from_rh_vector() merges the two try blocks (split/unpack and float() both raise ValueError and produced the same CVSS2RHMalformed
    PV("n6-C12-1", ["C12", "C08", "C07", "C18", "C19", "C20", "C09"], "selftest/patches/n6-C12-1.diff"),
    # cvss/cvss3.py: CVSS3.clean_vector() becomes a list comprehension over METRICS_ABBREVIATIONS using original_metrics.get(metric, 'X') != 'X' and a condi
    PV("n6-C12-2", ["C12", "C08", "C07", "C18", "C19", "C20", "C09"], "selftest/patches/n6-C12-2.diff"),
    # cvss/cvss4.py: the split-at-first-slash + float() parsing of CVSS4.from_rh_vector() is extracted into a module-level helper split_rh_notation(vector) 
    PV("n6-C12-3", ["C12", "C08", "C07", "C18", "C19", "C20", "C09"], "selftest/patches/n6-C12-3.diff"),
    # parser.py restructured: the candidate regex is compiled once at module level (CANDIDATE_RE), choosing the class and calling the constructor moved into
    PV("n6-C13-1", ["C13", "C07", "C04", "C19", "C20"], "selftest/patches/n6-C13-1.diff"),
    # CVSS3.parse_vector() restructured: the if/elif chain over the 'CVSS:3.0/' / 'CVSS:3.1/' prefixes became a for/else loop over a module-level SUPPORTED_
    PV("n6-C13-2", ["C13", "C07", "C04", "C19", "C20"], "selftest/patches/n6-C13-2.diff"),
    # The equality / cleaning path used for de-duplication, in both CVSS2 and CVSS3: clean_vector() builds the string with one generator expression over MET
    PV("n6-C13-3", ["C13", "C07", "C04", "C19", "C20"], "selftest/patches/n6-C13-3.diff"),
    # cvss/interactive.py: the inline creation of value names with hints (letter marking, '(X)Not Defined' and the CVSS2 exceptions) is extracted into a new
    PV("n6-C16-1", ["C16", "C08", "C17", "C19", "C20"], "selftest/patches/n6-C16-1.diff"),
    # cvss/interactive.py: the 'while True' question loop is extracted into a new helper ask_value(question, values, not_defined) that loops until an answer
    PV("n6-C16-2", ["C16", "C08", "C17", "C19", "C20"], "selftest/patches/n6-C16-2.diff"),
    # cvss/interactive.py: the three function-level 'from .constantsN import ...' statements are replaced by one module-level 'from . import constants2, con
    PV("n6-C16-3", ["C16", "C08", "C17", "C19", "C20"], "selftest/patches/n6-C16-3.diff"),
    # cvss/cvss_calculator.py (output stage of main): the if/elif chain selecting CVSS2/CVSS3/CVSS4 moved into a helper cvss_class(version) (same conditions
    PV("n6-C17-1", ["C17", "C16", "C19", "C20"], "selftest/patches/n6-C17-1.diff"),
    # cvss/interactive.py: the hint generation inside ask_interactively() (bracket every letter of the value in its name with str.replace, '(X)Not Defined' 
    PV("n6-C17-2", ["C17", "C16", "C19", "C20"], "selftest/patches/n6-C17-2.diff"),
    # cvss/cvss_calculator.py (argument stage of main): the three add_argument calls for -2/-3/-4 became a loop over a module-level table VERSION_FLAGS of (
    PV("n6-C17-3", ["C17", "C16", "C19", "C20"], "selftest/patches/n6-C17-3.diff"),
    # CVSS3.as_json(): the three copy-pasted blocks (base, temporal, environmental) are replaced by one loop over a table of (group name, metrics, score, se
    PV("n6-C11-1", ["C11", "C10", "C09", "C18", "C19", "C20"], "selftest/patches/n6-C11-1.diff"),
    # CVSS2.as_json(): the nested us()/add_metric_to_data() closures that wrote into 'data' are replaced by a metric_fields() helper returning a list of (sc
    PV("n6-C11-2", ["C11", "C10", "C09", "C18", "C19", "C20"], "selftest/patches/n6-C11-2.diff"),
    # CVSS4: as_json() builds its result from itertools.chain(header pairs, a generator of (schema name, value) pairs produced by a new nested metric_field(
    PV("n6-C11-3", ["C11", "C10", "C09", "C18", "C19", "C20"], "selftest/patches/n6-C11-3.diff"),
    # CVSS3.as_json() in cvss/cvss3.py: the three copy-pasted blocks for the base, temporal and environmental group (and the add_metric_to_data closure) are
    PV("n6-C10-1", ["C10", "C11", "C09", "C04", "C18", "C20"], "selftest/patches/n6-C10-1.diff"),
    # CVSS3.severities() in cvss/cvss3.py (used by as_json() for base/temporal/environmentalSeverity): the if/elif chain inside the loop is replaced by a mo
    PV("n6-C10-2", ["C10", "C11", "C09", "C04", "C18", "C20"], "selftest/patches/n6-C10-2.diff"),
    # cvss/cvss2.py: CVSS2.parse_vector() uses guard clauses (unknown metric, then unknown value, then duplicate - same precedence and messages as the neste
    PV("n6-C10-3", ["C10", "C11", "C09", "C04", "C18", "C20"], "selftest/patches/n6-C10-3.diff"),
    # 
    PV("n6-C18-1", NO14, "selftest/patches/n6-C18-1.diff"),
    # 
    PV("n6-C18-2", NO14, "selftest/patches/n6-C18-2.diff"),
    PV("n7-memo-env-keyed-with-prefix", ["C01", "C05", "C06", "C09", "C15", "C18"], "selftest/patches/n7-memo-env-keyed-with-prefix.diff"),
    # cvss/cvss3.py, behaviour-preserving: (1) get_value() is table driven - the Scope-Changed Privileges Required weights moved to a module const (independent sub-agent, round 5)
    PV("n7-C01-1", ["C01", "C02", "C03", "C04", "C05", "C06", "C07", "C08", "C09", "C10", "C11", "C12", "C13", "C14", "C15", "C16", "C17", "C18", "C19", "C20"], "selftest/patches/n7-C01-1.diff"),
    # cvss/cvss3.py, behaviour-preserving: (1) the Scope-Changed impact polynomial that was spelled out three times (compute_isc, compute_modified (independent sub-agent, round 5)
    PV("n7-C01-2", ["C01", "C02", "C03", "C04", "C05", "C06", "C07", "C08", "C09", "C10", "C11", "C12", "C13", "C14", "C15", "C16", "C17", "C18", "C19", "C20"], "selftest/patches/n7-C01-2.diff"),
    # Behaviour-preserving refactoring of the effective-value resolution and EQ6 in cvss/cvss4.py. (1) m(): the four `if metric == ... and selecte (independent sub-agent, round 5)
    PV("n7-C02-1", ["C01", "C02", "C03", "C04", "C05", "C06", "C07", "C08", "C09", "C10", "C11", "C12", "C13", "C14", "C15", "C16", "C17", "C18", "C19", "C20"], "selftest/patches/n7-C02-1.diff"),
    # Behaviour-preserving refactoring of the joint EQ3/EQ6 next-lower macrovector in CVSS4.compute_base_score() (cvss/cvss4.py). A local helper l (independent sub-agent, round 5)
    PV("n7-C02-2", ["C01", "C02", "C03", "C04", "C05", "C06", "C07", "C08", "C09", "C10", "C11", "C12", "C13", "C14", "C15", "C16", "C17", "C18", "C19", "C20"], "selftest/patches/n7-C02-2.diff"),
    # cvss/cvss2.py, behaviour preserving: impact_equation() and adjusted_impact_equation() share a new helper CVSS2._impact_remainder(with_requir (independent sub-agent, round 5)
    PV("n7-C03-1", ["C01", "C02", "C03", "C04", "C05", "C06", "C07", "C08", "C09", "C10", "C11", "C12", "C13", "C14", "C15", "C16", "C17", "C18", "C19", "C20"], "selftest/patches/n7-C03-1.diff"),
    # cvss/cvss2.py, behaviour preserving: the two 'is the whole group ND?' all()-generator tests are replaced by a new helper CVSS2._is_group_def (independent sub-agent, round 5)
    PV("n7-C03-2", ["C01", "C02", "C03", "C04", "C05", "C06", "C07", "C08", "C09", "C10", "C11", "C12", "C13", "C14", "C15", "C16", "C17", "C18", "C19", "C20"], "selftest/patches/n7-C03-2.diff"),
    # cvss/cvss3.py, CVSS3.parse_vector (behaviour-preserving): the startswith('CVSS:3.0/') / startswith('CVSS:3.1/') if-chain becomes a for/else  (independent sub-agent, round 5)
    PV("n7-C04-1", ["C01", "C02", "C03", "C04", "C05", "C06", "C07", "C08", "C09", "C10", "C11", "C12", "C13", "C15", "C16", "C17", "C18", "C19", "C20"], "selftest/patches/n7-C04-1.diff"),
    # cvss/cvss2.py (behaviour-preserving): CVSS2.parse_vector becomes table driven. A module-level dict _LEGAL_FIELDS maps every legal 'metric:va (independent sub-agent, round 5)
    PV("n7-C04-2", ["C01", "C02", "C03", "C04", "C05", "C06", "C07", "C08", "C09", "C10", "C11", "C12", "C13", "C15", "C16", "C17", "C18", "C19", "C20"], "selftest/patches/n7-C04-2.diff"),
    # cvss/cvss4.py, behaviour-preserving refactoring of the code that makes an absent optional metric and an explicit X equivalent and that rende (independent sub-agent, round 5)
    PV("n7-C05-1", ["C01", "C02", "C03", "C04", "C05", "C06", "C07", "C08", "C09", "C10", "C11", "C12", "C13", "C15", "C16", "C17", "C18", "C19", "C20"], "selftest/patches/n7-C05-1.diff"),
    # cvss/cvss3.py and cvss/cvss2.py, behaviour-preserving refactoring of parsing, Not Defined handling and clean_vector: (1) CVSS3.parse_vector( (independent sub-agent, round 5)
    PV("n7-C05-2", ["C01", "C02", "C03", "C04", "C05", "C06", "C07", "C08", "C09", "C10", "C11", "C12", "C13", "C15", "C16", "C17", "C18", "C19", "C20"], "selftest/patches/n7-C05-2.diff"),
    # Behaviour-preserving refactoring of cvss/cvss3.py lines 175-220 (handle_scope, add_missing_optional, get_value): new helper CVSS3.is_defined (independent sub-agent, round 5)
    PV("n7-C06-1", ["C01", "C02", "C03", "C04", "C05", "C06", "C07", "C08", "C09", "C10", "C11", "C12", "C13", "C14", "C15", "C16", "C17", "C18", "C19", "C20"], "selftest/patches/n7-C06-1.diff"),
    # Behaviour-preserving refactoring of cvss/cvss4.py (add_missing_optional, m(), no-impact test in compute_base_score): m() is table driven - t (independent sub-agent, round 5)
    PV("n7-C06-2", ["C01", "C02", "C03", "C04", "C05", "C06", "C07", "C08", "C09", "C10", "C11", "C12", "C13", "C14", "C15", "C16", "C17", "C18", "C19", "C20"], "selftest/patches/n7-C06-2.diff"),
    # cvss/cvss2.py and cvss/cvss3.py: clean_vector() loop-with-nested-ifs turned into a single generator expression over the same ordered METRICS (independent sub-agent, round 5)
    PV("n7-C07-1", ["C01", "C02", "C03", "C04", "C05", "C06", "C07", "C08", "C09", "C10", "C11", "C12", "C13", "C15", "C16", "C17", "C18", "C19", "C20"], "selftest/patches/n7-C07-1.diff"),
    # cvss/cvss4.py and cvss/cvss2.py: clean_vector() no longer walks the ordered METRICS_ABBREVIATIONS table probing the parsed metrics; it walks (independent sub-agent, round 5)
    PV("n7-C07-2", ["C01", "C02", "C03", "C04", "C05", "C06", "C07", "C08", "C09", "C10", "C11", "C12", "C13", "C15", "C16", "C17", "C18", "C19", "C20"], "selftest/patches/n7-C07-2.diff"),
    # Behaviour-preserving refactoring of the v2/v3 anchors. cvss/cvss3.py: CVSS3.clean_vector() - the accumulate-in-a-loop body was split into a  (independent sub-agent, round 5)
    PV("n7-C08-1", ["C01", "C02", "C03", "C04", "C05", "C06", "C07", "C08", "C09", "C10", "C11", "C12", "C13", "C15", "C16", "C17", "C18", "C19", "C20"], "selftest/patches/n7-C08-1.diff"),
    # Behaviour-preserving refactoring of the v4 and interactive anchors. cvss/cvss4.py: CVSS4.clean_vector() computes the prefix first with a con (independent sub-agent, round 5)
    PV("n7-C08-2", ["C01", "C02", "C03", "C04", "C05", "C06", "C07", "C08", "C09", "C10", "C11", "C12", "C13", "C15", "C16", "C17", "C18", "C19", "C20"], "selftest/patches/n7-C08-2.diff"),
    # Behaviour-preserving refactoring of the severity threshold chains. cvss/cvss3.py: the if/elif chain inside CVSS3.severities() is extracted i (independent sub-agent, round 5)
    PV("n7-C09-1", ["C01", "C02", "C03", "C04", "C05", "C06", "C07", "C08", "C09", "C10", "C11", "C12", "C13", "C14", "C15", "C16", "C17", "C18", "C19", "C20"], "selftest/patches/n7-C09-1.diff"),
    # Behaviour-preserving refactoring of the score clamps / Decimal->float conversion. cvss/cvss2.py: the three 'max(D("0.0"), x)' clamps go thro (independent sub-agent, round 5)
    PV("n7-C09-2", ["C01", "C02", "C03", "C04", "C05", "C06", "C07", "C08", "C09", "C10", "C11", "C12", "C13", "C14", "C15", "C16", "C17", "C18", "C19", "C20"], "selftest/patches/n7-C09-2.diff"),
    # cvss/cvss3.py, CVSS3.as_json(): table-driven rewrite (50 changed lines). The add_metric_to_data closure and the three copy-pasted blocks (ba (independent sub-agent, round 5)
    PV("n7-C10-1", ["C01", "C02", "C03", "C04", "C05", "C06", "C07", "C08", "C09", "C10", "C11", "C12", "C13", "C15", "C16", "C17", "C18", "C19", "C20"], "selftest/patches/n7-C10-1.diff"),
    # cvss/cvss2.py, CVSS2.as_json(): restructured (58 changed lines, plus 'import re'). The us() and add_metric_to_data() closures are merged int (independent sub-agent, round 5)
    PV("n7-C10-2", ["C01", "C02", "C03", "C04", "C05", "C06", "C07", "C08", "C09", "C10", "C11", "C12", "C13", "C15", "C16", "C17", "C18", "C19", "C20"], "selftest/patches/n7-C10-2.diff"),
    # Behaviour-preserving refactoring of CVSS2.as_json() (cvss/cvss2.py) and CVSS3.as_json() (cvss/cvss3.py): the duplicated temporal/environment (independent sub-agent, round 5)
    PV("n7-C11-1", ["C01", "C02", "C03", "C04", "C05", "C06", "C07", "C08", "C09", "C10", "C11", "C12", "C13", "C15", "C16", "C17", "C18", "C19", "C20"], "selftest/patches/n7-C11-1.diff"),
    # Behaviour-preserving refactoring with a different control flow. CVSS2.as_json() (cvss/cvss2.py): 'build everything, then drop' - all metric  (independent sub-agent, round 5)
    PV("n7-C11-2", ["C01", "C02", "C03", "C04", "C05", "C06", "C07", "C08", "C09", "C10", "C11", "C12", "C13", "C15", "C16", "C17", "C18", "C19", "C20"], "selftest/patches/n7-C11-2.diff"),
    # cvss/cvss2.py and cvss/cvss3.py (same edit in both): from_rh_vector() merges the two consecutive try/except ValueError blocks (split('/', 1) (independent sub-agent, round 5)
    PV("n7-C12-1", ["C01", "C02", "C03", "C04", "C05", "C06", "C07", "C08", "C09", "C10", "C11", "C12", "C13", "C15", "C16", "C17", "C18", "C19", "C20"], "selftest/patches/n7-C12-1.diff"),
    # cvss/cvss4.py: CVSS4.from_rh_vector() is split into helpers: a static _rh_malformed(vector) that builds the CVSS4RHMalformedError with the u (independent sub-agent, round 5)
    PV("n7-C12-2", ["C01", "C02", "C03", "C04", "C05", "C06", "C07", "C08", "C09", "C10", "C11", "C12", "C13", "C15", "C16", "C17", "C18", "C19", "C20"], "selftest/patches/n7-C12-2.diff"),
    # cvss/parser.py only (35 insertions, 16 deletions). Helper extraction + table-driven dispatch: the candidate regex (unchanged pattern) is com (independent sub-agent, round 5)
    PV("n7-C13-1", ["C01", "C02", "C03", "C04", "C05", "C06", "C07", "C08", "C09", "C10", "C11", "C12", "C13", "C15", "C16", "C17", "C18", "C19", "C20"], "selftest/patches/n7-C13-1.diff"),
    # cvss/parser.py only (19 insertions, 11 deletions), inside parse_cvss_from_text(). (1) findall() + `match.startswith('CVSS:3.')` became findi (independent sub-agent, round 5)
    PV("n7-C13-2", ["C01", "C02", "C03", "C04", "C05", "C06", "C07", "C08", "C09", "C10", "C11", "C12", "C13", "C15", "C16", "C17", "C18", "C19", "C20"], "selftest/patches/n7-C13-2.diff"),
    # cvss/cvss4.py CVSS4.compute_base_score(), interpolation between macrovectors (anchor cvss4.py:536-606): the five copy-pasted per-EQ blocks ( (independent sub-agent, round 5)
    PV("n7-C14-1", ["C01", "C02", "C03", "C04", "C05", "C06", "C07", "C08", "C09", "C10", "C11", "C12", "C13", "C14", "C15", "C16", "C17", "C18", "C19", "C20"], "selftest/patches/n7-C14-1.diff"),
    # cvss/cvss3.py (anchor cvss3.py:230-382): helper extraction in the v3 formulas. The three copies of the impact sub-score equation (compute_is (independent sub-agent, round 5)
    PV("n7-C14-2", ["C01", "C02", "C03", "C04", "C05", "C06", "C07", "C08", "C09", "C10", "C11", "C12", "C13", "C14", "C15", "C16", "C17", "C18", "C19", "C20"], "selftest/patches/n7-C14-2.diff"),
    # cvss/cvss2.py (37 changed lines): temporal_vector() and environmental_vector() now delegate to a new helper CVSS2._group_vector(group, score (independent sub-agent, round 5)
    PV("n7-C15-1", ["C01", "C02", "C03", "C04", "C05", "C06", "C07", "C08", "C09", "C10", "C11", "C12", "C13", "C15", "C16", "C17", "C18", "C19", "C20"], "selftest/patches/n7-C15-1.diff"),
    # cvss/cvss3.py (43 changed lines): template/table driven rewrite of the C15 code. New private module-level data: _MODIFIED_TO_BASE (OrderedDi (independent sub-agent, round 5) - not decided (exit 2) by ['C05', 'C06', 'C07', 'C15', 'C18', 'C20']
    PV("n7-C15-2", ["C01", "C02", "C03", "C04", "C08", "C09", "C10", "C11", "C12", "C13", "C16", "C17", "C19"], "selftest/patches/n7-C15-2.diff"),
    # cvss/interactive.py (33 insertions, 27 deletions): helper extraction and table-driven prefix. The inline creation of a value name with hints (independent sub-agent, round 5)
    PV("n7-C16-1", ["C01", "C02", "C03", "C04", "C05", "C06", "C07", "C08", "C09", "C10", "C11", "C12", "C13", "C15", "C16", "C17", "C18", "C19", "C20"], "selftest/patches/n7-C16-1.diff"),
    # cvss/interactive.py (19 insertions, 21 deletions): the answer loop is restructured. Per metric a dict 'spelling' (upper-cased value -> speci (independent sub-agent, round 5)
    PV("n7-C16-2", ["C01", "C02", "C03", "C04", "C05", "C06", "C07", "C08", "C09", "C10", "C11", "C12", "C13", "C15", "C16", "C17", "C18", "C19", "C20"], "selftest/patches/n7-C16-2.diff"),
    # cvss/cvss_calculator.py, success branch of main() (36 changed lines): the second if/elif version chain that printed the heading and fetched  (independent sub-agent, round 5)
    PV("n7-C17-1", ["C01", "C02", "C03", "C04", "C05", "C06", "C07", "C08", "C09", "C10", "C11", "C12", "C13", "C15", "C16", "C17", "C18", "C19", "C20"], "selftest/patches/n7-C17-1.diff"),
    # cvss/cvss_calculator.py, argument/version handling of main() (43 changed lines): the three copy-pasted add_argument() calls for -2/-3/-4 bec (independent sub-agent, round 5)
    PV("n7-C17-2", ["C01", "C02", "C03", "C04", "C05", "C06", "C07", "C08", "C09", "C10", "C11", "C12", "C13", "C15", "C16", "C17", "C18", "C19", "C20"], "selftest/patches/n7-C17-2.diff"),
    # cvss/cvss3.py, behaviour preserving (26+/26- lines): CVSS3.as_json() is made table driven - the three copy-pasted blocks (mandatory / tempor (independent sub-agent, round 5)
    PV("n7-C18-1", ["C01", "C02", "C03", "C04", "C05", "C06", "C07", "C08", "C09", "C10", "C11", "C12", "C13", "C15", "C16", "C17", "C18", "C19", "C20"], "selftest/patches/n7-C18-1.diff"),
    # cvss/cvss2.py + cvss/cvss4.py, behaviour preserving (26+/35- lines): CVSS2.severities() replaces the if/elif chain by a different data struc (independent sub-agent, round 5)
    PV("n7-C18-2", ["C01", "C02", "C03", "C04", "C05", "C06", "C07", "C08", "C09", "C10", "C11", "C12", "C13", "C15", "C16", "C17", "C18", "C19", "C20"], "selftest/patches/n7-C18-2.diff"),
    # cvss/parser.py parse_cvss_from_text(): the candidate regex is compiled once into a module-level read-only constant VECTOR_CANDIDATE instead  (independent sub-agent, round 5)
    PV("n7-C19-1", ["C01", "C02", "C03", "C04", "C05", "C06", "C07", "C08", "C09", "C10", "C11", "C12", "C13", "C15", "C16", "C17", "C18", "C19", "C20"], "selftest/patches/n7-C19-1.diff"),
    # cvss/cvss3.py: the repeated 'Round up(Minimum[(1.08 x) (Impact + Exploitability), 10])' expression of compute_base_score() and compute_envir (independent sub-agent, round 5)
    PV("n7-C19-2", ["C01", "C02", "C03", "C04", "C05", "C06", "C07", "C08", "C09", "C10", "C11", "C12", "C13", "C15", "C16", "C17", "C18", "C19", "C20"], "selftest/patches/n7-C19-2.diff"),
    # cvss/cvss4.py CVSS4.compute_base_score(), the float arithmetic of the mean-distance step (anchor cvss4.py:536-606): the five copy-pasted 'if (independent sub-agent, round 5)
    PV("n7-C20-1", ["C01", "C02", "C03", "C04", "C05", "C06", "C07", "C08", "C09", "C10", "C11", "C12", "C13", "C14", "C15", "C16", "C17", "C18", "C19", "C20"], "selftest/patches/n7-C20-1.diff"),
    # cvss/interactive.py (anchor: raw_input/input selection at interactive.py:13-17 and the builder loop): (1) the 'try: string_input = raw_input (independent sub-agent, round 5)
    PV("n7-C20-2", ["C01", "C02", "C03", "C04", "C05", "C06", "C07", "C08", "C09", "C10", "C11", "C12", "C13", "C15", "C16", "C17", "C18", "C19", "C20"], "selftest/patches/n7-C20-2.diff"),
]
