"""C14 — necessary conditions and compositional certificates for monotonicity."""

from __future__ import annotations

from fractions import Fraction

from . import terms as T
from .absnum import Bounds
from .canon import Canon
from .consteval import NAN, is_num, qof
from .interp import mk_not
from .interp_expr import deps_of
from .objmodel import metric_slot
from .rules_score import SCORE_ATTRS, get_model, v3_cases
from .terms import ABSENT, App, BoolOp, Cmp, Const, Fin, Opaque, P, Term


def leaf_monotone(f, slot, order, st):
    """Is the numeric table f weakly non-decreasing along `order` in `slot`, for every valuation of
    its other slots?  Returns (ok, counterexample)."""
    r = st.folder().restrict(f)
    if isinstance(r, Const) or slot not in r.slots:
        return True, None
    i = r.slots.index(slot)
    groups = {}
    for k, v in r.table.items():
        groups.setdefault(k[:i] + k[i + 1 :], {})[k[i]] = v
    for rest, row in groups.items():
        prev = None
        for val in order:
            if val not in row:
                continue
            x = row[val]
            if not is_num(x):
                return False, (rest, val, x)
            q = qof(x)
            if prev is not None and q < prev[1]:
                return False, (rest, prev[0], float(prev[1]), val, float(q))
            prev = (val, q)
    return True, None


class Mono(object):
    """Sign-of-dependence analysis: is a term non-decreasing when the atoms in `up` increase?"""

    def __init__(self, ev, st, up):
        self.ev = ev
        self.st = st
        self.up = set(a.sortkey() for a in up)
        self.b = Bounds(ev, st)
        self.memo = {}
        self.why = []

    def dep(self, t):
        """'0' independent, '+' non-decreasing, '?' unknown."""
        k = t.sortkey() if isinstance(t, Term) else id(t)
        if k in self.memo:
            return self.memo[k]
        r = self._dep(t)
        self.memo[k] = r
        return r

    def _dep(self, t):
        if isinstance(t, Const):
            return "0"
        if isinstance(t, Fin):
            return "+" if t.sortkey() in self.up else "0"
        if isinstance(t, P):
            atoms = list(t.atoms())
            deps = dict((a, self.dep(a)) for a in atoms)
            if all(d == "0" for d in deps.values()):
                return "0"
            if any(d == "?" for d in deps.values()):
                return "?"
            for a, d in deps.items():
                if d != "+":
                    continue
                # partial derivative with respect to atom a (other atoms independent variables)
                dq = {}
                for m, c in t.terms.items():
                    for j, (x, e) in enumerate(m):
                        if x is a or x == a:
                            rest = m[:j] + (((x, e - 1),) if e > 1 else ()) + m[j + 1 :]
                            dq[rest] = dq.get(rest, Fraction(0)) + c * e
                            break
                q = P(dq)
                bd = self.b.term(q) if not q.is_const() else (q.const_value(), q.const_value())
                if bd is None or bd[0] is None or bd[0] < 0:
                    self.why.append("partial derivative with respect to %s is not provably >= 0 (bound %s)" % (_short(a), bd))
                    return "?"
            return "+"
        if isinstance(t, App):
            if t.op in ("min", "max", "quant", "float", "Decimal"):
                ds = [self.dep(a) for a in t.args if isinstance(a, Term)]
                if any(d == "?" for d in ds):
                    return "?"
                return "+" if any(d == "+" for d in ds) else "0"
            if t.op == "pow":
                d = self.dep(t.args[0])
                if d in ("0", "?"):
                    return d
                n = t.attrs[0]
                if n % 2 == 1:
                    return "+"
                bd = self.b.term(t.args[0])
                return "+" if bd is not None and bd[0] is not None and bd[0] >= 0 else "?"
            if t.op == "ite":
                c, a, b = t.args
                dc = self.dep_cond(c)
                da, db = self.dep(a), self.dep(b)
                if dc == "0":
                    if "?" in (da, db):
                        return "?"
                    return "+" if "+" in (da, db) else "0"
                # cond depends on x: ITE(p <= 0, k, f) with p non-decreasing, f non-decreasing and f >= k on p > 0
                return self.ite_threshold(c, a, b)
            if t.op == "ind":
                return "?" if self.dep_cond(t.args[0]) != "0" else "0"
            ds = [self.dep(a) for a in t.args if isinstance(a, Term)]
            return "0" if all(d == "0" for d in ds) else "?"
        if isinstance(t, (Cmp, BoolOp)):
            return self.dep_cond(t)
        return "?"

    def dep_cond(self, c):
        if isinstance(c, Const):
            return "0"
        if isinstance(c, Fin):
            return "0"
        if isinstance(c, Cmp):
            return "0" if self.dep(c.poly) == "0" else "dep"
        if isinstance(c, BoolOp):
            return "0" if all(self.dep_cond(a) == "0" for a in c.args) else "dep"
        return "dep"

    def ite_threshold(self, c, a, b):
        if not isinstance(c, Cmp):
            return "?"
        p = c.poly
        op = c.op
        bd = self.b.term(p)
        # normalise to: low arm taken when p <= 0 (or p == 0 with p >= 0), high arm otherwise
        if op in ("<=", "<") or (op == "==" and bd is not None and bd[0] is not None and bd[0] >= 0):
            low, high, pos_fact = a, b, Cmp(">" if op != "<" else ">=", p)
        elif op in (">", ">=") or (op == "!=" and bd is not None and bd[0] is not None and bd[0] >= 0):
            low, high, pos_fact = b, a, Cmp(op if op != "!=" else ">", p)
        else:
            return "?"
        if self.dep(p) != "+":
            self.why.append("threshold expression is not provably non-decreasing")
            return "?"
        if self.dep(low) != "0" or self.dep(high) == "?":
            return "?"
        bl = self.b.term(low if isinstance(low, P) else self.ev.to_poly(self.st, low, None))
        bh = self.b.term(high if isinstance(high, P) else self.ev.to_poly(self.st, high, None), (pos_fact,))
        if bl is None or bh is None or bl[1] is None or bh[0] is None or bh[0] < bl[1]:
            self.why.append("upper arm of a threshold ITE is not provably >= its lower arm")
            return "?"
        return "+"


def _short(a):
    if isinstance(a, Fin):
        return "w[%s]" % ",".join(s.replace("m:", "") for s in a.slots)
    return getattr(a, "op", type(a).__name__)


def check_weights(ctx, led, v, rule="C14.weights"):
    """Weight leaves are weakly monotone along the specification's severity order."""
    om = get_model(ctx, v)
    spec = ctx.vspec(v)
    order = spec["severity_order"]
    modified_of = spec.get("modified_of", {})
    n = 0
    cases = [("", om.st)] if v == 2 else [("3.%s S:%s MS:%s" % (c[0], c[1], "absent" if c[2] is ABSENT else c[2]), st) for c, st in v3_cases(om) if c[0] == 0]
    attrs = [om.attr(a) for a in SCORE_ATTRS]
    for label, st in cases:
        cn = Canon(om.ev, st)
        leaves = {}
        for t in attrs:
            collect_leaves(cn(t), leaves)
        for k, ordr in sorted(order.items()):
            for mk in [k] + [m for m, b in modified_of.items() if b == k]:
                s = metric_slot(mk)
                for f in leaves.values():
                    if s in f.slots:
                        n += 1
                        ok, cex = leaf_monotone(f, s, ordr, st)
                        led.check(
                            ok,
                            rule,
                            "CVSS%d weight of %s along %s%s" % (v, mk, "<".join(ordr), (" [" + label + "]") if label else ""),
                            "cvss/constants%d.py" % v,
                            "a more severe value of %s has a smaller weight: %s" % (mk, cex),
                        )
    return n


def collect_leaves(t, out, seen=None):
    seen = seen if seen is not None else set()
    if id(t) in seen:
        return
    seen.add(id(t))
    if isinstance(t, Fin):
        if all(is_num(x) or x is NAN for x in t.table.values()):
            out[t.sortkey()] = t
    elif isinstance(t, P):
        for a in t.atoms():
            collect_leaves(a, out, seen)
    elif isinstance(t, App):
        for a in t.args:
            if isinstance(a, Term):
                collect_leaves(a, out, seen)
    elif isinstance(t, Cmp):
        collect_leaves(t.poly, out, seen)
    elif isinstance(t, BoolOp):
        for a in t.args:
            collect_leaves(a, out, seen)


def check_compose(ctx, led, v, rule="C14.compose"):
    """Monotonicity certificates by sign rules where they can be derived; otherwise undecided."""
    om = get_model(ctx, v)
    spec = ctx.vspec(v)
    order = spec["severity_order"]
    modified_of = spec.get("modified_of", {})
    groups = spec["groups"]
    certified = 0
    undecided = []
    if v == 2:
        cases = [("", om.st)]
        targets = ("base_score", "temporal_score")
    else:
        cases = [("3.%s S:%s MS:%s" % (c[0], c[1], "absent" if c[2] is ABSENT else c[2]), st) for c, st in v3_cases(om)]
        targets = SCORE_ATTRS
    for label, st in cases:
        cn = Canon(om.ev, st)
        for a in targets:
            t = cn(om.attr(a))
            if isinstance(t, App) and t.op == "ite" and any(isinstance(x, Const) and x.v is None for x in t.args[1:]):
                t = [x for x in t.args[1:] if not (isinstance(x, Const) and x.v is None)][0]
            leaves = {}
            collect_leaves(t, leaves)
            metrics = list(order)
            for k in metrics:
                for mk in [k] + [m for m, b in modified_of.items() if b == k]:
                    s = metric_slot(mk)
                    if v == 3 and a == "environmental_score" and label.startswith("3.0") and (mk in ("C", "I", "A", "MC", "MI", "MA", "CR", "IR", "AR")):
                        continue  # exempt by the property (3.0 standard is itself non-monotone here)
                    up = [f for f in leaves.values() if s in f.slots]
                    if not up:
                        continue
                    if not all(leaf_monotone(f, s, order[k], st)[0] for f in up):
                        continue  # reported by C14.weights
                    m = Mono(om.ev, st, up)
                    d = m.dep(t)
                    ck = "CVSS%d.%s in %s%s" % (v, a, mk, (" [" + label + "]") if label else "")
                    if d in ("+", "0"):
                        certified += 1
                        led.ok(rule, ck, "cvss/%s.py" % om.modname, "non-decreasing by sign rules")
                    else:
                        undecided.append((ck, m.why[:1]))
    return certified, undecided
