"""C14 — necessary conditions and compositional certificates for monotonicity."""

from __future__ import annotations

from fractions import Fraction

from . import terms as T
from .absnum import Bounds
from .canon import Canon
from .consteval import NAN, is_num, qof
from .interp import mk_not
from .interp_expr import deps_of
from .objmodel import metric_slot
from .rules_score import SCORE_ATTRS, get_model, v3_cases
from .terms import ABSENT, App, BoolOp, Cmp, Const, Fin, Opaque, P, Term


def leaf_monotone(f, slot, order, st):
    """Is the numeric table f weakly non-decreasing along `order` in `slot`, for every valuation of
    its other slots?  Returns (ok, counterexample)."""
    r = st.folder().restrict(f)
    if isinstance(r, Const) or slot not in r.slots:
        return True, None
    i = r.slots.index(slot)
    groups = {}
    for k, v in r.table.items():
        groups.setdefault(k[:i] + k[i + 1 :], {})[k[i]] = v
    for rest, row in groups.items():
        prev = None
        for val in order:
            if val not in row:
                continue
            x = row[val]
            if not is_num(x):
                return False, (rest, val, x)
            q = qof(x)
            if prev is not None and q < prev[1]:
                return False, (rest, prev[0], float(prev[1]), val, float(q))
            prev = (val, q)
    return True, None


class Mono(object):
    """Sign-of-dependence analysis: is a term non-decreasing when the atoms in `up` increase?"""

    def __init__(self, ev, st, up, grid=None):
        self.slot = grid.slot if grid is not None else None
        self.ev = ev
        self.st = st
        self.up = set(a.sortkey() for a in up)
        self.b = Bounds(ev, st)
        self.memo = {}
        self.why = []
        self.grid = grid  # Grid(st, slot, order, limit): exact tabulation where the sign rules fail
        self.tabulated = 0
        self.settled = 0
        self.ev_of = {}  # term key -> events still alive at that term
        self.collect = []  # stack: events reported by the sub-terms of the term being analysed
        self.facts = ()  # path conditions (independent of the stepped metric) the current sub-term is under

    def dep(self, t):
        """'0' independent, '+' non-decreasing (except on the remembered events of this term),
        '?' unknown.

        Events: grid steps on which some tabulated sub-term decreases.  They belong to the
        sub-term and are propagated to *every* term that uses it: a rounding / capping / selecting
        operator drops the events on which it does not itself decrease (decided by tabulating the
        operator on that step), every other operator passes them on.  What reaches the score is
        decided on the score."""
        k = (t.sortkey() if isinstance(t, Term) else id(t), tuple(f.sortkey() for f in self.facts))
        if k in self.memo:
            if self.collect:
                self.collect[-1].extend(self.ev_of.get(k, []))
            return self.memo[k]
        self.collect.append([])
        try:
            r = self._dep(t)
        finally:
            below = self.collect.pop()
        own = []
        seen = set()
        for e in below:
            if id(e) not in seen:
                seen.add(id(e))
                own.append(e)
        if r == "?" and self.grid is not None and isinstance(t, Term) and not isinstance(t, (Cmp, BoolOp)):
            r, new = self.tabulate(t)
            own = new  # the table of t itself supersedes what was known about its parts
        elif r == "+" and own and isinstance(t, App) and t.op in ("quant", "min", "max", "ite"):
            keep = []
            for e in own:
                if self.check_event(e, t, self.grid.limit) is None:
                    self.settled += 1
                else:
                    keep.append(e)
            own = keep
        if r not in ("+", "0"):
            own = []
        self.ev_of[k] = own
        self.memo[k] = r
        if self.collect:
            self.collect[-1].extend(own)
        return r

    MAX_PAIRS = 400

    def check_event(self, ev_, t, limit):
        """Does the enclosing term t decrease on a remembered event?  None when it never does."""
        lo_full, hi_full, lo_mine, hi_mine, exact = ev_
        if exact:
            return self.grid.check_fixed(t, lo_full, hi_full, limit)
        return self.grid.check_steps(t, [(lo_mine, hi_mine)], limit)

    @staticmethod
    def distinct_events(steps, slot):
        """Events (lower row, higher row, my-cluster lower, my-cluster higher, exact) without
        repetition: an exact event is identified by its full rows, an inexact one by the step of
        my cluster only (everything else is re-enumerated when it is lifted)."""
        seen = {}
        for st_ in steps:
            lo_full, hi_full, lo, hi, exact = st_[0], st_[1], st_[4], st_[5], st_[6]
            src = lo_full if exact else lo
            k = (tuple(sorted((k_, T.ckey(x)) for k_, x in src.items())), T.ckey(hi.get(slot)))
            seen.setdefault(k, (lo_full, hi_full, lo, hi, exact))
        return list(seen.values())

    def tabulate(self, t):
        """Exact table of the sub-term along the chains of the stepped metric.  Returns (verdict,
        events): the steps where it decreases are remembered as events and the sub-term is treated
        as non-decreasing on all other steps."""
        verdicts = []
        events = []
        parts = [t]
        if isinstance(t, P):
            parts = self.additive_components(t)
        for u in parts:
            d, info = self.grid.decide(u)
            if d in ("+", "0"):
                self.tabulated += 1
                verdicts.append(d)
            elif d == "-":
                steps = self.distinct_events(info, self.slot)
                if len(steps) > self.MAX_PAIRS:
                    self.why.append("a sub-term decreases on %d grid steps" % len(steps))
                    return "?", []
                self.tabulated += 1
                events.extend(steps)
                verdicts.append("+")
            else:
                self.why.append(info)
                return "?", []
        return ("+" if "+" in verdicts else "0"), events

    def additive_components(self, p):
        """Splits a polynomial into summands whose leaves share no metric slot: a sum is
        non-decreasing if each summand is."""
        groups = []  # [set(slots), {monomial: coef}]
        for m, c in p.terms.items():
            fins = {}
            try:
                for a, _ in m:
                    all_fins(a, fins)
            except Uncompilable:
                return [p]
            slots = set(s for f in fins.values() for s in f.slots)
            hit = [g for g in groups if g[0] & slots]
            new = [set(slots), {m: c}]
            for g in hit:
                new[0] |= g[0]
                new[1].update(g[1])
                groups.remove(g)
            groups.append(new)
        if len(groups) <= 1:
            return [p]
        return [P(g[1], p.kind) for g in groups]

    def _dep(self, t):
        if isinstance(t, Const):
            return "0"
        if isinstance(t, Fin):
            return "+" if t.sortkey() in self.up else "0"
        if isinstance(t, P):
            atoms = list(t.atoms())
            deps = dict((a, self.dep(a)) for a in atoms)
            if all(d == "0" for d in deps.values()):
                return "0"
            if any(d == "?" for d in deps.values()):
                return "?"
            for a, d in deps.items():
                if d != "+":
                    continue
                # partial derivative with respect to atom a (other atoms independent variables)
                dq = {}
                for m, c in t.terms.items():
                    for j, (x, e) in enumerate(m):
                        if x is a or x == a:
                            rest = m[:j] + (((x, e - 1),) if e > 1 else ()) + m[j + 1 :]
                            dq[rest] = dq.get(rest, Fraction(0)) + c * e
                            break
                q = P(dq)
                bd = self.b.term(q, self.facts) if not q.is_const() else (q.const_value(), q.const_value())
                if bd is None or bd[0] is None or bd[0] < 0:
                    self.why.append("partial derivative with respect to %s is not provably >= 0 (bound %s)" % (_short(a), bd))
                    return "?"
            return "+"
        if isinstance(t, App):
            if t.op in ("min", "max", "quant", "float", "Decimal"):
                ds = [self.dep(a) for a in t.args if isinstance(a, Term)]
                if any(d == "?" for d in ds):
                    return "?"
                return "+" if any(d == "+" for d in ds) else "0"
            if t.op == "pow":
                d = self.dep(t.args[0])
                if d in ("0", "?"):
                    return d
                n = t.attrs[0]
                if n % 2 == 1:
                    return "+"
                bd = self.b.term(t.args[0])
                return "+" if bd is not None and bd[0] is not None and bd[0] >= 0 else "?"
            if t.op == "ite":
                c, a, b = t.args
                dc = self.dep_cond(c)
                if dc == "0":
                    # the condition does not involve the stepped metric: each arm under its path fact
                    saved = self.facts
                    try:
                        self.facts = saved + ((c,) if isinstance(c, Cmp) else ())
                        da = self.dep(a)
                        nc = mk_not(c)
                        self.facts = saved + ((nc,) if isinstance(nc, Cmp) else ())
                        db = self.dep(b)
                    finally:
                        self.facts = saved
                    if "?" in (da, db):
                        return "?"
                    return "+" if "+" in (da, db) else "0"
                # cond depends on x: ITE(p <= 0, k, f) with p non-decreasing, f non-decreasing and f >= k on p > 0
                return self.ite_threshold(c, a, b)
            if t.op == "ind":
                return "?" if self.dep_cond(t.args[0]) != "0" else "0"
            ds = [self.dep(a) for a in t.args if isinstance(a, Term)]
            return "0" if all(d == "0" for d in ds) else "?"
        if isinstance(t, (Cmp, BoolOp)):
            return self.dep_cond(t)
        return "?"

    def dep_cond(self, c):
        if isinstance(c, Const):
            return "0"
        if isinstance(c, Fin):
            return "dep" if self.slot is not None and self.slot in c.slots else "0"
        if isinstance(c, Cmp):
            return "0" if self.dep(c.poly) == "0" else "dep"
        if isinstance(c, BoolOp):
            return "0" if all(self.dep_cond(a) == "0" for a in c.args) else "dep"
        return "dep"

    def ite_threshold(self, c, a, b):
        if not isinstance(c, Cmp):
            return "?"
        p = c.poly
        op = c.op
        bd = self.b.term(p)
        # normalise to: low arm taken when p <= 0 (or p == 0 with p >= 0), high arm otherwise
        if op in ("<=", "<") or (op == "==" and bd is not None and bd[0] is not None and bd[0] >= 0):
            low, high, pos_fact = a, b, Cmp(">" if op != "<" else ">=", p)
        elif op in (">", ">=") or (op == "!=" and bd is not None and bd[0] is not None and bd[0] >= 0):
            low, high, pos_fact = b, a, Cmp(op if op != "!=" else ">", p)
        else:
            return "?"
        if self.dep(p) != "+":
            self.why.append("threshold expression is not provably non-decreasing")
            return "?"
        # grid steps on which the threshold expression decreases: harmless when the comparison
        # does not fall back from the upper arm to the lower one on them
        if self.dep(low) != "0" or self.dep(high) == "?":
            return "?"
        bl = self.b.term(low if isinstance(low, P) else self.ev.to_poly(self.st, low, None))
        bh = self.b.term(high if isinstance(high, P) else self.ev.to_poly(self.st, high, None), (pos_fact,))
        if bl is None or bh is None or bl[1] is None or bh[0] is None or bh[0] < bl[1]:
            self.why.append("upper arm of a threshold ITE is not provably >= its lower arm")
            return "?"
        return "+"


def _short(a):
    if isinstance(a, Fin):
        return "w[%s]" % ",".join(s.replace("m:", "") for s in a.slots)
    return getattr(a, "op", type(a).__name__)


def check_weights(ctx, led, v, rule="C14.weights"):
    """Weight leaves are weakly monotone along the specification's severity order."""
    om = get_model(ctx, v)
    spec = ctx.vspec(v)
    order = spec["severity_order"]
    modified_of = spec.get("modified_of", {})
    n = 0
    cases = [("", om.st)] if v == 2 else [("3.%s S:%s MS:%s" % (c[0], c[1], "absent" if c[2] is ABSENT else c[2]), st) for c, st in v3_cases(om) if c[0] == 0]
    attrs = [om.attr(a) for a in SCORE_ATTRS]
    for label, st in cases:
        cn = Canon(om.ev, st)
        leaves = {}
        for t in attrs:
            collect_leaves(cn(t), leaves)
        for k, ordr in sorted(order.items()):
            for mk in [k] + [m for m, b in modified_of.items() if b == k]:
                s = metric_slot(mk)
                for f in leaves.values():
                    if s in f.slots:
                        n += 1
                        ok, cex = leaf_monotone(f, s, ordr, st)
                        led.check(
                            ok,
                            rule,
                            "CVSS%d weight of %s along %s%s" % (v, mk, "<".join(ordr), (" [" + label + "]") if label else ""),
                            "cvss/constants%d.py" % v,
                            "a more severe value of %s has a smaller weight: %s" % (mk, cex),
                        )
    return n


def collect_leaves(t, out, seen=None):
    seen = seen if seen is not None else set()
    if id(t) in seen:
        return
    seen.add(id(t))
    if isinstance(t, Fin):
        if all(is_num(x) or x is NAN for x in t.table.values()):
            out[t.sortkey()] = t
    elif isinstance(t, P):
        for a in t.atoms():
            collect_leaves(a, out, seen)
    elif isinstance(t, App):
        for a in t.args:
            if isinstance(a, Term):
                collect_leaves(a, out, seen)
    elif isinstance(t, Cmp):
        collect_leaves(t.poly, out, seen)
    elif isinstance(t, BoolOp):
        for a in t.args:
            collect_leaves(a, out, seen)


def grid_limit(ctx):
    return 3000000 if ctx.tier == "thorough" else 60000


def render_vector(v, row):
    parts = []
    for s, val in sorted(row.items()):
        if s.startswith("m:") and val is not ABSENT:
            parts.append("%s:%s" % (s[2:], val))
    pre = ""
    if v == 3:
        pre = "CVSS:3.%s/" % row.get("minor", "x")
    return pre + "/".join(parts)


_WORK = {}


def _compose_cases(om, v):
    if v == 2:
        return [("", om.st, None)], ("base_score", "temporal_score")
    cases = [("3.%s S:%s MS:%s" % (c[0], c[1], "absent" if c[2] is ABSENT else c[2]), st, c) for c, st in v3_cases(om)]
    # steps of Scope / Modified Scope themselves: the other scope metric and the minor version fixed
    # (an omitted MS is the same as MS:X for every output: C05.nd; only the X spelling is tabulated)
    for minor in om.space.dom["minor"]:
        for MS in om.space.dom["m:MS"]:
            if MS is ABSENT and "X" in om.space.dom["m:MS"]:
                continue
            st = om.st.copy()
            st.dom["minor"] = (minor,)
            st.dom["m:MS"] = (MS,)
            cases.append(("3.%s MS:%s, step of S" % (minor, "absent" if MS is ABSENT else MS), st, (minor, None, "S")))
        for S in [x for x in om.space.dom["m:S"] if x is not ABSENT]:
            st = om.st.copy()
            st.dom["minor"] = (minor,)
            st.dom["m:S"] = (S,)
            cases.append(("3.%s S:%s, step of MS" % (minor, S), st, (minor, None, "MS")))
    return cases, SCORE_ATTRS


def _compose_item(idx):
    """One (case, score) work item; returns plain records (runs in a forked worker)."""
    W = _WORK
    om, v, order, modified_of, limit = W["om"], W["v"], W["order"], W["modified_of"], W["limit"]
    label, st, case = W["cases"][idx[0]]
    a = idx[1]
    out = []
    evals = 0
    cn = Canon(om.ev, st)
    scope_case = case is not None and case[1] is None
    t = cn(om.attr(a))
    if isinstance(t, App) and t.op == "ite" and any(isinstance(x, Const) and x.v is None for x in t.args[1:]):
        t = [x for x in t.args[1:] if not (isinstance(x, Const) and x.v is None)][0]
    leaves = {}
    collect_leaves(t, leaves)
    fins = {}
    try:
        all_fins(t, fins)
    except Uncompilable:
        fins = dict(leaves)
    for k in list(order):
        for mk in [k] + [m_ for m_, b in modified_of.items() if b == k]:
            if scope_case != (mk in ("S", "MS")) or (scope_case and mk != case[2]):
                continue
            s = metric_slot(mk)
            if v == 3 and a == "environmental_score" and label.startswith("3.0") and (mk in ("C", "I", "A", "MC", "MI", "MA", "CR", "IR", "AR")):
                continue  # exempt by the property (3.0 standard is itself non-monotone here)
            if not any(s in f.slots for f in fins.values()):
                continue
            up = [f for f in leaves.values() if s in f.slots]
            if not scope_case and not all(leaf_monotone(f, s, order[k], st)[0] for f in up):
                continue  # reported by C14.weights
            g = Grid(st, s, order[k], limit, context=fins)
            m = Mono(om.ev, st, up, grid=g)
            d = m.dep(t)
            ck = "CVSS%d.%s in %s%s" % (v, a, mk, (" [" + label + "]") if label else "")
            # every grid step on which some sub-term decreases and that no enclosing operator
            # absorbed is decided on the score itself
            hit = None
            note = None
            lifted = 0
            for step in m.ev_of.get((t.sortkey(), ()), []):
                # few events get this far on a tree where the property holds: search generously
                r = m.check_event(step, t, max(limit * 10, 1000000))
                lifted += 1
                if isinstance(r, tuple):
                    hit = r
                    break
                if isinstance(r, str):
                    note = r
            evals += g.evals
            if d in ("+", "0") and hit is None and note is None:
                how = "sign rules"
                if m.tabulated:
                    how += " + %d tabulated sub-term(s), %d table entries" % (m.tabulated, g.evals)
                if lifted or m.settled:
                    how += "; %d grid step(s) where a sub-term decreases, each tabulated on an enclosing rounded term or the score: no decrease" % (lifted + m.settled)
                out.append(("ok", ck, "non-decreasing: " + how))
            elif hit is not None:
                ra, rb, va, vb = hit
                ra, rb = dict(ra), dict(rb)
                fo_ = st.folder()
                for sl in om.space.dom:
                    # metrics fixed by the case, and metrics the score does not depend on (any value)
                    if sl not in ra:
                        dom_ = fo_.domain(sl)
                        if dom_:
                            ra[sl] = rb[sl] = dom_[0]
                if v == 3:
                    ra, rb = dict(ra, minor=case[0]), dict(rb, minor=case[0])
                out.append(
                    (
                        "violation",
                        "CVSS%d.%s decreases in %s" % (v, a, mk),
                        "raising %s from %s to %s lowers %s from %s to %s: %s -> %s (exact tabulation of the value graph)"
                        % (mk, ra.get(s), rb.get(s), a, float(va), float(vb), render_vector(v, ra), render_vector(v, rb)),
                    )
                )
            else:
                out.append(("undecided", ck, [str(x) for x in (m.why[:6] + ([note] if note else []))]))
    return out, evals


def check_compose(ctx, led, v, rule="C14.compose"):
    """Monotonicity certificates: sign rules where they can be derived, exact tabulation of the
    sub-terms where they cannot; a decreasing sub-term is lifted to the score and, if the score
    itself decreases between two concrete vectors, reported as a violation.  The (case, score)
    work items are independent and are spread over the cores (fork; the value graphs are shared)."""
    import multiprocessing
    import os

    om = get_model(ctx, v)
    spec = ctx.vspec(v)
    cases, targets = _compose_cases(om, v)
    for a in targets:
        om.attr(a)
    _WORK.clear()
    _WORK.update(
        {"om": om, "v": v, "order": spec["severity_order"], "modified_of": spec.get("modified_of", {}), "limit": grid_limit(ctx), "cases": cases}
    )
    items = [(i, a) for i in range(len(cases)) for a in targets]
    jobs = int(os.environ.get("VERIF_JOBS", "0") or 0) or min(16, os.cpu_count() or 1)
    results = None
    if jobs > 1 and len(items) > 2:
        try:
            mp = multiprocessing.get_context("fork")
            with mp.Pool(jobs) as pool:
                results = pool.map(_compose_item, items, chunksize=1)
        except (OSError, ValueError):
            results = None
    if results is None:
        results = [_compose_item(it) for it in items]
    certified = 0
    undecided = []
    tab_total = 0
    seen_v = set()
    for recs, evals in results:
        tab_total += evals
        for r in recs:
            if r[0] == "ok":
                certified += 1
                led.ok(rule, r[1], "cvss/%s.py" % om.modname, r[2])
            elif r[0] == "violation":
                if r[1] in seen_v:
                    continue
                seen_v.add(r[1])
                led.violation("C14.witness", r[1], "cvss/%s.py" % om.modname, r[2])
            else:
                undecided.append((r[1], r[2]))
    led.count("grid_table_entries", tab_total)
    return certified, undecided


# ---------------------------------------------------------------------------------------------
# exact finite-grid decisions on value-graph sub-terms
#
# A score term depends on the metrics only through finitely many weight leaves.  Where the sign
# rules fail (the changed-scope impact polynomial is not monotone on the reals, a condition that
# depends on the stepped metric) the sub-term is *tabulated*: its leaves range over their finite
# images, the stepped metric over its chain of values, and the exact rational value of the sub-term
# is compared along every chain.  This is table folding of the value graph (no code of the analysed
# package runs); exact rationals stand in for Decimal arithmetic, whose only inexact operation
# here (**, 28 digits) is ~1e-28 relative, far below any non-zero difference on the grid.


class Uncompilable(Exception):
    pass


def compile_term(t, memo=None):
    """Closure row -> exact value for a canonical term; row maps slot -> value.  Shared sub-terms
    are evaluated once per row (per-evaluation cache)."""
    memo = memo if memo is not None else {}
    inner = _compile_c(t, memo)
    return lambda r: inner(r, {})


def _compile_c(t, memo):
    k = t.sortkey() if isinstance(t, Term) else None
    if k is not None and k in memo:
        return memo[k]
    f = _compile(t, memo)
    if k is not None and isinstance(t, (P, App, Cmp, BoolOp)):
        raw = f
        idx = len(memo)

        def cached(r, c, raw=raw, idx=idx):
            v = c.get(idx, c)
            if v is c:
                v = c[idx] = raw(r, c)
            return v

        f = cached
    if k is not None:
        memo[k] = f
    return f


def _num(v):
    if v is NAN:
        raise Uncompilable("nan")
    if is_num(v):
        return qof(v)
    return v


def _compile(t, memo):
    from .absnum import q_round

    if isinstance(t, Const):
        c0 = _num(t.v)
        return lambda r, c: c0
    if isinstance(t, Fin):
        slots = t.slots
        table = dict((kk, _num(v)) for kk, v in t.table.items())
        if len(slots) == 1:
            s0 = slots[0]
            return lambda r, c: table[(r[s0],)]
        return lambda r, c: table[tuple(r[s_] for s_ in slots)]
    if isinstance(t, P):
        parts = []
        for m, cf in t.terms.items():
            parts.append((cf, [(_compile_c(a, memo), e) for a, e in m]))

        def poly(r, c):
            tot = 0
            for cf, fs in parts:
                x = cf
                for f, e in fs:
                    v = f(r, c)
                    x = x * (v if e == 1 else v ** e)
                    if x == 0:
                        break
                tot += x
            return tot if isinstance(tot, Fraction) else Fraction(tot)

        return poly
    if isinstance(t, Cmp):
        p = _compile_c(t.poly, memo)
        op = t.op
        return {
            "<": lambda r, c: p(r, c) < 0,
            "<=": lambda r, c: p(r, c) <= 0,
            ">": lambda r, c: p(r, c) > 0,
            ">=": lambda r, c: p(r, c) >= 0,
            "==": lambda r, c: p(r, c) == 0,
            "!=": lambda r, c: p(r, c) != 0,
        }[op]
    if isinstance(t, BoolOp):
        fs = [_compile_c(a, memo) for a in t.args]
        if t.op == "not":
            return lambda r, c: not fs[0](r, c)
        if t.op == "and":
            return lambda r, c: all(f(r, c) for f in fs)
        return lambda r, c: any(f(r, c) for f in fs)
    if isinstance(t, App):
        if t.op in ("min", "max"):
            fs = [_compile_c(a, memo) for a in t.args]
            g = min if t.op == "min" else max
            return lambda r, c: g([f(r, c) for f in fs])
        if t.op in ("float", "Decimal"):
            return _compile_c(t.args[0], memo)
        if t.op == "quant":
            f = _compile_c(t.args[0], memo)
            exp, mode = t.attrs
            exp = Fraction(exp)

            def quant(r, c):
                v = q_round(f(r, c), exp, mode)
                if v is None:
                    raise Uncompilable("rounding mode")
                return v

            return quant
        if t.op == "pow":
            f = _compile_c(t.args[0], memo)
            n = t.attrs[0]
            return lambda r, c: f(r, c) ** n
        if t.op == "ite":
            cc, a, b = [_compile_c(x, memo) for x in t.args]
            return lambda r, c: a(r, c) if cc(r, c) else b(r, c)
        if t.op == "ind":
            cc = _compile_c(t.args[0], memo)
            return lambda r, c: Fraction(1) if cc(r, c) else Fraction(0)
        if t.op == "div":
            a, b = [_compile_c(x, memo) for x in t.args]
            return lambda r, c: a(r, c) / b(r, c)
        if t.op == "abs":
            a = _compile_c(t.args[0], memo)
            return lambda r, c: abs(a(r, c))
    raise Uncompilable(type(t).__name__ + ":" + str(getattr(t, "op", "")))


EPS = 1e-7


def compile_float(t, memo=None):
    """Binary floating-point twin of compile_term, used as a filter: the closure returns a float and
    sets c["u"] when the row is within EPS of a discontinuity (a rounding boundary, a comparison
    with zero), in which case the caller re-evaluates exactly.  Away from discontinuities the
    accumulated float error (< 1e-12 on these terms) cannot change a comparison of two results
    that differ by more than EPS."""
    memo = memo if memo is not None else {}
    inner = _fcompile_c(t, memo)
    return inner


def _fcompile_c(t, memo):
    k = t.sortkey() if isinstance(t, Term) else None
    if k is not None and k in memo:
        return memo[k]
    f = _fcompile(t, memo)
    if k is not None and isinstance(t, (P, App, Cmp, BoolOp)):
        raw = f
        idx = len(memo)

        def cached(r, c, raw=raw, idx=idx):
            v = c.get(idx, c)
            if v is c:
                v = c[idx] = raw(r, c)
            return v

        f = cached
    if k is not None:
        memo[k] = f
    return f


def _fnum(v):
    v = _num(v)
    if isinstance(v, Fraction):
        return float(v)
    if isinstance(v, int) and not isinstance(v, bool):
        return float(v)
    return v


def _fcompile(t, memo):
    import math

    if isinstance(t, Const):
        c0 = _fnum(t.v)
        return lambda r, c: c0
    if isinstance(t, Fin):
        slots = t.slots
        table = dict((kk, _fnum(v)) for kk, v in t.table.items())
        if len(slots) == 1:
            s0 = slots[0]
            return lambda r, c: table[(r[s0],)]
        return lambda r, c: table[tuple(r[s_] for s_ in slots)]
    if isinstance(t, P):
        parts = []
        for m, cf in t.terms.items():
            parts.append((float(cf), [(_fcompile_c(a, memo), e) for a, e in m]))

        def poly(r, c):
            tot = 0.0
            for cf, fs in parts:
                x = cf
                for f, e in fs:
                    v = f(r, c)
                    x = x * (v if e == 1 else v ** e)
                tot += x
            return tot

        return poly
    if isinstance(t, Cmp):
        p = _fcompile_c(t.poly, memo)
        op = t.op

        def cmp_(r, c):
            v = p(r, c)
            if -EPS < v < EPS:
                c["u"] = True
            return {"<": v < 0, "<=": v <= 0, ">": v > 0, ">=": v >= 0, "==": v == 0, "!=": v != 0}[op]

        return cmp_
    if isinstance(t, BoolOp):
        fs = [_fcompile_c(a, memo) for a in t.args]
        if t.op == "not":
            return lambda r, c: not fs[0](r, c)
        if t.op == "and":
            return lambda r, c: all([f(r, c) for f in fs])
        return lambda r, c: any([f(r, c) for f in fs])
    if isinstance(t, App):
        if t.op in ("min", "max"):
            fs = [_fcompile_c(a, memo) for a in t.args]
            g = min if t.op == "min" else max
            return lambda r, c: g([f(r, c) for f in fs])
        if t.op in ("float", "Decimal"):
            return _fcompile_c(t.args[0], memo)
        if t.op == "quant":
            f = _fcompile_c(t.args[0], memo)
            exp, mode = t.attrs
            fexp = float(Fraction(exp))
            half = mode.endswith(("ROUND_HALF_UP", "ROUND_HALF_EVEN", "ROUND_HALF_DOWN"))
            if not mode.endswith(("ROUND_CEILING", "ROUND_FLOOR", "ROUND_HALF_UP", "ROUND_HALF_EVEN", "ROUND_DOWN", "ROUND_UP")):
                raise Uncompilable("rounding mode")

            def quant(r, c):
                x = f(r, c) / fexp
                y = x - 0.5 if half else x
                if abs(y - round(y)) < EPS * 10:
                    c["u"] = True
                if mode.endswith("ROUND_CEILING"):
                    n = math.ceil(x)
                elif mode.endswith("ROUND_FLOOR"):
                    n = math.floor(x)
                elif mode.endswith("ROUND_HALF_UP"):
                    n = math.floor(x + 0.5) if x >= 0 else -math.floor(-x + 0.5)
                elif mode.endswith("ROUND_HALF_EVEN"):
                    n = round(x)
                elif mode.endswith("ROUND_DOWN"):
                    n = math.trunc(x)
                else:
                    n = math.ceil(x) if x >= 0 else math.floor(x)
                return n * fexp

            return quant
        if t.op == "pow":
            f = _fcompile_c(t.args[0], memo)
            n = t.attrs[0]
            return lambda r, c: f(r, c) ** n
        if t.op == "ite":
            cc, a, b = [_fcompile_c(x, memo) for x in t.args]
            return lambda r, c: a(r, c) if cc(r, c) else b(r, c)
        if t.op == "ind":
            cc = _fcompile_c(t.args[0], memo)
            return lambda r, c: 1.0 if cc(r, c) else 0.0
        if t.op == "div":
            a, b = [_fcompile_c(x, memo) for x in t.args]

            def div(r, c):
                d = b(r, c)
                if -EPS < d < EPS:
                    c["u"] = True
                    return 0.0
                return a(r, c) / d

            return div
        if t.op == "abs":
            a = _fcompile_c(t.args[0], memo)
            return lambda r, c: abs(a(r, c))
    raise Uncompilable(type(t).__name__ + ":" + str(getattr(t, "op", "")))


class Dual(object):
    """Float-filtered exact evaluation of one term."""

    def __init__(self, t, memo_exact, memo_float):
        self.exact = compile_term(t, memo_exact)
        self.fl = compile_float(t, memo_float)
        self.n_exact = 0

    def value(self, r):
        """(float value or None/bool/str, unsure flag)"""
        c = {}
        v = self.fl(r, c)
        return v, bool(c.get("u"))

    def less(self, ra, va, ua, rb, vb, ub):
        """Is value(rb) < value(ra)?  va/vb, ua/ub from value()."""
        if va is None or vb is None or isinstance(va, (bool, str)) or isinstance(vb, (bool, str)):
            return True
        if not ua and not ub and abs(vb - va) > EPS:
            return vb < va
        self.n_exact += 1
        return self.exact(rb) < self.exact(ra)

    def differs(self, va, ua, vb, ub):
        if isinstance(va, float) and isinstance(vb, float) and not ua and not ub:
            return abs(vb - va) > EPS
        return True


def all_fins(t, out, seen=None):
    """Every Fin (numeric or not) a term depends on."""
    seen = seen if seen is not None else set()
    if id(t) in seen:
        return
    seen.add(id(t))
    if isinstance(t, Fin):
        out[t.sortkey()] = t
    elif isinstance(t, P):
        for a in t.atoms():
            all_fins(a, out, seen)
    elif isinstance(t, App):
        for a in t.args:
            if isinstance(a, Term):
                all_fins(a, out, seen)
    elif isinstance(t, Cmp):
        all_fins(t.poly, out, seen)
    elif isinstance(t, BoolOp):
        for a in t.args:
            all_fins(a, out, seen)
    elif isinstance(t, Opaque):
        raise Uncompilable("opaque")


class Grid(object):
    """Exact tabulation of value-graph terms along the chains of one metric slot.

    For a term T the leaves that share a metric slot with the stepped metric (directly or through
    other leaves) form "my" cluster and are enumerated over raw rows; everything else reaches T only
    through maximal sub-terms that do not involve the stepped metric, and is enumerated over the
    distinct value tuples of those sub-terms (one representative raw row per tuple)."""

    def __init__(self, st, slot, order, limit, context=None):
        self.st = st
        self.slot = slot
        self.order = list(order)
        self.limit = limit
        self.fo = st.folder()
        self.evals = 0
        self.context = context or {}
        self.prep = {}
        self.cmemo = {}
        self.fmemo = {}
        self.supp = {}

    # -- structure ---------------------------------------------------------------------------
    def support(self, t):
        k = id(t)
        if k not in self.supp:
            fs = {}
            all_fins(t, fs)
            self.supp[k] = (fs, frozenset(s for f in fs.values() for s in f.slots))
        return self.supp[k]

    def clusters(self, fins):
        items = list(fins.values())
        comp = []
        for f in items:
            hit = [c for c in comp if any(s in c["slots"] for s in f.slots)]
            new = {"slots": set(f.slots), "fins": [f]}
            for c in hit:
                new["slots"] |= c["slots"]
                new["fins"] += c["fins"]
                comp.remove(c)
            comp.append(new)
        return comp

    def rows(self, slots, fixed=None):
        import itertools

        slots = sorted(slots)
        doms = [self.fo.domain(s) for s in slots]
        n = 1
        for d in doms:
            n *= len(d)
        if n > 300000:
            raise Uncompilable("cluster of %d raw rows" % n)
        for combo in itertools.product(*doms):
            yield dict(zip(slots, combo))

    def leaf_reps(self, cluster, extra_key=None):
        """Distinct value tuples of a leaf cluster, one raw row each."""
        seen = {}
        for row in self.rows(cluster["slots"]):
            try:
                key = tuple(T.ckey(f.table[tuple(row[s] for s in f.slots)]) for f in cluster["fins"])
            except KeyError:
                continue  # infeasible row
            seen.setdefault(key, row)
        return list(seen.values())

    def free_subterms(self, t, mine_slots, out):
        """Maximal sub-terms of t whose leaves share no slot with my cluster."""
        fs, slots = self.support(t)
        if not fs:
            return
        if not (slots & mine_slots):
            out[t.sortkey()] = (t, slots)
            return
        if isinstance(t, P):
            for a in t.atoms():
                self.free_subterms(a, mine_slots, out)
        elif isinstance(t, App):
            for a in t.args:
                if isinstance(a, Term):
                    self.free_subterms(a, mine_slots, out)
        elif isinstance(t, Cmp):
            self.free_subterms(t.poly, mine_slots, out)
        elif isinstance(t, BoolOp):
            for a in t.args:
                self.free_subterms(a, mine_slots, out)

    def prepare(self, t, fixed_row=None):
        """(compiled t, my cluster, other groups' representative rows, exact) or raises
        Uncompilable.  `fixed_row`: raw values already chosen (those slots are not enumerated).
        exact: every class of the other groups is a tuple of leaf values (so a representative row
        stands for itself in any enclosing term, not only in t)."""
        import itertools

        fixed_row = fixed_row or {}
        fixed_slots = set(fixed_row)
        key = (t.sortkey(), tuple(sorted((k_, T.ckey(x)) for k_, x in fixed_row.items())))
        if key in self.prep:
            return self.prep[key]
        fins, slots = self.support(t)
        fins = dict(fins)
        f_t = Dual(t, self.cmemo, self.fmemo)
        if self.slot not in slots:
            r = (f_t, None, [], True)
            self.prep[key] = r
            return r
        comps = self.clusters(fins)
        mine = [c for c in comps if self.slot in c["slots"]][0]
        # leaves of the enclosing score that live on my cluster's slots take part in the row key,
        # so that a remembered step stands for exactly one valuation of every leaf involved
        for k_, f in self.context.items():
            if k_ not in fins and all(s in mine["slots"] for s in f.slots):
                mine["fins"].append(f)
        W = {}
        self.free_subterms(t, frozenset(mine["slots"]), W)
        groups = []
        for sk, (w, wslots) in W.items():
            hit = [g for g in groups if g["slots"] & wslots]
            new = {"slots": set(wslots), "terms": [w]}
            for g in hit:
                new["slots"] |= g["slots"]
                new["terms"] += g["terms"]
                groups.remove(g)
            groups.append(new)
        other_reps = []
        exact = True
        for g in groups:
            gslots = g["slots"] - fixed_slots
            if not gslots:
                continue
            if not all(isinstance(w, Fin) for w in g["terms"]):
                exact = False
            leafs = [c for c in comps if c is not mine and (c["slots"] & g["slots"]) and not (c["slots"] <= fixed_slots)]
            per_leaf = []
            n = 1
            for c in leafs:
                if c["slots"] & fixed_slots:
                    raise Uncompilable("leaf cluster partly fixed")
                reps = self.leaf_reps(c)
                per_leaf.append(reps)
                n *= max(len(reps), 1)
            if n > 200000:
                raise Uncompilable("group of %d leaf combinations" % n)
            fws = [compile_term(w, self.cmemo) for w in g["terms"]]
            seen = {}
            for combo in itertools.product(*per_leaf) if per_leaf else [()]:
                row = dict(fixed_row)
                for r_ in combo:
                    row.update(r_)
                try:
                    k2 = tuple(T.ckey(fw(row)) for fw in fws)
                except (KeyError, ZeroDivisionError, TypeError):
                    continue
                self.evals += len(fws)
                seen.setdefault(k2, dict((k_, x) for k_, x in row.items() if k_ not in fixed_slots))
            other_reps.append(list(seen.values()))
        r = (f_t, mine, other_reps, exact)
        self.prep[key] = r
        return r

    def chains(self, mine):
        rest_slots = sorted(mine["slots"] - {self.slot})
        vals = [v for v in self.order if v in self.fo.domain(self.slot)]
        out = {}
        for rest in self.rows(rest_slots):
            chain = []
            for v in vals:
                row = dict(rest)
                row[self.slot] = v
                try:
                    key = tuple(T.ckey(f.table[tuple(row[s] for s in f.slots)]) for f in mine["fins"])
                except KeyError:
                    continue
                chain.append((key, row))
            if len(chain) >= 2:
                out.setdefault(tuple(k for k, _ in chain), chain)
        return list(out.values())

    # -- decisions ---------------------------------------------------------------------------
    def decide(self, u):
        """('+', None) non-decreasing along every chain, ('0', None) independent of the slot,
        ('-', steps) with the grid steps [(row lower, row higher, value, value)] on which u
        decreases, ('?', reason) when u cannot be tabulated within the limit."""
        import itertools

        try:
            f_u, mine, other_reps, exact = self.prepare(u)
            if mine is None:
                return "0", None
            chains = self.chains(mine)
        except Uncompilable as e:
            return "?", "not tabulated (%s)" % e
        total = sum(len(c) for c in chains)
        for reps in other_reps:
            total *= max(len(reps), 1)
        if total > self.limit:
            return "?", "table of %d entries exceeds the limit %d" % (total, self.limit)
        dependent = False
        steps = []
        for combo in itertools.product(*other_reps) if other_reps else [()]:
            base = {}
            for row in combo:
                base.update(row)
            for chain in chains:
                prev = None
                for key, row in chain:
                    r = dict(base)
                    r.update(row)
                    try:
                        val, uns = f_u.value(r)
                        self.evals += 1
                        if prev is not None:
                            if not dependent and f_u.differs(prev[0], prev[3], val, uns):
                                dependent = True
                            if f_u.less(prev[1], prev[0], prev[3], r, val, uns):
                                steps.append((prev[1], r, prev[0], val, prev[2], row, exact))
                                if len(steps) > 20000:
                                    return "-", steps
                    except (KeyError, ZeroDivisionError, TypeError, OverflowError, Uncompilable) as e:
                        return "?", "not tabulated (%s)" % (e,)
                    prev = (val, r, row, uns)
        if steps:
            return "-", steps
        return ("+" if dependent else "0"), None

    def check_fixed(self, t, lo, hi, limit):
        """As check_steps for one remembered event whose raw rows lo/hi (equal except in the stepped
        slot) stand exactly for themselves: only the slots of t they do not mention are enumerated."""
        import itertools

        try:
            fixed = dict((k_, x) for k_, x in lo.items() if k_ != self.slot)
            fins, slots = self.support(t)
            if self.slot not in slots:
                return None
            f_t = Dual(t, self.cmemo, self.fmemo)
            comps = self.clusters(dict(fins))
            reps_all = []
            total = 1
            W = {}
            self.free_subterms(t, frozenset(lo), W)
            groups = []
            for sk, (w, wslots) in W.items():
                hit = [g for g in groups if g["slots"] & wslots]
                new = {"slots": set(wslots), "terms": [w]}
                for g in hit:
                    new["slots"] |= g["slots"]
                    new["terms"] += g["terms"]
                    groups.remove(g)
                groups.append(new)
            covered = set()
            for g in groups:
                leafs = [c for c in comps if c["slots"] & g["slots"]]
                per_leaf = [self.leaf_reps(c) for c in leafs]
                n = 1
                for x in per_leaf:
                    n *= max(len(x), 1)
                if n > 200000:
                    return "group of %d leaf combinations" % n
                fws = [compile_term(w, self.cmemo) for w in g["terms"]]
                seen = {}
                for combo in itertools.product(*per_leaf) if per_leaf else [()]:
                    row = {}
                    for r_ in combo:
                        row.update(r_)
                    try:
                        k2 = tuple(T.ckey(fw(row)) for fw in fws)
                    except (KeyError, ZeroDivisionError, TypeError):
                        continue
                    seen.setdefault(k2, row)
                reps_all.append(list(seen.values()))
                total *= max(len(seen), 1)
                covered |= g["slots"]
            # leaves that mix fixed and free slots: enumerate their free slots raw
            loose = sorted(s for s in slots if s not in lo and s not in covered)
            if loose:
                rows = list(self.rows(loose))
                reps_all.append(rows)
                total *= max(len(rows), 1)
        except Uncompilable as e:
            return "not tabulated (%s)" % e
        done = 0
        for combo in itertools.product(*reps_all) if reps_all else [()]:
            done += 1
            if done > limit:
                return "table of %d entries: %d searched without a decrease (limit)" % (total, limit)
            a, b = dict(lo), dict(hi)
            for row in combo:
                a.update(row)
                b.update(row)
            try:
                va, ua = f_t.value(a)
                vb, ub = f_t.value(b)
                self.evals += 2
                if va is not None and vb is not None and not isinstance(va, (bool, str)) and f_t.less(a, va, ua, b, vb, ub):
                    return (a, b, f_t.exact(a), f_t.exact(b))
            except (KeyError, ZeroDivisionError, TypeError, OverflowError, Uncompilable):
                continue
        return None

    def check_steps(self, t, steps, limit):
        """Does the enclosing term t decrease on any of the remembered steps of my cluster (given as
        pairs of raw rows over the cluster's slots), for some valuation of everything else?
        Returns None (never), a tuple (row lower, row higher, value, value), or a string when the
        table is too large."""
        import itertools

        if not steps:
            return None
        fixed = set(steps[0][0])
        try:
            f_t, mine, other_reps, _exact = self.prepare(t)
            if mine is None:
                return None
            extra = sorted(mine["slots"] - fixed)
            extra_rows = [dict()]
            if extra:
                seen = {}
                for row in self.rows(extra):
                    for lo, hi in steps[:1]:
                        a = dict(lo)
                        a.update(row)
                        try:
                            key = tuple(T.ckey(f.table[tuple(a[s] for s in f.slots)]) for f in mine["fins"] if all(s in a for s in f.slots))
                        except KeyError:
                            key = None
                    if key is not None:
                        seen.setdefault((key, tuple(sorted((k_, T.ckey(x)) for k_, x in row.items())) if len(steps) > 1 else key), row)
                extra_rows = list(seen.values())
        except Uncompilable as e:
            return "not tabulated (%s)" % e
        total = len(steps) * len(extra_rows)
        for reps in other_reps:
            total *= max(len(reps), 1)
        done = 0
        for combo in itertools.product(*other_reps) if other_reps else [()]:
            base = {}
            for row in combo:
                base.update(row)
            for ex in extra_rows:
                for lo, hi in steps:
                    done += 1
                    if done > limit:
                        return "table of %d entries: %d searched without a decrease (limit)" % (total, limit)
                    a, b = dict(base), dict(base)
                    a.update(ex)
                    b.update(ex)
                    a.update(lo)
                    b.update(hi)
                    try:
                        va, ua = f_t.value(a)
                        vb, ub = f_t.value(b)
                        self.evals += 2
                        if va is not None and vb is not None and not isinstance(va, (bool, str)) and f_t.less(a, va, ua, b, vb, ub):
                            return (a, b, f_t.exact(a), f_t.exact(b))
                    except (KeyError, ZeroDivisionError, TypeError, OverflowError, Uncompilable):
                        continue
        return None
