"""Abstract object model: the state of a CVSSn instance after construction, obtained by abstractly
interpreting __init__ with parse_vector replaced by its summary (established by the C04 rules):
`self.metrics` maps every accepted metric key to one of its accepted values or is absent."""

from __future__ import annotations

from . import terms as T
from .ctx import VERSIONS
from .interp import Dead, MapObj, Ref, mk_not
from .interp_stmt import Evaluator
from .rules_parse import parse_summary
from .srcmodel import AnalysisError
from .terms import ABSENT, Const, Fin, Opaque


def metric_slot(k):
    return "m:" + k


MISMATCH = T.Sentinel("<spec-mismatch>")


class ObjModel(object):
    def __init__(self, ctx, v, pins=None, run_init=True, stop_after=None, map_order="table"):
        """pins: slot name -> iterable of allowed values (case split).  map_order: the order in
        which the parsed metric map holds its keys ("table": the parser's table order, "reversed")
        - used to decide whether an iteration of that map in field order matters."""
        self.ctx = ctx
        self.v = v
        self.map_order = map_order
        info = VERSIONS[v]
        self.modname, self.clsname = info["mod"], info["cls"]
        self.cls = ctx.repo.cls(self.modname, self.clsname)
        self.module = self.cls.module
        self.summary = parse_summary(ctx, v)
        if self.summary.get("model_gap"):
            raise AnalysisError(
                "C04.model",
                "parse_vector writes state the post-parse model does not cover: %s" % self.summary["model_gap"],
                self.cls.methods["parse_vector"].node,
                self.module,
            )
        self.space = T.Space()
        self.accepted = self.summary["accepted"]
        for k, vals in self.accepted.items():
            if vals is None:
                raise AnalysisError("E5.model", "metric %s has no value row in the parser's value table" % k)
            self.space.add(metric_slot(k), tuple(vals) + (ABSENT,))
        if v == 3:
            minors = sorted(set(m for m in self.summary["prefixes"].values() if m is not None))
            if not minors:
                raise AnalysisError("E5.model", "no minor_version assignment found in parse_vector")
            self.space.add("minor", tuple(minors))
        self.ev = Evaluator(ctx, self.space)
        self.ev.regex_on_tables = True  # a regex applied to constant / table strings (value names) is evaluated on them
        self.ev.reverse_sets = map_order == "reversed"
        self.st = self.ev.new_state()
        if pins:
            for s, vals in pins.items():
                vals = tuple(vals)
                self.st.dom[s] = tuple(x for x in self.space.dom[s] if x in vals)
        pv = self.cls.methods["parse_vector"]
        self.ev.models[pv.node] = self._parse_model
        self.v4 = {}
        if v == 4:
            self._setup_v4()
        self.self_ref = None
        self.init_events_end = 0
        self.alive = True
        if run_init:
            self.construct()

    def _parse_model(self, ev, st, args, kwargs, node, module):
        recv = args[0]
        inst = st.heap[recv.id]
        m = MapObj(False, "parsed")
        m.input_ordered = True
        fo = st.folder()
        keys_ = list(self.accepted)
        if getattr(self, "map_order", "table") == "reversed":
            keys_.reverse()
        for k in keys_:
            s = getattr(self, "slot_rename", {}).get(k, metric_slot(k))
            pres = Fin((s,), dict(((x,), x is not ABSENT) for x in self.space.dom[s]))
            val = Fin((s,), dict(((x,), x) for x in self.space.dom[s]))
            m.set(k, fo.restrict(pres), fo.restrict(val))
        old = inst.attrs.get("metrics")
        if isinstance(old, Ref) and st.heap[old.id].kind == "map":
            # parse_vector stores into the existing dict object: keep identity (aliases see it)
            tgt = st.heap[old.id]
            tgt.entries, tgt.order, tgt.input_ordered, tgt.origin = m.entries, m.order, True, "parsed"
        else:
            raise AnalysisError("E5.model", "self.metrics is not a dict created in __init__ before parse_vector", node, module)
        if self.v == 3:
            inst.attrs["minor_version"] = fo.restrict(
                Fin(("minor",), dict(((x,), x) for x in self.space.dom["minor"]))
            )
        return Const(None)

    def second_instance(self, k, pins=None):
        """A second object in the same state that differs from the first in metric k only: its
        metric k is a fresh slot 'o:<k>' with the same domain, every other metric is shared.  The
        whole constructor is interpreted for it.  Returns (state, reference) or None when the
        constructor cannot complete."""
        from .interp import Inst

        s = metric_slot(k)
        o = "o:" + k
        if o not in self.space.dom:
            self.space.add(o, self.space.dom[s])
        st = self.st.copy()
        for ps, vals in (pins or {}).items():
            st.dom[ps] = tuple(x for x in self.space.dom[ps] if x in vals)
        ref = self.ev.alloc(st, Inst(self.cls))
        init = self.cls.methods["__init__"]
        self.slot_rename = {k: o}
        n_ev = len(self.ev.events)
        try:
            self.ev.inline(st, init, None, [ref, Opaque("vector2", ["vector2"])], {}, init.node, self.module)
        except Dead:
            return None
        finally:
            self.slot_rename = {}
            del self.ev.events[n_ev:]
        return st, ref

    def construct(self):
        init = self.cls.methods["__init__"]
        st = self.st
        from .interp import Inst

        self.self_ref = self.ev.alloc(st, Inst(self.cls))
        try:
            self.ev.inline(st, init, None, [self.self_ref, Opaque("vector", ["vector"])], {}, init.node, self.module)
        except Dead:
            self.alive = False
        except AnalysisError as e:
            # the construction could not be followed to the end: what was seen on the way (e.g. an
            # iteration over the parsed map in field order) is kept for the rules that need only that
            e.partial_events = list(self.ev.events)
            raise
        self.init_events_end = len(self.ev.events)

    # ---- v4: assume/guarantee summaries ----------------------------------------------------
    def _setup_v4(self):
        """compute_base_score is analysed modularly:
        * m(K) is inlined once per literal K; its table over the raw metric slots becomes the
          definition of a derived slot eff:K (checked against the specification by C02.m);
        * macroVector() is inlined once over the eff slots; its six characters become derived
          digit slots d1..d6 with their joint feasibility constraint (checked by C02.eq);
        * extract_value_metric(K, <element of the max-vector search>) is the slot mv:K;
        * the max-vector loops are summarised by one body execution (havoc)."""
        cls = self.cls
        for name in ("m", "macroVector", "extract_value_metric", "compute_base_score"):
            if name not in cls.methods:
                raise AnalysisError("E5.model", "CVSS4.%s vanished" % name, cls.node, self.module)
        self.v4 = {"eff": {}, "digits": None, "digit_defs": None, "mv_slots": {}}
        self.ev.models[cls.methods["m"].node] = self._m_model
        self.ev.models[cls.methods["macroVector"].node] = self._mv_model
        self.ev.models[cls.methods["extract_value_metric"].node] = self._extract_model
        cbs = cls.methods["compute_base_score"].node
        self.ev.havoc_allowed = lambda func, loop: func is not None and func.node is cbs
        # values each metric takes in the composed highest-severity vectors (own parse of the table)
        mc = self.ctx.ce.table("constants4", "MAX_COMPOSED", "E5.model")
        vals = {}

        def walk(x):
            if isinstance(x, dict):
                for y in x.values():
                    walk(y)
            elif isinstance(x, (list, tuple)):
                for y in x:
                    walk(y)
            elif isinstance(x, str):
                for fld in x.split("/"):
                    if fld:
                        k, _, val = fld.partition(":")
                        vals.setdefault(k, [])
                        if val not in vals[k]:
                            vals[k].append(val)

        walk(mc)
        self.v4["maxvec_values"] = vals

    def _real(self, name, st, args, node, module):
        f = self.cls.methods[name]
        model = self.ev.models.pop(f.node)
        try:
            return self.ev.inline(st, f, None, list(args), {}, node, module)
        finally:
            self.ev.models[f.node] = model

    def _m_model(self, ev, st, args, kwargs, node, module):
        """m(K): projection of the joint class of K's raw metric group (see _discover_m)."""
        recv, key = args[0], args[1] if len(args) > 1 else kwargs.get("metric")
        if not isinstance(key, Const):
            raise AnalysisError("E5.model", "m() called with a non-literal metric", node, module)
        k = key.v
        if "groups" not in self.v4:
            self._discover_m(ev, st, recv, node, module)
        self.v4.setdefault("called", set()).add(k)
        if k not in self.v4["eff_fin"]:
            # a key that was not discovered (not a metric name): evaluate as is
            return self._real("m", st, args, node, module)
        return self.v4["eff_fin"][k]

    def _discover_m(self, ev, st, recv, node, module):
        """Evaluate the real m(K) for every metric key the scoring code mentions, group the raw
        metric slots that occur together, and introduce one derived slot per group whose values
        are the joint classes (tuples of all the group's m-values).  Exact: no independence
        assumption between different m-functions of the same raw metrics."""
        import ast as _ast

        keys = []
        # every metric name any method of the class (or a module-level table / helper of its module)
        # mentions: helpers extracted from macroVector / compute_base_score call m() as well
        nodes = [self.cls.methods[name].node for name in ("macroVector", "compute_base_score", "m")]
        nodes += [f.node for name, f in sorted(self.cls.methods.items()) if name not in ("macroVector", "compute_base_score", "m")]
        nodes += [n for n in self.module.tree.body if not isinstance(n, _ast.ClassDef)]
        nodes += [n for n in self.cls.node.body if not isinstance(n, _ast.FunctionDef)]
        for root in nodes:
            for n in _ast.walk(root):
                if isinstance(n, _ast.Constant) and isinstance(n.value, str) and n.value in self.accepted and n.value not in keys:
                    keys.append(n.value)
        real = {}
        for k in keys:
            st2 = st.copy()
            try:
                r = self._real("m", st2, [recv, Const(k)], node, module)
            except Dead:
                continue
            r = ev.simp(st2, r)
            if isinstance(r, (Fin, Const)):
                real[k] = r
        self.v4["real_m"] = real
        # connected components of raw slots
        parent = {}

        def find(x):
            while parent.setdefault(x, x) != x:
                parent[x] = parent[parent[x]]
                x = parent[x]
            return x

        for k, r in real.items():
            if isinstance(r, Fin):
                for sl in r.slots:
                    parent[find(sl)] = find(r.slots[0])
        comps = {}
        for k, r in real.items():
            if isinstance(r, Fin):
                comps.setdefault(find(r.slots[0]), []).append(k)
        fo = st.folder()
        self.v4["groups"] = {}
        self.v4["eff_fin"] = {}
        self.v4["eff"] = {}
        for root, ks in comps.items():
            raw = set(sl for k in ks for sl in real[k].slots)
            # the raw pair (K, M+K) always belongs to K's group, even when no m-function reads one
            # of them: the classes then do not separate values the code ignores
            for k in ks:
                for cand in (k, "M" + k, k[1:] if k.startswith("M") else None):
                    if cand and cand in self.accepted and (cand == k or cand[1:] == k or "M" + cand == k):
                        raw.add(metric_slot(cand))
            raw = sorted(raw)
            sl, rows = fo.rows(raw)
            if rows is None:
                raise AnalysisError("E5.model", "effective-value group over %s is too large" % (raw,), node, module)
            ks = sorted(ks)
            classes = {}
            order = []
            for r in rows:
                vals = []
                for k in ks:
                    f = real[k]
                    vals.append(f.table.get(tuple(r[sl.index(x)] for x in f.slots)))
                key_ = tuple(vals)
                if key_ not in classes:
                    classes[key_] = []
                    order.append(key_)
                classes[key_].append(r)
            base = sorted(x[2:] for x in raw)[0]
            # name the group after its base metric (shortest raw name)
            base = sorted((x[2:] for x in raw), key=lambda n_: (len(n_), n_))[0]
            gname = "eff:" + base
            self.space.add(gname, tuple(order))
            gdef = Fin(tuple(sl), dict((r, key_) for key_, rs in classes.items() for r in rs))
            self.space.defs[gname] = gdef
            self.v4["groups"][gname] = {"keys": ks, "raw": tuple(sl), "classes": classes}
            for i, k in enumerate(ks):
                self.v4["eff_fin"][k] = fo.simplify(Fin((gname,), dict(((c,), c[i]) for c in order)))
                self.v4["eff"][k] = gname

    def spec_leaf(self, st, k, fn, spec):
        """Table over K's group slot of fn(specification's effective value of K); rows (classes)
        in which the specification's effective value is not unique are marked as mismatch."""
        gname = self.v4["eff"].get(k)
        if gname is None:
            return None
        g = self.v4["groups"][gname]
        nd = spec["nd"]
        xdef = spec["x_default"]
        base_to_mod = dict((b, m) for m, b in spec["modified_of"].items())
        mk = base_to_mod.get(k)
        raw = g["raw"]
        table = {}
        for cls, rows in g["classes"].items():
            vals = set()
            for r in rows:
                vb = r[raw.index(metric_slot(k))] if metric_slot(k) in raw else None
                vm = r[raw.index(metric_slot(mk))] if mk and metric_slot(mk) in raw else ABSENT
                if vm not in (ABSENT, nd):
                    e = vm
                elif vb is None:
                    e = None
                elif vb in (ABSENT, nd):
                    e = xdef.get(k, nd)
                else:
                    e = vb
                vals.add(e)
            table[(cls,)] = fn(vals.pop()) if len(vals) == 1 else MISMATCH
        dom = st.folder().domain(gname)
        return Fin((gname,), dict((kk, v) for kk, v in table.items() if kk[0] in dom))

    def _mv_model(self, ev, st, args, kwargs, node, module):
        real = self._real("macroVector", st, args, node, module)
        if self.v4["digits"] is not None:
            return self.v4["digits"]
        digits = []
        from .interp_expr import piece_lengths

        pieces = list(real.args) if isinstance(real, T.App) and real.op == "cat" else [real]
        total = 0
        for p in pieces:
            ls = piece_lengths(st, p)
            if ls is None or len(ls) != 1:
                raise AnalysisError(
                    "C02.eq.total",
                    "macroVector() is not a fixed-length digit string (a classifier chain may fall through to its "
                    "initial value for some valuation): piece %r" % (p,),
                    node,
                    module,
                )
            total += list(ls)[0]
        self.v4["mv_len"] = total
        for i in range(total):
            if isinstance(real, T.App):
                d = ev.cat_index(st, real, i, node, module)
            else:
                d = st.folder().fold(lambda s_, i=i: s_[i], [real])
            digits.append(ev.simp(st, d))
        self.v4["digit_defs"] = digits
        names = []
        for i, d in enumerate(digits):
            name = "d%d" % (i + 1)
            if isinstance(d, Const):
                rng = [d.v]
            else:
                rng = sorted(set(d.table.values()))
            self.space.add(name, tuple(rng))
            self.space.defs[name] = d
            names.append(name)
        # joint feasibility of digits that share inputs
        fo = st.folder()
        for i in range(len(digits)):
            for j in range(i + 1, len(digits)):
                a, b = digits[i], digits[j]
                if isinstance(a, Fin) and isinstance(b, Fin) and set(a.slots) & set(b.slots):
                    pairs = fo.fold(lambda x, y: (x, y), [a, b])
                    allowed = set(pairs.table.values()) if isinstance(pairs, Fin) else {pairs.v}
                    self.space.constrain((names[i], names[j]), allowed)
                    self.v4.setdefault("joint", {})[(i, j)] = allowed
        out = ev.cat(st, [Fin((n,), dict(((x,), x) for x in self.space.dom[n])) for n in names])
        if not (isinstance(out, T.App) and out.op == "cat"):
            out = T.App("cat", [out])
        # keep the pieces separate so that indexing works digit by digit
        out = T.App("cat", [Fin((n,), dict(((x,), x) for x in self.space.dom[n])) for n in names])
        self.v4["digits"] = out
        return out

    def _extract_model(self, ev, st, args, kwargs, node, module):
        recv, key, string = args[0], args[1], args[2]
        if isinstance(string, Const):
            return self._real("extract_value_metric", st, args, node, module)
        if not (isinstance(key, Const) and isinstance(string, Opaque)):
            raise AnalysisError("E5.model", "extract_value_metric on %r / %r" % (key, string), node, module)
        k = key.v
        vals = self.v4["maxvec_values"].get(k)
        if not vals:
            ev.hazard(st, "ValueError", node, module, T.TRUE, "metric %r does not occur in the highest-severity vectors" % k)
            raise Dead()
        name = "mv:" + k
        if name not in self.space.dom:
            self.space.add(name, tuple(vals))
        self.v4["mv_slots"][k] = name
        return Fin((name,), dict(((x,), x) for x in self.space.dom[name]))

    # convenience --------------------------------------------------------------------------
    def attr(self, name):
        inst = self.st.heap[self.self_ref.id]
        if name not in inst.attrs:
            raise AnalysisError("E5.model", "attribute self.%s is never set by %s.__init__" % (name, self.clsname))
        return self.ev.simp(self.st, inst.attrs[name])

    def has_attr(self, name):
        return name in self.st.heap[self.self_ref.id].attrs

    def heapobj(self, ref):
        return self.st.heap[ref.id]

    def call(self, meth, args=(), kwargs=None, st=None):
        """Abstractly call an accessor on a *copy* of the constructed state; returns (value, state,
        events)."""
        st = (st or self.st).copy()
        f = self.ctx.repo.method(self.modname, self.clsname, meth)
        n0 = len(self.ev.events)
        val = self.ev.run_method(st, self.self_ref, f, list(args), kwargs or {})
        return val, st, self.ev.events[n0:]

    def events(self, kind=None, init_only=False):
        evs = self.ev.events[: self.init_events_end] if init_only else self.ev.events
        return [e for e in evs if kind is None or e.kind == kind]
