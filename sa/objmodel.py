"""Abstract object model: the state of a CVSSn instance after construction, obtained by abstractly
interpreting __init__ with parse_vector replaced by its summary (established by the C04 rules):
`self.metrics` maps every accepted metric key to one of its accepted values or is absent."""

from __future__ import annotations

from . import terms as T
from .ctx import VERSIONS
from .interp import Dead, MapObj, Ref, mk_not
from .interp_stmt import Evaluator
from .rules_parse import parse_summary
from .srcmodel import AnalysisError
from .terms import ABSENT, Const, Fin, Opaque


def metric_slot(k):
    return "m:" + k


class ObjModel(object):
    def __init__(self, ctx, v, pins=None, run_init=True, stop_after=None):
        """pins: slot name -> iterable of allowed values (case split)."""
        self.ctx = ctx
        self.v = v
        info = VERSIONS[v]
        self.modname, self.clsname = info["mod"], info["cls"]
        self.cls = ctx.repo.cls(self.modname, self.clsname)
        self.module = self.cls.module
        self.summary = parse_summary(ctx, v)
        self.space = T.Space()
        self.accepted = self.summary["accepted"]
        for k, vals in self.accepted.items():
            if vals is None:
                raise AnalysisError("E5.model", "metric %s has no value row in the parser's value table" % k)
            self.space.add(metric_slot(k), tuple(vals) + (ABSENT,))
        if v == 3:
            minors = sorted(set(m for m in self.summary["prefixes"].values() if m is not None))
            if not minors:
                raise AnalysisError("E5.model", "no minor_version assignment found in parse_vector")
            self.space.add("minor", tuple(minors))
        self.ev = Evaluator(ctx, self.space)
        self.st = self.ev.new_state()
        if pins:
            for s, vals in pins.items():
                vals = tuple(vals)
                self.st.dom[s] = tuple(x for x in self.space.dom[s] if x in vals)
        pv = self.cls.methods["parse_vector"]
        self.ev.models[pv.node] = self._parse_model
        self.self_ref = None
        self.init_events_end = 0
        self.alive = True
        if run_init:
            self.construct()

    def _parse_model(self, ev, st, args, kwargs, node, module):
        recv = args[0]
        inst = st.heap[recv.id]
        m = MapObj(False, "parsed")
        m.input_ordered = True
        fo = st.folder()
        for k in self.accepted:
            s = metric_slot(k)
            pres = Fin((s,), dict(((x,), x is not ABSENT) for x in self.space.dom[s]))
            val = Fin((s,), dict(((x,), x) for x in self.space.dom[s]))
            m.set(k, fo.restrict(pres), fo.restrict(val))
        old = inst.attrs.get("metrics")
        if isinstance(old, Ref) and st.heap[old.id].kind == "map":
            # parse_vector stores into the existing dict object: keep identity (aliases see it)
            tgt = st.heap[old.id]
            tgt.entries, tgt.order, tgt.input_ordered, tgt.origin = m.entries, m.order, True, "parsed"
        else:
            raise AnalysisError("E5.model", "self.metrics is not a dict created in __init__ before parse_vector", node, module)
        if self.v == 3:
            inst.attrs["minor_version"] = fo.restrict(
                Fin(("minor",), dict(((x,), x) for x in self.space.dom["minor"]))
            )
        return Const(None)

    def construct(self):
        init = self.cls.methods["__init__"]
        st = self.st
        from .interp import Inst

        self.self_ref = self.ev.alloc(st, Inst(self.cls))
        try:
            self.ev.inline(st, init, None, [self.self_ref, Opaque("vector", ["vector"])], {}, init.node, self.module)
        except Dead:
            self.alive = False
        self.init_events_end = len(self.ev.events)

    # convenience --------------------------------------------------------------------------
    def attr(self, name):
        inst = self.st.heap[self.self_ref.id]
        if name not in inst.attrs:
            raise AnalysisError("E5.model", "attribute self.%s is never set by %s.__init__" % (name, self.clsname))
        return self.ev.simp(self.st, inst.attrs[name])

    def has_attr(self, name):
        return name in self.st.heap[self.self_ref.id].attrs

    def heapobj(self, ref):
        return self.st.heap[ref.id]

    def call(self, meth, args=(), kwargs=None, st=None):
        """Abstractly call an accessor on a *copy* of the constructed state; returns (value, state,
        events)."""
        st = (st or self.st).copy()
        f = self.ctx.repo.method(self.modname, self.clsname, meth)
        n0 = len(self.ev.events)
        val = self.ev.run_method(st, self.self_ref, f, list(args), kwargs or {})
        return val, st, self.ev.events[n0:]

    def events(self, kind=None, init_only=False):
        evs = self.ev.events[: self.init_events_end] if init_only else self.ev.events
        return [e for e in evs if kind is None or e.kind == kind]
