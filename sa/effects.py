"""E4 — resolved call graph and per-function effect sets (writes on self, on module-level
tables, ambient-state calls, returned references)."""

from __future__ import annotations

import ast

from .srcmodel import AnalysisError, Func, norm_src, short

MUTATORS = set(
    "pop popitem setdefault update clear append extend insert remove sort reverse add discard "
    "move_to_end appendleft popleft __setitem__ __delitem__ difference_update intersection_update "
    "symmetric_difference_update".split()
)

AMBIENT_PREFIXES = (
    "decimal.getcontext",
    "decimal.setcontext",
    "decimal.localcontext",
    "decimal.DefaultContext",
    "decimal.BasicContext",
    "decimal.ExtendedContext",
    "sys.",
    "warnings.",
    "logging.",
    "os.",
    "random.",
    "time.",
    "locale.",
    "socket.",
    "subprocess.",
    "io.",
    "builtins.",
    "importlib.",
    "threading.",
    "atexit.",
    "signal.",
    "gc.",
    "functools.lru_cache",
    "functools.cache",
    "functools.cached_property",
)
IO_BUILTINS = ("print", "input", "raw_input", "open", "exec", "eval", "compile", "__import__", "globals", "setattr", "delattr", "vars")


class Effect(object):
    def __init__(self, kind, func, node, what, target=None):
        self.kind = kind  # self_write | global_write | ambient | io | returns_ref | global_stmt | cache
        self.func = func
        self.node = node
        self.what = what
        self.target = target

    def where(self):
        return self.func.module.where(self.node)

    def key(self):
        stmt = self.node
        m = self.func.module
        while not isinstance(stmt, ast.stmt) and m.parent(stmt) is not None:
            stmt = m.parent(stmt)
        return "%s::%s" % (self.func.qualname, short(stmt))

    def __repr__(self):
        return "<%s %s %s at %s>" % (self.kind, self.func.qualname, self.what, self.where())


def root_name(node):
    """Name at the root of an attribute/subscript chain, plus the first attribute."""
    first_attr = None
    n = node
    while isinstance(n, (ast.Attribute, ast.Subscript)):
        if isinstance(n, ast.Attribute):
            first_attr = n.attr
        n = n.value
    if isinstance(n, ast.Call):
        return None, None
    if isinstance(n, ast.Name):
        return n.id, first_attr
    return None, None


class FuncInfo(object):
    def __init__(self, func):
        self.func = func
        self.calls = []  # (callee kind, target, node)
        self.effects = []
        self.self_reads = set()
        self.locals = set()
        self.alias = {}  # local name -> "self.<attr>" | "global:<name>" | "param:<name>" | "fresh"


class Effects(object):
    def __init__(self, repo, ce):
        self.repo = repo
        self.ce = ce
        self.infos = {}
        self.by_qual = {}
        for m in repo.modules.values():
            for f in m.all_functions():
                self.by_qual[f.qualname] = f
        for f in list(self.by_qual.values()):
            self.infos[f.qualname] = self.analyse(f)
        self._trans = {}

    # ------------------------------------------------------------------
    def selfname(self, f):
        if f.cls is not None and f.outer is None and not f.is_staticmethod:
            p = f.params
            return p[0] if p else None
        if f.outer is not None:
            return self.selfname(f.outer)
        return None

    def own_nodes(self, f):
        """Nodes of f excluding nested function bodies."""
        out = []

        def rec(n):
            for c in ast.iter_child_nodes(n):
                if isinstance(c, (ast.FunctionDef, ast.AsyncFunctionDef, ast.Lambda)) and c is not f.node:
                    out.append(c)
                    if isinstance(c, ast.Lambda):
                        rec(c)
                    continue
                out.append(c)
                rec(c)

        rec(f.node)
        return out

    def local_import_is_shared_value(self, module, imps):
        """True if any of the function-local imports of this name binds a module-level value of a
        package module (a shared table), as opposed to a function, class or external name."""
        from .srcmodel import PKG

        for level, mod, attr, _node in imps:
            target = None
            if level >= 1 and mod in self.repo.modules:
                target = mod
            elif level == 0 and mod.startswith(PKG + ".") and mod[len(PKG) + 1 :] in self.repo.modules:
                target = mod[len(PKG) + 1 :]
            elif level == 0 and mod == PKG:
                target = "__init__"
            if target is None:
                continue
            r = self.repo.resolve_global(self.repo.modules[target], attr)
            if r is not None and r[0] == "value":
                return True
        return False

    def classify_global(self, module, name):
        r = self.repo.resolve_global(module, name)
        if r is None:
            return None
        return r

    def analyse(self, f):
        info = FuncInfo(f)
        module = f.module
        selfn = self.selfname(f)
        is_cls = f.is_classmethod
        nodes = self.own_nodes(f)
        # local names
        params = set(a.arg for a in f.node.args.posonlyargs + f.node.args.args + f.node.args.kwonlyargs)
        if f.node.args.vararg:
            params.add(f.node.args.vararg.arg)
        if f.node.args.kwarg:
            params.add(f.node.args.kwarg.arg)
        stores = set()
        globs = set()
        local_imports = {}
        for n in nodes:
            if isinstance(n, ast.Name) and isinstance(n.ctx, (ast.Store, ast.Del)):
                stores.add(n.id)
            if isinstance(n, (ast.Global, ast.Nonlocal)):
                globs.update(n.names)
                info.effects.append(Effect("global_stmt", f, n, "%s %s" % (type(n).__name__.lower(), ", ".join(n.names))))
            if isinstance(n, (ast.Import, ast.ImportFrom)):
                for al in n.names:
                    stores.add(al.asname or al.name.split(".")[0])
                # a function-local "from .constantsN import TABLE" binds the *shared* module object
                if isinstance(n, ast.ImportFrom):
                    for al in n.names:
                        local_imports.setdefault(al.asname or al.name, []).append((n.level, n.module or "", al.name, n))
        info.locals = (params | stores) - globs
        info.local_imports = local_imports
        outer_locals = set()
        o = f.outer
        while o is not None:
            oi = self.infos.get(o.qualname)
            if oi is not None:
                outer_locals |= oi.locals
            else:
                outer_locals |= set(a.arg for a in o.node.args.args)
                for n in ast.walk(o.node):
                    if isinstance(n, ast.Name) and isinstance(n.ctx, ast.Store):
                        outer_locals.add(n.id)
            o = o.outer

        # aliases: simple flow-insensitive pass
        def origin(expr):
            if isinstance(expr, ast.Name):
                if expr.id == selfn and not is_cls:
                    return "self"
                if expr.id in info.alias:
                    return info.alias[expr.id]
                if expr.id in params:
                    return "param:" + expr.id
                if expr.id in local_imports and self.local_import_is_shared_value(module, local_imports[expr.id]):
                    return "global:" + expr.id
                if expr.id in info.locals or expr.id in outer_locals:
                    return "local:" + expr.id
                r = self.classify_global(module, expr.id)
                if r is not None and r[0] in ("value",):
                    return "global:" + expr.id
                if r is not None and r[0] == "ext":
                    return "ext:" + r[1]
                return "unknown:" + expr.id
            if isinstance(expr, ast.Attribute):
                b = origin(expr.value)
                if b == "self":
                    return "self." + expr.attr
                if b is not None and b.startswith(("self.", "global:", "param:")):
                    return b
                if b is not None and b.startswith("ext:"):
                    return b + "." + expr.attr
                return b
            if isinstance(expr, ast.Subscript):
                b = origin(expr.value)
                if b is not None and b.startswith(("self.", "global:", "param:")):
                    return b
                return b
            if isinstance(expr, ast.IfExp):
                a, b = origin(expr.body), origin(expr.orelse)
                for x in (a, b):
                    if x and x.startswith(("self.", "global:")):
                        return x
                return a
            if isinstance(expr, ast.BoolOp):
                for v in expr.values:
                    x = origin(v)
                    if x and x.startswith(("self.", "global:")):
                        return x
                return "fresh"
            if isinstance(expr, ast.Call):
                # .get()/.setdefault()/values()[...] of internal containers hand out internal refs
                if isinstance(expr.func, ast.Attribute) and expr.func.attr in ("get", "setdefault", "pop"):
                    b = origin(expr.func.value)
                    if b and b.startswith(("self.", "global:")):
                        return b + "[]"
                return "fresh"
            return "fresh"

        for _ in range(3):
            for n in nodes:
                if isinstance(n, ast.Assign) and len(n.targets) == 1 and isinstance(n.targets[0], ast.Name):
                    o_ = origin(n.value)
                    if o_ and o_.startswith(("self.", "global:", "param:")):
                        info.alias[n.targets[0].id] = o_
                if (
                    isinstance(n, ast.Assign)
                    and len(n.targets) == 1
                    and isinstance(n.targets[0], (ast.Tuple, ast.List))
                    and isinstance(n.value, (ast.Tuple, ast.List))
                    and len(n.targets[0].elts) == len(n.value.elts)
                ):
                    # a, b = X, Y binds pairwise
                    for t_, v_ in zip(n.targets[0].elts, n.value.elts):
                        if isinstance(t_, ast.Name):
                            o_ = origin(v_)
                            if o_ and o_.startswith(("self.", "global:", "param:")):
                                info.alias[t_.id] = o_
                if isinstance(n, (ast.For, ast.comprehension)) and isinstance(n.target, ast.Name):
                    o_ = origin(n.iter)
                    if o_ and o_.startswith(("self.", "global:")):
                        info.alias[n.target.id] = o_ + "[]"
        info.origin = origin

        def note_write(target_expr, node, how):
            o_ = origin(target_expr)
            if o_ is None:
                return
            if o_.startswith("self"):
                info.effects.append(Effect("self_write", f, node, "%s %s" % (how, norm_src(target_expr)), o_))
            elif o_.startswith("global:"):
                info.effects.append(Effect("global_write", f, node, "%s %s" % (how, norm_src(target_expr)), o_))
            elif o_.startswith("ext:"):
                info.effects.append(Effect("ambient", f, node, "%s %s" % (how, norm_src(target_expr)), o_))
            elif o_.startswith("param:"):
                info.effects.append(Effect("param_write", f, node, "%s %s" % (how, norm_src(target_expr)), o_))

        for n in nodes:
            if isinstance(n, (ast.Attribute, ast.Subscript)) and isinstance(n.ctx, (ast.Store, ast.Del)):
                if isinstance(n, ast.Attribute):
                    b = origin(n.value)
                    if b == "self":
                        info.effects.append(
                            Effect("self_write", f, n, "store self.%s" % n.attr, "self." + n.attr)
                        )
                    elif b is not None and b.startswith("ext:"):
                        info.effects.append(Effect("ambient", f, n, "store %s" % norm_src(n), b))
                    elif b is not None and b.startswith(("self.", "global:", "param:")):
                        note_write(n.value, n, "attribute store into")
                    elif isinstance(n.value, ast.Name) and n.value.id in f.module.classes:
                        info.effects.append(Effect("global_write", f, n, "class attribute store %s" % norm_src(n), "global:" + n.value.id))
                    elif isinstance(n.value, ast.Name) and n.value.id == (f.params[0] if is_cls and f.params else None):
                        info.effects.append(Effect("global_write", f, n, "class attribute store %s" % norm_src(n), "global:cls"))
                else:
                    note_write(n.value, n, "item store into" if isinstance(n.ctx, ast.Store) else "del on")
            elif isinstance(n, ast.Name) and isinstance(n.ctx, (ast.Store, ast.Del)) and n.id in globs:
                info.effects.append(Effect("global_write", f, n, "assignment to global %s" % n.id, "global:" + n.id))
            elif isinstance(n, ast.AugAssign):
                t = n.target
                if isinstance(t, ast.Name) and t.id not in info.locals:
                    r = self.classify_global(module, t.id)
                    if r is not None:
                        info.effects.append(Effect("global_write", f, n, "augmented assignment to %s" % t.id, "global:" + t.id))
                elif isinstance(t, ast.Name) and t.id in info.alias and isinstance(n.op, ast.Add):
                    # x += [...] mutates a list alias in place
                    o_ = info.alias[t.id]
                    if o_.startswith(("self.", "global:")):
                        note_write(t, n, "in-place += on alias")
            elif isinstance(n, ast.Call):
                self.analyse_call(info, f, n, origin, selfn, is_cls)
            elif isinstance(n, ast.Attribute) and isinstance(n.ctx, ast.Load):
                if isinstance(n.value, ast.Name) and n.value.id == selfn and not is_cls:
                    info.self_reads.add(n.attr)
            elif isinstance(n, ast.Return) and n.value is not None:
                o_ = origin(n.value)
                if isinstance(n.value, (ast.Name, ast.Attribute, ast.Subscript)) and o_ and o_.startswith(("self.", "global:")):
                    info.effects.append(Effect("returns_ref", f, n, "returns %s" % norm_src(n.value), o_))
        # decorators that cache
        for d in f.node.decorator_list:
            ds = norm_src(d)
            if any(x in ds for x in ("lru_cache", "cache", "cached_property", "memo")):
                info.effects.append(Effect("cache", f, d, "caching decorator %s" % ds))
        # mutable default arguments
        for d in list(f.node.args.defaults) + [x for x in f.node.args.kw_defaults if x is not None]:
            if isinstance(d, (ast.List, ast.Dict, ast.Set)) or (
                isinstance(d, ast.Call) and isinstance(d.func, ast.Name) and d.func.id in ("list", "dict", "set", "OrderedDict")
            ):
                info.effects.append(Effect("global_write", f, d, "mutable default argument %s" % norm_src(d), "global:default"))
        return info

    def analyse_call(self, info, f, n, origin, selfn, is_cls):
        module = f.module
        fn = n.func
        if isinstance(fn, ast.Name):
            name = fn.id
            if name in info.locals and not (f.outer is None and name in module.functions):
                # local callable (nested def) -> resolve among nested functions
                q = f.qualname + "." + name
                if q in self.by_qual:
                    info.calls.append(("func", q, n))
                    return
                o = f.outer
                while o is not None:
                    q = o.qualname + "." + name
                    if q in self.by_qual:
                        info.calls.append(("func", q, n))
                        return
                    o = o.outer
                info.calls.append(("unknown", name, n))
                return
            o = f.outer
            while o is not None:
                q = o.qualname + "." + name
                if q in self.by_qual:
                    info.calls.append(("func", q, n))
                    return
                o = o.outer
            if is_cls and f.params and name == f.params[0]:
                if f.cls is not None and "__init__" in f.cls.methods:
                    info.calls.append(("func", f.cls.methods["__init__"].qualname, n))
                return
            r = self.classify_global(module, name)
            if r is not None:
                if r[0] == "func":
                    info.calls.append(("func", r[1].qualname, n))
                    return
                if r[0] == "class":
                    c = r[1]
                    if "__init__" in c.methods:
                        info.calls.append(("func", c.methods["__init__"].qualname, n))
                    else:
                        info.calls.append(("class", c.qualname, n))
                    return
                if r[0] == "ext":
                    info.calls.append(("ext", r[1], n))
                    self.note_ambient(info, f, n, r[1])
                    return
                if r[0] == "value":
                    # name bound at module level to a value (e.g. string_input = raw_input)
                    vn = r[2]
                    if isinstance(vn, ast.Name) and vn.id in IO_BUILTINS:
                        info.calls.append(("builtin", vn.id, n))
                        info.effects.append(Effect("io", f, n, "call of %s (via %s)" % (vn.id, name)))
                        return
                    info.calls.append(("unknown", name, n))
                    return
            info.calls.append(("builtin", name, n))
            if name in IO_BUILTINS:
                info.effects.append(Effect("io", f, n, "call of %s" % name))
            return
        if isinstance(fn, ast.Attribute):
            recv = fn.value
            o_ = origin(recv)
            if o_ == "self" or (isinstance(recv, ast.Name) and is_cls and f.params and recv.id == f.params[0]):
                cls = f.cls
                if cls is not None and fn.attr in cls.methods:
                    info.calls.append(("func", cls.methods[fn.attr].qualname, n))
                    return
                info.calls.append(("unknown", "self." + fn.attr, n))
                return
            if o_ is not None and o_.startswith("ext:"):
                dotted = o_[4:] + "." + fn.attr
                info.calls.append(("ext", dotted, n))
                self.note_ambient(info, f, n, dotted)
                return
            if fn.attr in MUTATORS and o_ is not None:
                if o_.startswith("self."):
                    info.effects.append(Effect("self_write", f, n, "%s() on %s" % (fn.attr, norm_src(recv)), o_))
                elif o_.startswith("global:"):
                    info.effects.append(Effect("global_write", f, n, "%s() on %s" % (fn.attr, norm_src(recv)), o_))
                elif o_.startswith("param:"):
                    info.effects.append(Effect("param_write", f, n, "%s() on %s" % (fn.attr, norm_src(recv)), o_))
            # method on another object of a package class (cvss_object.scores())
            for c in module.classes.values():
                pass
            info.calls.append(("method", fn.attr, n))
            return
        info.calls.append(("unknown", norm_src(fn), n))

    def note_ambient(self, info, f, n, dotted):
        if dotted.startswith(AMBIENT_PREFIXES):
            info.effects.append(Effect("ambient", f, n, "call of %s" % dotted, dotted))

    # ------------------------------------------------------------------
    def callees(self, q, loose_methods=True):
        out = set()
        info = self.infos.get(q)
        if info is None:
            return out
        for kind, tgt, node in info.calls:
            if kind == "func":
                out.add(tgt)
            elif kind == "method" and loose_methods:
                # unresolved receiver: any package method/function of that name (over-approximation)
                for qq, ff in self.by_qual.items():
                    if ff.name == tgt and ff.cls is not None and ff.outer is None:
                        out.add(qq)
        # nested functions defined inside are reachable when referenced
        for qq, ff in self.by_qual.items():
            if ff.outer is not None and ff.outer.qualname == q:
                out.add(qq)
        return out

    def reachable(self, roots, loose_methods=True):
        seen = set()
        work = list(roots)
        while work:
            q = work.pop()
            if q in seen or q not in self.infos:
                continue
            seen.add(q)
            work.extend(self.callees(q, loose_methods))
        return seen

    def effects_of(self, roots, kinds=None, loose_methods=True):
        out = []
        for q in sorted(self.reachable(roots, loose_methods)):
            for e in self.infos[q].effects:
                if kinds is None or e.kind in kinds:
                    out.append(e)
        return out

    def all_effects(self, kinds=None):
        out = []
        for q in sorted(self.infos):
            for e in self.infos[q].effects:
                if kinds is None or e.kind in kinds:
                    out.append(e)
        return out
