"""E7 — regular-language reasoning on regexes as data (re._parser AST -> NFA -> DFA)."""

from __future__ import annotations

try:
    import re._parser as sre_parse
    import re._constants as sre_c
except ImportError:  # pragma: no cover
    import sre_constants as sre_c
    import sre_parse

from .srcmodel import AnalysisError

OTHER = "\x00"  # representative of every character not mentioned by the pattern


class Unsupported(AnalysisError):
    pass


def parse(pattern):
    try:
        return sre_parse.parse(pattern)
    except Exception as e:
        raise AnalysisError("E7.parse", "invalid regular expression %r: %s" % (pattern, e))


def charset_of(items, alphabet):
    """Set of alphabet characters matched by an IN node's items."""
    neg = False
    chars = set()
    for op, av in items:
        if op is sre_c.NEGATE:
            neg = True
        elif op is sre_c.LITERAL:
            chars.add(chr(av))
        elif op is sre_c.RANGE:
            lo, hi = av
            for c in alphabet:
                if c != OTHER and lo <= ord(c) <= hi:
                    chars.add(c)
        elif op is sre_c.CATEGORY:
            name = str(av)
            for c in alphabet:
                if c == OTHER:
                    continue
                if "DIGIT" in name and "NOT" not in name and c.isdigit():
                    chars.add(c)
                elif "WORD" in name and "NOT" not in name and (c.isalnum() or c == "_"):
                    chars.add(c)
                elif "SPACE" in name and "NOT" not in name and c.isspace():
                    chars.add(c)
                elif "NOT" in name:
                    raise Unsupported("E7.class", "negated category in character class")
        else:
            raise Unsupported("E7.class", "unsupported class item %s" % (op,))
    if neg:
        return set(alphabet) - chars
    return chars


def literal_chars(tree, out):
    for op, av in tree:
        if op is sre_c.LITERAL or op is sre_c.NOT_LITERAL:
            out.add(chr(av))
        elif op is sre_c.IN:
            for o2, a2 in av:
                if o2 is sre_c.LITERAL:
                    out.add(chr(a2))
                elif o2 is sre_c.RANGE:
                    lo, hi = a2
                    if hi - lo > 200:
                        raise Unsupported("E7.class", "character range too wide")
                    for x in range(lo, hi + 1):
                        out.add(chr(x))
                elif o2 is sre_c.CATEGORY:
                    for x in "0123456789":
                        out.add(x)
        elif op is sre_c.SUBPATTERN:
            literal_chars(av[3], out)
        elif op is sre_c.BRANCH:
            for b in av[1]:
                literal_chars(b, out)
        elif op in (sre_c.MAX_REPEAT, sre_c.MIN_REPEAT):
            literal_chars(av[2], out)


class NFA(object):
    def __init__(self):
        self.n = 0
        self.eps = {}
        self.tr = {}

    def new(self):
        self.n += 1
        return self.n - 1

    def add_eps(self, a, b):
        self.eps.setdefault(a, set()).add(b)

    def add(self, a, chars, b):
        for c in chars:
            self.tr.setdefault((a, c), set()).add(b)


def build(tree, nfa, alphabet, start):
    """Thompson construction; returns the end state."""
    cur = start
    items = list(tree)
    for op, av in items:
        if op is sre_c.LITERAL:
            nxt = nfa.new()
            nfa.add(cur, [chr(av)], nxt)
            cur = nxt
        elif op is sre_c.NOT_LITERAL:
            nxt = nfa.new()
            nfa.add(cur, [c for c in alphabet if c != chr(av)], nxt)
            cur = nxt
        elif op is sre_c.ANY:
            nxt = nfa.new()
            nfa.add(cur, [c for c in alphabet if c != "\n"], nxt)
            cur = nxt
        elif op is sre_c.IN:
            nxt = nfa.new()
            nfa.add(cur, charset_of(av, alphabet), nxt)
            cur = nxt
        elif op is sre_c.SUBPATTERN:
            cur = build(av[3], nfa, alphabet, cur)
        elif op is sre_c.BRANCH:
            end = nfa.new()
            for b in av[1]:
                s = nfa.new()
                nfa.add_eps(cur, s)
                e = build(b, nfa, alphabet, s)
                nfa.add_eps(e, end)
            cur = end
        elif op in (sre_c.MAX_REPEAT, sre_c.MIN_REPEAT):
            lo, hi, sub = av
            if lo > 64:
                raise Unsupported("E7.repeat", "repetition count too large")
            for _ in range(lo):
                cur = build(sub, nfa, alphabet, cur)
            if hi is sre_c.MAXREPEAT:
                loop = nfa.new()
                nfa.add_eps(cur, loop)
                e = build(sub, nfa, alphabet, loop)
                nfa.add_eps(e, loop)
                cur = loop
            else:
                if hi - lo > 64:
                    raise Unsupported("E7.repeat", "repetition range too large")
                end = nfa.new()
                nfa.add_eps(cur, end)
                for _ in range(hi - lo):
                    cur = build(sub, nfa, alphabet, cur)
                    nfa.add_eps(cur, end)
                cur = end
        elif op is sre_c.AT:
            # ^ and $ are accepted only at the ends (full-match semantics are used anyway)
            continue
        else:
            raise Unsupported("E7.node", "unsupported regex construct %s" % (op,))
    return cur


class DFA(object):
    """Lazy subset construction, full-match semantics."""

    def __init__(self, pattern, extra_chars="", tree=None):
        self.pattern = pattern
        if tree is None:
            tree = parse(pattern)
        chars = set(extra_chars)
        literal_chars(tree, chars)
        self.alphabet = sorted(chars) + [OTHER]
        self.nfa = NFA()
        s = self.nfa.new()
        e = build(tree, self.nfa, self.alphabet, s)
        self.accept_nfa = e
        self.start = self.closure({s})
        self.cache = {}

    def closure(self, states):
        stack = list(states)
        out = set(states)
        while stack:
            x = stack.pop()
            for y in self.nfa.eps.get(x, ()):
                if y not in out:
                    out.add(y)
                    stack.append(y)
        return frozenset(out)

    def step(self, state, ch):
        if ch not in self.alphabet:
            ch = OTHER
        k = (state, ch)
        if k not in self.cache:
            nxt = set()
            for x in state:
                nxt |= self.nfa.tr.get((x, ch), set())
            self.cache[k] = self.closure(nxt)
        return self.cache[k]

    def run(self, state, s):
        for ch in s:
            state = self.step(state, ch)
            if not state:
                return state
        return state

    def accepting(self, state):
        return self.accept_nfa in state

    def fullmatch(self, s):
        return self.accepting(self.run(self.start, s))


def ordered_language_included(dfa, prefixes, fields, sep="/"):
    """Language  prefix . join(sep, subset of `fields` in the given order)  with
    fields = [(key, [strings], mandatory)], at least the mandatory ones present.
    Returns (True, None) or (False, witness string)."""
    # states: (dfa state, emitted_any) -> witness
    cur = {}
    for p in prefixes:
        stt = dfa.run(dfa.start, p)
        if not stt:
            return False, p
        cur[(stt, False)] = p
    for key, strings, mandatory in fields:
        nxt = {}
        if not mandatory:
            nxt.update(cur)
        for (stt, any_), w in cur.items():
            for s in strings:
                piece = (sep if any_ else "") + s
                st2 = dfa.run(stt, piece)
                w2 = w + piece
                if not st2:
                    return False, w2
                k = (st2, True)
                if k not in nxt:
                    nxt[k] = w2
        cur = nxt
    for (stt, any_), w in cur.items():
        if not dfa.accepting(stt):
            return False, w
    return True, None


def free_language_included(dfa, prefixes, field_strings, sep="/"):
    """Superset language: prefix . one or more fields in any order with repetition.
    Inclusion of the superset implies inclusion of the real accepted language."""
    seen = {}
    work = []
    for p in prefixes:
        stt = dfa.run(dfa.start, p)
        if not stt:
            return False, p
        for s in field_strings:
            st2 = dfa.run(stt, s)
            if not st2:
                return False, p + s
            if st2 not in seen:
                seen[st2] = p + s
                work.append(st2)
    while work:
        stt = work.pop()
        w = seen[stt]
        if not dfa.accepting(stt):
            return False, w
        for s in field_strings:
            st2 = dfa.run(stt, sep + s)
            if not st2:
                return False, w + sep + s
            if st2 not in seen:
                seen[st2] = w + sep + s
                work.append(st2)
    return True, None
