"""C06 — only effective metric values influence the scores (non-interference)."""

from .. import rules_flow as RF

LEVEL = "proof"

EXPLANATION = (
    "Dependence analysis on the score value graphs: the canonical score terms are compared under pinned states (a) "
    "modified metric ND vs set to the base value, (b) ND vs the specification's equivalent value; (c) the symbol set of "
    "the v4 score (expanded through the effective-value definitions) excludes the supplemental metrics; (d) with a "
    "defined modified metric the v3 environmental term / v4 effective value does not mention the base metric; (e) the "
    "base term mentions base metrics only and the temporal term base+temporal metrics only."
)


def run(ctx):
    led = ctx.ledger
    led.explanation = EXPLANATION
    led.assumptions = ["post-parse model (C04)", "v4: m()/macroVector summaries checked by C02.m / C02.eq"]
    n = 0
    from ..rules_parse import RelabelLedger

    for v in (2, 3, 4):
        # the object model fixes one iteration order for the parsed metric map: the comparisons below
        # speak for every field order only if nothing iterates that map (C05's rule, discharged here)
        RF.check_order_iter(ctx, RelabelLedger(led, "C06.order", keep=("C05.order.iter",), strip="C05.order.iter"), v)
        n += RF.check_c06(ctx, led, v)
    led.require_min("C06", n, 90, "non-interference comparisons")
