"""C08 — every vector string the library emits is valid for its version."""

from .. import rules_lang as RL
from .. import rules_out as RO

LEVEL = "proof"

EXPLANATION = (
    "Language inclusion between two finitely described languages. The emitted language of each version is extracted "
    "by abstract interpretation of clean_vector() (prefix, constant emission order, one optional/mandatory field per "
    "metric with its defined legal values) and, for the interactive builder, from the asked tables; the official "
    "language is the DFA of the vectorString pattern of the pinned FIRST schema (re._parser AST -> NFA -> DFA). "
    "Inclusion is decided by propagating the set of reachable DFA states through the field sequence. Acceptance by the "
    "library's own parser follows from C07.reparse / C16."
)


def run(ctx):
    led = ctx.ledger
    led.explanation = EXPLANATION
    led.assumptions = ["rh_vector's vector part is clean_vector() (C12.emit)", "builder structure per C16 (each asked metric answered once, table spelling appended)"]
    n = 0
    for v in (2, 3, 4):
        emitted = RO.check_clean_vector(ctx, RO_null(), v, "C07")
        n += RL.check_emitted_language(ctx, led, v, emitted)
        n += RL.check_builder_language(ctx, led, v)
        # the facts the language argument starts from, discharged here rather than assumed:
        # what the parser stores is a table-legal raw token (otherwise clean_vector() echoes an
        # illegal one), and rh_vector()'s vector part is clean_vector()
        from ..rules_out import check_rh_emit
        from ..rules_parse import RelabelLedger, parse_summary

        parse_summary(ctx, v, RelabelLedger(led, "C08.model", keep=("C04.store.key", "C04.store.value", "C04.store", "C04.semantic.overaccept", "C04.semantic.store"), strip="C04."))
        check_rh_emit(ctx, RelabelLedger(led, "C08.rh", strip="C12."), v)
        from ..rules_access import check_accessors

        check_accessors(ctx, led, v, rules=("pure",), prefix="C08.pure", only=("clean_vector", "rh_vector"))
    # the builder: each asked metric answered exactly once with a table spelling, right prefix
    from ..rules_inter import check_c16
    from ..rules_parse import RelabelLedger

    check_c16(ctx, RelabelLedger(led, "C08.builder", strip="C16."))
    led.require_min("C08.official", n, 8, "language inclusions decided")


def RO_null():
    from ..rules_parse import NullLedger

    return NullLedger()
