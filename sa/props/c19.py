"""C19 — results depend only on the input: no hidden state or ambient dependence."""

from .. import rules_global as RG
from .. import rules_access as RA
from ..rules_score import get_model

LEVEL = "other"

EXPLANATION = (
    "Package-wide effect census: no store, del, augmented assignment or mutating call on a module-level name or "
    "imported table, no global statement, no mutable class attribute or default, import-time code limited to "
    "constant bindings; who-may-call rule for ambient state (decimal context, sys, os, warnings, logging, random, "
    "time, locale) and for print/input (CLI modules only, with positive control); every quantize() passes an explicit "
    "rounding mode; typestate analysis for set iteration order reaching a result. 'No shared location is written after "
    "import' gives independence from history and thread-compatibility (sufficient condition)."
)


def run(ctx):
    led = ctx.ledger
    led.explanation = EXPLANATION
    led.assumptions = [
        "CPython: concurrent reads of never-written module tables are safe",
        "Decimal arithmetic other than ** is exact at precision >= 28 for these operand sizes (v2: shown by digit bounds in C03 "
        "when built; v3 ** terms: not decided)",
    ]
    n = RG.check_toplevel(ctx, led)
    led.require_min("C19.toplevel", n, 60, "module-level / class-level statements classified")
    nf = RG.check_global_writes(ctx, led)
    led.require_min("C19.globals", nf, 50, "functions in the write census")
    npr = RG.check_ambient(ctx, led)
    led.require_min("C19.ambient.control", npr, 8, "print/input calls found in the CLI modules (positive control)")
    nq = RG.check_quantize(ctx, led)
    led.require_min("C19.rounding", nq, 3, "quantize() call sites")
    nfun, nsets = RG.check_hashorder(ctx, led)
    led.require_min("C19.hashorder", nfun, 50, "functions scanned for set-order flow")
    # instance state: created fresh in __init__ (abstract interpretation), never a shared table
    for v in (2, 3, 4):
        om = get_model(ctx, v)
        inst = om.st.heap[om.self_ref.id]
        from ..interp import Ref
        from ..terms import Const

        for a, val in sorted(inst.attrs.items()):
            shared = isinstance(val, Const) and isinstance(val.v, (dict, list))
            led.check(
                not shared,
                "C19.instance",
                "%s.__init__::self.%s" % (om.clsname, a),
                om.module.where(om.cls.methods["__init__"].node),
                "instance attribute %s aliases a module-level table" % a,
            )
        for e in om.events(init_only=True):
            if e.kind in ("global_write", "global_stmt"):
                led.violation(
                    "C19.globals",
                    "%s::%s" % (e.func.qualname if e.func else "?", __import__("sa.srcmodel", fromlist=["short"]).short(e.node)),
                    e.where(),
                    "construction writes module-level state: %s" % e.data.get("what"),
                )
            if e.kind == "quantize_ambient_rounding":
                led.violation(
                    "C19.rounding",
                    "%s::%s" % (e.func.qualname if e.func else "?", __import__("sa.srcmodel", fromlist=["short"]).short(e.node)),
                    e.where(),
                    "quantize() uses the ambient rounding mode",
                )
    led.undecided(
        "C19.rounding.pow",
        "CVSS3's inexact ** operations round with the ambient context in the 28th digit; whether that can cross a 0.1 "
        "boundary is the numeric question left open in C01",
    )
    led.undecided("C19.threads", "thread interleavings are decided only through 'no shared mutable location' (sufficient, not necessary)")
