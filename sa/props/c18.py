"""C18 — a constructed object is an immutable value with total, pure accessors."""

from .. import rules_access as RA

LEVEL = "proof"

EXPLANATION = (
    "Effect analysis over the resolved call graph (transitive write set of every public accessor is empty, no "
    "caches, no module-state writes) plus abstract interpretation of every accessor on the abstract post-construction "
    "state for all option combinations: no reachable raise, no undischarged implicit-exception site (lookups in "
    "name/JSON tables for every legal value incl. Not Defined), returned containers are fresh and hold only immutable "
    "values. An empty write set makes 'any sequence of accessor calls' collapse to 'any single call'."
)


def run(ctx):
    led = ctx.ledger
    led.explanation = EXPLANATION
    led.assumptions = [
        "post-construction abstract state from the C04 parse summary",
        "str/float/Decimal/tuple results are immutable Python values",
    ]
    calls = sites = effs = 0
    for v in (2, 3, 4):
        c, s = RA.check_accessors(ctx, led, v)
        calls += c
        sites += s
        effs += RA.check_effect_writes(ctx, led, v)
    led.require_min("C18.total", calls, 30, "accessor invocations analysed")
    led.require_min("C18.effects", effs, 18, "accessors with a computed write set")
    led.require_min("C18.sites", sites, 8, "subscript sites inside accessors")
