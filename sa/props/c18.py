"""C18 — a constructed object is an immutable value with total, pure accessors."""

from .. import rules_access as RA

LEVEL = "proof"

EXPLANATION = (
    "Effect analysis over the resolved call graph (transitive write set of every public accessor is empty, no "
    "caches, no module-state writes) plus abstract interpretation of every accessor on the abstract post-construction "
    "state for all option combinations: no reachable raise, no undischarged implicit-exception site (lookups in "
    "name/JSON tables for every legal value incl. Not Defined), returned containers are fresh and hold only immutable "
    "values. An empty write set makes 'any sequence of accessor calls' collapse to 'any single call'."
)


def run(ctx):
    led = ctx.ledger
    led.explanation = EXPLANATION
    led.assumptions = [
        "post-construction abstract state from the C04 parse summary",
        "str/float/Decimal/tuple results are immutable Python values",
    ]
    calls = sites = effs = 0
    # hash(): a class body that defines __eq__ without __hash__ gets __hash__ = None on Python 3,
    # whatever a base class or mixin provides: hash(obj) raises TypeError
    from ..ctx import VERSIONS

    for v in (2, 3, 4):
        info = VERSIONS[v]
        cls = ctx.repo.cls(info["mod"], info["cls"])
        own = getattr(cls, "own_methods", cls.methods)
        led.check(
            not ("__eq__" in own and "__hash__" not in own) and "__hash__" in cls.methods,
            "C18.total.hash",
            "%s.%s::__hash__" % (info["mod"], info["cls"]),
            cls.module.where(cls.node),
            "%s defines __eq__ in its own body without __hash__ (or has no __hash__ at all): on Python 3 the class is unhashable, "
            "hash(obj), set membership and dict keys raise TypeError" % info["cls"],
        )
    for v in (2, 3, 4):
        c, s = RA.check_accessors(ctx, led, v)
        calls += c
        sites += s
        effs += RA.check_effect_writes(ctx, led, v)
    led.require_min("C18.total", calls, 30, "accessor invocations analysed")
    led.require_min("C18.effects", effs, 18, "accessors with a computed write set")
    led.require_min("C18.sites", sites, 8, "subscript sites inside accessors")
