"""C04 — acceptance is exactly the grammar; errors follow the taxonomy (static rules)."""

from .. import rules_accept as RA
from ..rules_parse import parse_summary

LEVEL = "other"

EXPLANATION = (
    "Dominating-guard analysis of the three parse_vector methods (every store into the metric map is dominated by "
    "the four grammar facts on the raw split components), table agreement of the consulted tables with the "
    "specification grammar, prefix chain analysis, abstract interpretation of check_mandatory and of the rest of "
    "__init__ for implicit-exception sites, and classification of every explicit raise."
)

VERSIONS = (2, 3, 4)


def run(ctx):
    led = ctx.ledger
    led.explanation = EXPLANATION
    led.assumptions = ["input is a str (the property's quantifier)", "CPython str.split/startswith semantics"]
    n_store = n_sites = n_raise = 0
    for v in versions(ctx):
        summ = parse_summary(ctx, v, led)
        n_store += len(summ["stores"]) or (1 if summ.get("semantic_only") else 0)
        n_raise += max(summ["n_raise"], 9 if summ.get("semantic_only") else 0)
        RA.check_tables(ctx, led, v)
        RA.check_mandatory(ctx, led, v)
        n_sites += RA.check_escape_parse(ctx, led, v)
        n_sites += RA.check_escape_eval(ctx, led, v)
    nv = len(versions(ctx))
    led.require_min("C04.store", n_store, nv, "stores into the metric map")
    led.require_min("C04.kinds", n_raise, 4 * nv, "explicit raises in parse_vector/check_mandatory")
    led.require_min("C04.escape", n_sites, 6 * nv, "implicit-exception sites examined")


def versions(ctx):
    return VERSIONS
