"""C09 — scores are well-formed and severity ratings follow the official scale."""

from .. import rules_sev as RS

LEVEL = "other"

EXPLANATION = (
    "Typestate 'quantised to one decimal' on the value graph of every score attribute and of scores(); interval / "
    "multilinear-vertex bounds of the pre-rounding expressions with leaf ranges from the weight tables (range [0,10]); "
    "the severity threshold chains evaluated as decision tables on the exact value space {0.0,...,10.0} (and None for "
    "v2) against the official scale; symbol-set agreement between severities(), the v4 severity attribute and the JSON "
    "score/severity fields."
)


def run(ctx):
    led = ctx.ledger
    led.explanation = EXPLANATION
    led.assumptions = [
        "value space of a score is the 0.1 grid in [0,10] (C09.quantised + C09.range)",
        "the sign of zero (-0.0) is not tracked",
        "v4 float arithmetic bounded as exact rational arithmetic on the literals",
    ]
    n = q = r = 0
    for v in (2, 3, 4):
        q += RS.check_quantised(ctx, led, v)
        r += RS.check_range(ctx, led, v)
        n += RS.check_scale(ctx, led, v)
        RS.check_json_scores(ctx, led, v)
        # scores() itself: float of each slot, None exactly for an undefined v2 score
        from ..rules_score import check_scores_out

        check_scores_out(ctx, led, v, "C09.out")
    led.require_min("C09.scale", n, 600, "grid points evaluated (7 slots x 101)")
    led.require_min("C09.quantised", q, 10, "score values with the quantised typestate")
    led.require_min("C09.range", r, 7, "score expressions bounded")
    led.undecided("C09.negzero", "the sign of zero is not tracked: -0.0 would print as '-0.0'")
