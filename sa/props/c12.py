"""C12 — Red Hat notation round-trips and rejects mismatching scores."""

from .. import rules_out as RO
from .. import rules_rh as RR

LEVEL = "proof"

EXPLANATION = (
    "rh_vector() is shown (abstract interpretation) to be str(scores()[0]) + '/' + clean_vector(); from_rh_vector is "
    "analysed structurally: split on the first '/' only inside try/except ValueError -> RHMalformed, float() of the "
    "score part likewise, constructor call on the untransformed remainder outside any handler, exact == between "
    "scores()[0] and the parsed number, object returned on match, RHScoreDoesNotMatch otherwise. Round trip follows by "
    "composition with C07.reparse, C09.quantised and Python's float repr round-trip guarantee."
)


def run(ctx):
    led = ctx.ledger
    led.explanation = EXPLANATION
    led.assumptions = ["float(str(x)) == x for Python floats (repr round-trip)", "C07.reparse", "C09.quantised (score prints with one decimal)"]
    for v in (2, 3, 4):
        RO.check_rh_emit(ctx, led, v)
        RR.check_from_rh(ctx, led, v)
        from ..rules_access import check_accessors

        check_accessors(ctx, led, v, rules=("pure",), prefix="C12.pure", only=("rh_vector", "clean_vector", "scores"))
    led.require_min("C12.parse", sum(1 for o in led.obs if o.rule.startswith("C12.parse")), 30, "from_rh_vector obligations")
