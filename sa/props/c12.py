"""C12 — Red Hat notation round-trips and rejects mismatching scores."""

from .. import rules_out as RO
from .. import rules_rh as RR

LEVEL = "other"

EXPLANATION = (
    "rh_vector() is shown (abstract interpretation) to be str(scores()[0]) + '/' + clean_vector(); from_rh_vector is "
    "interpreted abstractly (exceptions as control flow) over a representative set of Red Hat strings - score texts "
    "(the exact score, other spellings of the number, other numbers, nan, texts float() rejects) x vector parts (valid, "
    "with further '/' inside, malformed, mandatory metric missing, empty) and strings without '/': the constructor is "
    "replaced by the grammar (C04), scores() of the object by a fixed base score; the outcome read off the value graph "
    "(returned object / raised class) must be the one the property states for every string. Round trip follows by "
    "composition with C07.reparse, C09.quantised and Python's float repr round-trip guarantee."
)


def run(ctx):
    led = ctx.ledger
    led.explanation = EXPLANATION
    led.assumptions = ["float(str(x)) == x for Python floats (repr round-trip)", "C07.reparse", "C09.quantised (score prints with one decimal)"]
    from ..rules_parse import InfoLedger
    from ..rules_rh_sem import check_rh_history, check_rh_semantics
    from ..srcmodel import AnalysisError

    n_sem = 0
    for v in (2, 3, 4):
        RO.check_rh_emit(ctx, led, v)
        # from_rh_vector: the semantic analysis over representative Red Hat strings decides; the
        # idiom rules (one way of writing the function) are then an informational cross-check.
        # When the function cannot be interpreted the check stops as undecided (exit 2): neither
        # the silence nor the complaints of the idiom rules decide then.
        n_sem += check_rh_semantics(ctx, led, v)
        check_rh_history(ctx, led, v)
        try:
            RR.check_from_rh(ctx, InfoLedger(led), v)
        except AnalysisError as e:
            led.info("C12.parse", "CVSS%d.from_rh_vector" % v, "cvss/", "idiom rules not applicable: %s" % e.message)
        from ..rules_access import check_accessors

        check_accessors(ctx, led, v, rules=("pure",), prefix="C12.pure", only=("rh_vector", "clean_vector", "scores"))
    led.require_min("C12.sem", n_sem, 300, "representative Red Hat strings decided")
