"""C14 — a more severe metric value never lowers a score (necessary conditions + certificates)."""

from .. import rules_mono as RM
from .. import rules_score as RS
from .. import rules_v4 as R4

LEVEL = "other"

EXPLANATION = (
    "v2 and v3: decided on the value graphs of the score attributes. Weight leaves are weakly monotone along the "
    "specification's severity order (all weighted metrics, both PR tables, Scope); every score is then shown "
    "non-decreasing in every metric by sign rules (partial derivatives bounded >= 0 by multilinear vertex enumeration, "
    "threshold ITEs, path facts) and, where the sign rules fail (the changed-scope impact polynomial is not monotone on "
    "the reals; steps of S / MS switch formulas), by exact tabulation: the failing sub-term is folded into a finite table "
    "over the images of its weight leaves (exact rationals, float-filtered) along every chain of the stepped metric; a grid "
    "step on which a sub-term decreases is carried to the enclosing rounded term and, if it survives, to the score "
    "itself. A surviving step is a pair of concrete vectors on which the value graph of the score decreases and is "
    "reported with both vectors. v4: the lookup is monotone along every digit increment, the level tables strictly "
    "monotone; the value graph of the score is the v4.0 algorithm on the code's own lookup and depth tables (tail), the "
    "digits are the specification's classifiers (eq), the search is a first fit and the highest-severity vectors of a "
    "class are interchangeable (search, cross): the score is then a function of five per-class signatures (digits, level "
    "sum, all-None flag) and every single-metric severity step is compared on all signature tuples in exact rationals "
    "(C14.v4.cross), within and across macrovector boundaries, with two concrete vectors as witness."
)


def run(ctx):
    led = ctx.ledger
    led.explanation = EXPLANATION
    led.assumptions = ["a certificate is derived on the value graph, whose equality with the standard is C01/C03's matter"]
    n = 0
    for v in (2, 3):
        n += RM.check_weights(ctx, led, v)
    led.require_min("C14.weights", n, 40, "weight leaves checked along the severity order")
    # v4: lookup + levels
    nl = R4.check_lookup_shape(ctx, led)
    spec4 = ctx.vspec(4)
    om4 = RS.get_model(ctx, 4)
    leaves = {}
    RM.collect_leaves(om4.attr("base_score"), leaves)
    nlev = 0
    from ..objmodel import MISMATCH

    for k, ordr in sorted(spec4["severity_order"].items()):
        if k == "E":
            continue
        slot = om4.v4["eff"].get(k)
        effv = om4.spec_leaf(om4.st, k, lambda e: e, spec4)
        for f in leaves.values():
            if f.slots == (slot,) and effv is not None:
                nlev += 1
                rank = dict((val, i) for i, val in enumerate(ordr))  # larger = more severe
                bad = None
                rows = [(effv.table.get(c), f.table[c]) for c in f.table]
                for e1, l1 in rows:
                    for e2, l2 in rows:
                        if e1 is MISMATCH or e2 is MISMATCH or e1 not in rank or e2 not in rank:
                            continue
                        if rank[e1] > rank[e2] and not (l1 < l2):
                            bad = (e1, float(l1), e2, float(l2))
                        if rank[e1] == rank[e2] and l1 != l2:
                            bad = (e1, float(l1), e2, float(l2))
                led.check(
                    bad is None,
                    "C14.levels",
                    "CVSS4 severity level of %s" % k,
                    "cvss/cvss4.py",
                    "severity levels of %s are not strictly ordered with severity (%s)" % (k, bad),
                )
    led.require_min("C14.levels", nlev, 10, "v4 level tables")
    # the within-macrovector argument measures the distances against the highest-severity vector the
    # search selects: the search facts it starts from are discharged here (rules keep their C02 names)
    R4.check_search(ctx, led, om4)
    R4.check_tail(ctx, led, om4, own_tables=True)
    # ... and that the digits are the specification's classifiers and the highest-severity vectors of
    # a class are interchangeable (same level sum, every member dominated): the step table below is
    # built on these
    try:
        R4.check_eq(ctx, led, om4)
    except R4.AnalysisError as e:
        if e.rule != "C02.eq.total":
            raise
        led.violation("C02.eq", "CVSS4.macroVector::totality", "cvss/cvss4.py", "a classifier chain of macroVector() is not total (%s)" % e.message)
    R4.check_cross_derivation(ctx, led, om4)
    led.ok("C14.within", "CVSS4 score inside one macrovector", "cvss/cvss4.py", "value - mean(a_i*d_i/(D_i*0.1)) with a_i >= 0 (lookup monotone), D_i > 0 (depth tables): non-increasing in every distance")
    total_cert = 0
    for v in (2, 3):
        cert, und = RM.check_compose(ctx, led, v)
        total_cert += cert
        by = {}
        for ck, why in und:
            key, _, case = ck.partition(" [")
            by.setdefault(key, []).append((case.rstrip("]"), why))
        for key, lst in sorted(by.items()):
            led.undecided(
                "C14.compose",
                "%s: no sign-rule certificate in %d case(s), e.g. %s (%s)"
                % (key, len(lst), lst[0][0] or "all", "; ".join(lst[0][1]) or "non-monotone sub-term"),
            )
    led.require_min("C14.compose", total_cert, 50, "monotonicity certificates derived")
    ncmp = R4.check_cross_monotone(ctx, led)
    if ncmp:
        led.require_min("C14.v4.cross", ncmp, 100000, "v4 signature-step comparisons")
    led.undecided("C14.v4.float", "the v4 step table is evaluated in exact rationals with half-up rounding; that binary floating point plus EPSILON gives the same tenths is C02's undecided numeric clause")
