"""C13 — text extraction is total, sound, complete for delimited vectors, duplicate-free."""

from .. import rules_out as RO
from .. import rules_text as RT

LEVEL = "other"

EXPLANATION = (
    "Two parts. The regex as data (re._parser AST): the pattern the function really searches the text with has no capturing "
    "group and the shape (optional prefix group)(class){n,m}; from the parsers' accepted tables the class contains every "
    "character of valid v2/v3 vectors and nothing outside [A-Za-z:/], n does not exceed the shortest and m reaches the longest "
    "valid vector/body, every accepted v3 prefix is in the group's language and no delimiter absorbed by the group can be "
    "followed by the first character of a valid vector; greedy leftmost matching then returns a delimited vector exactly. The "
    "function: parse_cvss_from_text is abstractly interpreted (exceptions as control flow) with the search result replaced by "
    "K in {0,1,3} symbolic candidates over 21 representative strings and the constructors by the grammar; for every candidate "
    "sequence the returned collection holds the token of every valid candidate, nothing that is not a valid part of a candidate, "
    "nothing twice, and no exception leaves the function (sort keys that can be None are found on the object model). That the "
    "constructors accept exactly the grammar, let out only the classes the handler catches, and that == is the semantic key, is "
    "discharged here."
)


def run(ctx):
    led = ctx.ledger
    led.explanation = EXPLANATION
    led.assumptions = ["Python re: leftmost, greedy matching; findall returns whole matches when there is no group", "C04.escape: constructors raise only CVSSn errors", "C07.eq for =="]
    # soundness and completeness are stated against "valid vector of that version": the two
    # constructors must accept exactly the grammar (C04's acceptance rules, discharged here for the
    # classes the parser calls), and totality needs that nothing but the caught classes escapes them
    import ast

    from .. import rules_accept as RAcc
    from ..rules_parse import RelabelLedger, parse_summary

    f = ctx.repo.function("parser", "parse_cvss_from_text")
    caught = set()
    for h in ast.walk(f.node):
        if isinstance(h, ast.ExceptHandler) and h.type is not None:
            caught |= set(x.id for x in ast.walk(h.type) if isinstance(x, ast.Name))

    class _Escapes(RelabelLedger):
        """drops escapes of exception classes the parser's own handler catches"""

        def _tolerated(self_, what):
            return any(("%s escapes" % c) in (what or "") for c in caught if c not in ("CVSSError",))

        def violation(self_, rule, ck, where, what, **k):
            if self_._tolerated(what):
                return self_.ok(rule, ck, where, "caught by parse_cvss_from_text: " + what[:80])
            return RelabelLedger.violation(self_, rule, ck, where, what, **k)

        def check(self_, cond, rule, ck, where, what, **k):
            if not cond and self_._tolerated(what):
                cond = True
            return RelabelLedger.check(self_, cond, rule, ck, where, what, **k)

    for v in (2, 3):
        # which CVSSError subclass is raised does not matter here (all are caught): the .kinds rules stay with C04
        keep = ("C04.init", "C04.raw", "C04.phases", "C04.store", "C04.tables", "C04.prefix", "C04.hierarchy", "C04.semantic")
        parse_summary(ctx, v, RelabelLedger(led, "C13.accept", keep=keep, strip="C04."))
        RAcc.check_tables(ctx, RelabelLedger(led, "C13.accept.tables", keep=("C04.tables", "C04.escape"), strip="C04.tables"), v)
        RAcc.check_mandatory(ctx, RelabelLedger(led, "C13.accept.mandatory", keep=("C04.mandatory",), strip="C04.mandatory"), v)
        RAcc.check_escape_parse(ctx, _Escapes(led, "C13.total.ctor", strip="C04."), v)
    n = RT.check_c13(ctx, led)
    # completeness also rests on the de-duplication test: `cvss not in result` drops a vector that
    # compares equal to an earlier one, so == must hold only for the same version and the same
    # defined metric values (the semantic key rule of C07, applied to the two classes the parser builds)
    for v in (2, 3):
        RO.check_eq_hash(ctx, led, v, rule="C13.dedup.eq")
    led.require_min("C13", n, 2, "constructor call sites")
