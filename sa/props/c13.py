"""C13 — text extraction is total, sound, complete for delimited vectors, duplicate-free."""

from .. import rules_out as RO
from .. import rules_text as RT

LEVEL = "proof"

EXPLANATION = (
    "Regex-as-data reasoning plus guard analysis of parse_cvss_from_text: the candidate regex (re._parser AST) has no "
    "capturing group and the shape (optional prefix group)(class){n,}; from the parsers' accepted tables the class "
    "contains every character of valid v2/v3 vectors, n does not exceed the shortest valid vector/body, every accepted v3 "
    "prefix is in the group's language and no delimiter absorbed by the group can be followed by the first character of a "
    "valid vector (no straddling); greedy leftmost matching then returns a delimited vector exactly. Both constructor calls "
    "receive the raw match inside a try whose handler covers every exception the constructors let out (C04); results are "
    "de-duplicated on ==."
)


def run(ctx):
    led = ctx.ledger
    led.explanation = EXPLANATION
    led.assumptions = ["Python re: leftmost, greedy matching; findall returns whole matches when there is no group", "C04.escape: constructors raise only CVSSn errors", "C07.eq for =="]
    n = RT.check_c13(ctx, led)
    # completeness also rests on the de-duplication test: `cvss not in result` drops a vector that
    # compares equal to an earlier one, so == must hold only for the same version and the same
    # defined metric values (the semantic key rule of C07, applied to the two classes the parser builds)
    for v in (2, 3):
        RO.check_eq_hash(ctx, led, v, rule="C13.dedup.eq")
    led.require_min("C13", n, 2, "constructor call sites")
