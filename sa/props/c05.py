"""C05 — outputs do not depend on field order or on spelling out Not Defined."""

from .. import rules_flow as RF

LEVEL = "proof"

EXPLANATION = (
    "Information-flow analysis. Sources: the order of the fields; the distinction 'absent' vs 'present with ND/X'. "
    "Sinks: scores, severities, clean_vector, rh_vector, sub-vectors, hash (== compares the clean vectors). (1) In the "
    "field loop only a keyed store dominated by the duplicate check survives an iteration; (2) no sink or construction "
    "step iterates the parsed map or depends on the raw string (abstract interpretation events + symbol sets); (3) for "
    "every optional metric K, with all other metrics arbitrary, every sink's abstract result is identical for K absent "
    "and K = Not Defined (decision tables restricted to the two points; chaining single flips gives every subset)."
)


def run(ctx):
    led = ctx.ledger
    led.explanation = EXPLANATION
    led.assumptions = ["dict semantics of CPython (keyed store independent of insertion order for lookups)", "C04.store.dup (no repeated key)"]
    n_nd = n_s = 0
    for v in (2, 3, 4):
        RF.check_parse_order(ctx, led, v)
    for v in (2, 3, 4):
        n_s += RF.check_order_iter(ctx, led, v)
        n_nd += RF.check_nd(ctx, led, v)
    led.require_min("C05.order.iter", n_s, 15, "sink methods analysed (7+7+5)")
    led.require_min("C05.nd", n_nd, 200, "absent-vs-ND comparisons")
