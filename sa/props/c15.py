"""C15 — temporal_vector()/environmental_vector() are faithful and score-preserving."""

from .. import rules_out as RO

LEVEL = "proof"

EXPLANATION = (
    "Abstract interpretation of the four sub-vector methods: each lists exactly its group's metrics in specification "
    "order, every field shows the given value, the Not Defined token when omitted, or (v3 modified metrics) the base "
    "metric's value. Score preservation follows by composition with C05 (explicit Not Defined is score-neutral) and C06 "
    "(a modified metric equal to its base is score-neutral), which are checked by their own rules."
)


def run(ctx):
    led = ctx.ledger
    led.explanation = EXPLANATION
    led.assumptions = ["composition with C05.nd and C06.a for the score-preservation clause"]
    n = 0
    for v in (2, 3):
        n += RO.check_subvectors(ctx, led, v)
        # score preservation: the sub-vectors spell out Not Defined for omitted metrics and the base
        # value for Not Defined modified metrics, so the scores must not tell those apart
        from ..rules_access import check_accessors
        from ..rules_flow import check_c06, check_nd
        from ..rules_parse import RelabelLedger

        check_nd(ctx, led, v, rule="C15.preserve.nd", only_sinks=("scores",))
        check_c06(ctx, RelabelLedger(led, "C15.preserve", keep=("C06.a", "C06.b"), strip="C06."), v)
        # the sub-vectors are functions of the object: a second call returns the same text
        check_accessors(ctx, led, v, rules=("pure",), prefix="C15.pure", only=("temporal_vector", "environmental_vector"))
    led.require_min("C15.emit", n, 16, "sub-vector fields analysed")
