"""C15 — temporal_vector()/environmental_vector() are faithful and score-preserving."""

from .. import rules_out as RO

LEVEL = "proof"

EXPLANATION = (
    "Abstract interpretation of the four sub-vector methods: each lists exactly its group's metrics in specification "
    "order, every field shows the given value, the Not Defined token when omitted, or (v3 modified metrics) the base "
    "metric's value. Score preservation follows by composition with C05 (explicit Not Defined is score-neutral) and C06 "
    "(a modified metric equal to its base is score-neutral), which are checked by their own rules."
)


def run(ctx):
    led = ctx.ledger
    led.explanation = EXPLANATION
    led.assumptions = ["composition with C05.nd and C06.a for the score-preservation clause"]
    n = 0
    for v in (2, 3):
        n += RO.check_subvectors(ctx, led, v)
    led.require_min("C15.emit", n, 16, "sub-vector fields analysed")
