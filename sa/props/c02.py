"""C02 — CVSS v4.0 score equals the macrovector / interpolation algorithm (structural part)."""

from .. import rules_score as RS
from .. import rules_v4 as R4
from ..srcmodel import AnalysisError

LEVEL = "other"

EXPLANATION = (
    "Static analysis of CVSS4 scoring: literal tables (lookup, highest-severity vectors, depths, level tables) are "
    "evaluated from the source and compared by value with the specification and cross-derived from each other; "
    "m() and the six classifiers are extracted as decision tables and compared with the specification's predicates; "
    "compute_base_score is abstractly interpreted (search loop summarised) into one gated expression DAG that is "
    "compared with the specification's algorithm for each joint (EQ3,EQ6) case. Does NOT decide binary floating "
    "point vs exact evaluation (EPSILON sufficiency)."
)


def run(ctx):
    led = ctx.ledger
    led.explanation = EXPLANATION
    led.assumptions = [
        "post-parse model from C04.store; m()/macroVector() summarised as derived slots after being checked (assume/guarantee)",
        "search loops summarised by one body execution: requires no loop-carried scalar state (checked) and a dominating "
        "highest-severity vector for every class member (C02.cross)",
        "float arithmetic treated as exact rational arithmetic on the literals' decimal text (floating-point effects not decided)",
    ]
    try:
        om = RS.get_model(ctx, 4)
    except AnalysisError as e:
        if e.rule != "C02.eq.total":
            raise
        led.violation(
            "C02.eq",
            "CVSS4.macroVector::totality",
            e.module.where(e.node) if e.module is not None and e.node is not None else "cvss/cvss4.py",
            "a classifier chain of macroVector() is not total: for some metric values no arm matches and the digit keeps "
            "its initial placeholder, so the macrovector is not a key of the lookup table (%s)" % e.message,
        )
        return
    # the object model fixes one iteration order for the parsed metric map: what the rules below
    # establish holds for every field order only if the construction never iterates that map
    # (C05's rule, discharged here because C02's argument rests on it)
    from .. import rules_flow as RF
    from ..rules_parse import RelabelLedger

    RF.check_order_iter(ctx, RelabelLedger(led, "C02.order", keep=("C05.order.iter",), strip="C05.order.iter"), 4)
    n = R4.check_lookup(ctx, led)
    led.require_min("C02.lookup", n, 250, "lookup rows")
    R4.check_lookup_shape(ctx, led)
    n = R4.check_levels_tables(ctx, led, om)
    led.require_min("C02.maxcomposed", n, 28, "max-vector levels and depths")
    n = R4.check_cross_derivation(ctx, led, om)
    led.require_min("C02.cross", n, 10, "EQ classes cross-derived")
    n = R4.check_m(ctx, led, om)
    led.require_min("C02.m", n, 15, "effective-value functions examined")
    rows = R4.check_eq(ctx, led, om)
    led.require_min("C02.eq", rows, 700, "classifier truth-table rows")
    from ..rules_parse import InfoLedger

    RS._check_fill(ctx, InfoLedger(led), om, 4, "C02.fill")
    n = R4.check_search(ctx, led, om)
    led.require_min("C02.search", n, 13, "candidate lists by level")
    n = R4.check_extract(ctx, led, om, thorough=(ctx.tier == "thorough"))
    led.require_min("C02.extract", n, 14, "extractions evaluated")
    n = R4.check_tail(ctx, led, om)
    led.require_min("C02.tail", n, 5, "(eq3,eq6) cases")
    RS.check_scores_out(ctx, led, 4, "C02.out")
    RS.check_deps(ctx, led, 4, "C02.deps", attrs=("base_score",))
    led.undecided(
        "C02.float",
        "the score is computed in binary floating point; whether +EPSILON then half-up repairs every representation "
        "error over the 15,116,544 effective assignments is numeric and not decided here",
    )
    led.extra["functions_analysed"] = sorted(om.ev.inline_log)
