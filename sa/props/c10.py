"""C10 — JSON output validates against the official FIRST JSON schema."""

from .. import rules_json as RJ
from .. import rules_lang as RL
from .. import rules_sev as RS

LEVEL = "other"

EXPLANATION = (
    "Abstract interpretation of as_json() for the four (sort, minimal) combinations into an abstract JSON object "
    "(key -> inclusion condition, finite value set or number), then abstract validation against the pinned FIRST "
    "schemas (type, enum, const, required, $ref, allOf/anyOf, minimum/maximum, multipleOf treated mathematically): "
    "every possible value of every emitted key the schema constrains must be admitted and every required key must "
    "always be emitted. vectorString echoes the input, so the accepted language must be included in the schema's "
    "pattern (DFA inclusion). Score range comes from C09.range, the score/severity pairing from the C09 grid tables."
)


def run(ctx):
    led = ctx.ledger
    led.explanation = EXPLANATION
    led.assumptions = [
        "validators evaluate multipleOf mathematically (binary floating point validators are implementation-defined)",
        "keys the schema does not mention are unconstrained (no additionalProperties: false in the FIRST schemas)",
    ]
    n = 0
    from ..rules_parse import RelabelLedger, parse_summary

    for v in (2, 3, 4):
        # vectorString echoes the constructor argument, so the schema's pattern must hold for every
        # *accepted* string: the raw-acceptance facts (prefix literal, untransformed fields, two-way
        # split, table-checked key and value) are discharged here
        keep = ("C04.raw", "C04.prefix", "C04.store.raw", "C04.store.split", "C04.store.key", "C04.store.value", "C04.semantic.overaccept", "C04.semantic.store")
        parse_summary(ctx, v, RelabelLedger(led, "C10.vectorString.accept", keep=keep, strip="C04."))
    for v in (2, 3, 4):
        n += RJ.check_c10(ctx, led, v)
        RS.check_range(ctx, led, v, "C10.range")
        RL.check_accepted_language(ctx, led, v)
    led.require_min("C10.validate", n, 300, "schema obligations (required keys and constrained values over 4 combos)")
    led.undecided("C10.multipleOf", "multipleOf: 0.1 under a validator that tests it in binary floating point")

    # vectorString echoes self.vector: a factory that re-assigns it after construction (from_rh_vector
    # storing the Red Hat string) makes as_json() emit a string outside the schema's pattern
    from ..rules_access import check_foreign_attr_writes

    check_foreign_attr_writes(ctx, ctx.ledger, "C10.vectorString.frozen", ('vector',))

    # as_json() itself: it must return for every accepted vector (there is no document otherwise) and
    # be a function of the object (no cache keyed on ==, no state kept between calls)
    from ..rules_access import check_accessors

    for v_ in (2, 3, 4):
        check_accessors(ctx, ctx.ledger, v_, rules=('total',), prefix="C10.total", only=("as_json",))
