"""C01 — CVSS v3.0/v3.1 scores equal the FIRST specification equations (structural part)."""

from .. import rules_score as RS
from ..canon import Canon
from ..objmodel import metric_slot
from ..rules_parse import parse_summary
from ..terms import ABSENT, App, Const, Fin, P

LEVEL = "other"

EXPLANATION = (
    "Static value-graph analysis: CVSS3.__init__ is abstractly interpreted (parse_vector replaced by its "
    "summary) into one gated expression DAG per score; the DAGs are compared, in exact-rational polynomial "
    "normal form over weight leaves, with the FIRST v3.0/v3.1 equations for every (minor version, Scope, "
    "Modified Scope) case. Decides which formula the program computes, on which weights, rounded where and "
    "how, selected by which guards. Does NOT decide that 28-digit Decimal arithmetic equals exact arithmetic "
    "for the **13/**15 terms (numeric)."
)


def run(ctx):
    led = ctx.ledger
    led.explanation = EXPLANATION
    led.assumptions = [
        "post-parse model: self.metrics maps each accepted metric to one accepted value or is absent (established by C04.store)",
        "Python Decimal semantics for + - * ** min quantize; exactness of the ** terms at precision 28 is not decided",
    ]
    om = RS.get_model(ctx, 3)
    n = RS.check_v3_formula(ctx, led, "C01.formula")
    led.require_min("C01.formula", n, 24, "formula comparisons (2 minors x 2 scopes x 4 MS spellings x 3 scores)")
    nsites, keys = RS.check_leaves(ctx, led, 3, "C01.leaf")
    led.require_min("C01.leaf", nsites, 4, "get_value call sites")
    led.require_min("C01.leaf.keys", len(keys), 16, "distinct weighted metrics")
    # the fill rule is an implementation detail: what the property needs (effective values reach
    # the formulas) is decided by C01.formula / C01.leaf on the actual state
    from ..rules_parse import InfoLedger

    nf = RS.check_v3_fill(ctx, InfoLedger(led), "C01.fill")
    led.require_min("C01.fill", nf, 30, "metric-map entries checked after the fill")
    check_selectors(ctx, led, om)
    RS.check_scores_out(ctx, led, 3, "C01.out")
    RS.check_deps(ctx, led, 3, "C01.deps")
    # inexact Decimal operations: listed, not decided
    pows = set()
    for a in RS.SCORE_ATTRS:
        collect_pows(om.attr(a), pows)
    for p in sorted(pows):
        led.undecided(
            "C01.exact",
            "x ** %d on Decimal is inexact at precision 28; whether the result ever differs from exact arithmetic "
            "across a 0.1 boundary is a numeric question this analysis does not decide" % p,
        )
    led.count("inlined_functions", len(om.ev.inline_log))
    led.extra["functions_analysed"] = sorted(om.ev.inline_log)


def collect_pows(t, out, seen=None):
    seen = seen if seen is not None else set()
    if id(t) in seen:
        return
    seen.add(id(t))
    if isinstance(t, P):
        for a in t.atoms():
            collect_pows(a, out, seen)
    elif isinstance(t, App):
        if t.op == "pow":
            out.add(t.attrs[0])
        for a in t.args:
            collect_pows(a, out, seen)
    elif hasattr(t, "poly"):
        collect_pows(t.poly, out, seen)
    elif hasattr(t, "args"):
        for a in t.args:
            collect_pows(a, out, seen)


def check_selectors(ctx, led, om):
    spec = ctx.vspec(3)
    nd = spec["nd"]
    cn = Canon(om.ev, om.st)
    fo = om.st.folder()
    where = om.module.where(ctx.repo.method("cvss3", "CVSS3", "handle_scope").node)
    s = metric_slot("S")
    ms = metric_slot("MS")
    exp_scope = fo.simplify(Fin((s,), dict(((x,), x) for x in fo.domain(s))))
    led.check(
        cn(om.attr("scope")) == exp_scope,
        "C01.selectors",
        "CVSS3.scope",
        where,
        "self.scope must be the value of S (found %r)" % cn(om.attr("scope")),
    )
    sl, rows = fo.rows((s, ms))
    tab = {}
    for r in rows:
        vs, vms = r[sl.index(s)], r[sl.index(ms)]
        tab[r] = vs if vms in (ABSENT, nd) else vms
    exp_ms = fo.simplify(Fin(sl, tab))
    found = cn(om.attr("modified_scope"))
    led.check(
        found == exp_ms,
        "C01.selectors",
        "CVSS3.modified_scope",
        where,
        "self.modified_scope must be MS when defined and S otherwise; found %s"
        % (found.describe(8) if isinstance(found, Fin) else found),
    )
    summ = parse_summary(ctx, 3)
    mo = spec["minor_of_prefix"]
    for pfx, minor in sorted(summ.get("prefixes", {}).items()):
        led.check(
            mo.get(pfx) == minor,
            "C01.selectors",
            "CVSS3.minor_version[%s]" % pfx,
            om.module.where(ctx.repo.method("cvss3", "CVSS3", "parse_vector").node),
            "prefix %r selects minor version %r, the specification says %r" % (pfx, minor, mo.get(pfx)),
        )
    found = cn(om.attr("minor_version"))
    exp = fo.simplify(Fin(("minor",), dict(((x,), x) for x in fo.domain("minor"))))
    led.check(
        found == exp,
        "C01.selectors",
        "CVSS3.minor_version",
        where,
        "minor_version is modified after parsing (found %r)" % found,
    )
