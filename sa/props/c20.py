"""C20 — identical behaviour on every supported Python (2.7 and 3.6 to 3.13): common-subset analysis."""

import ast
import os
import subprocess

from .. import pycompat as PC
from .. import rules_access as RA
from .. import rules_cli as RC
from .. import rules_json as RJ
from ..rules_score import get_model
from ..srcmodel import REPO, AnalysisError, norm_src, short

LEVEL = "other"

EXPLANATION = (
    "The source is shown to be in the common subset of the declared interpreters and free of the known divergence "
    "patterns: AST feature census against a per-version table, compile-only witness by each installed interpreter "
    "(ast.parse of every module by that interpreter's own grammar; the repository's code is never run), availability of "
    "imported names and called str/dict methods, __future__ imports, explicit object bases, int/int division and "
    "round(), and the typestate 'plain-dict-ordered' (iteration order of a plain dict is arbitrary on 2.7) flowing to "
    "results, output or control decisions. Equality of results across nine runtimes in general is NOT decided."
)

UNICODE_MODULES = ("cvss2", "cvss3", "cvss4", "constants2", "constants3", "constants4", "interactive")


def run(ctx):
    led = ctx.ledger
    led.explanation = EXPLANATION
    led.assumptions = ["text (unicode) inputs; Python 2 byte strings with non-ASCII bytes are outside the model"]
    root = ctx.repo.root
    decl = PC.declared_versions(root)
    supported = sorted(set(decl["classifiers"]))
    led.extra["declared"] = {"classifiers": supported, "tox": sorted(set(decl["tox"]))}
    want = [(2, 7)] + [(3, m) for m in range(6, 14)]
    missing = [v for v in want if v not in supported]
    if missing:
        led.info("C20.declared", "setup.py classifiers", "setup.py", "the project no longer declares %s: the rule set shrinks accordingly" % missing)
    led.ok("C20.declared", "declared support matrix", "setup.py", "%s" % supported)
    py2 = (2, 7) in supported
    py3min = min([v for v in supported if v[0] == 3] or [(3, 6)])
    # ---- syntax census
    n_nodes = 0
    for name, m in sorted(ctx.repo.modules.items()):
        c = PC.Census(m)
        c.visit(m.tree)
        n_nodes += len(list(ast.walk(m.tree)))
        feats = [(f, m.where(n), n) for f, n in c.found] + [(f, "%s:%s" % (m.relpath, ln), None) for f, ln in PC.token_features(m)]
        for feat, where, node in feats:
            first3, on27 = PC.FEATURES[feat]
            bad = []
            if py2 and not on27:
                bad.append("2.7")
            if first3 > py3min:
                bad.append("3.%d-3.%d" % (py3min[1], first3[1] - 1))
            if bad:
                led.violation(
                    "C20.syntax",
                    "%s::%s %s" % (name, feat, short(node, 60) if node is not None else ""),
                    where,
                    "%s is not available on Python %s, which the project declares support for" % (feat, ", ".join(bad)),
                )
        if name in UNICODE_MODULES and py2:
            led.check(
                c.has_unicode_literals,
                "C20.future",
                "%s::from __future__ import unicode_literals" % name,
                m.relpath,
                "module %s no longer imports unicode_literals: on Python 2.7 its string results become byte strings "
                "(mixed with unicode elsewhere)" % name,
            )
    led.count("ast_nodes_censused", n_nodes)
    led.ok("C20.syntax", "feature census", "cvss/", "%d AST nodes in %d modules against %d features" % (n_nodes, len(ctx.repo.modules), len(PC.FEATURES)))
    # ---- names / methods
    n_calls = 0

    def shadowed(m, n, ident):
        """the identifier is bound by the package itself at this point (import, def, assignment,
        parameter): it is then not the builtin of that name"""
        if ident in m.imports or ident in m.assigns or ident in m.functions or ident in m.classes:
            return True
        for a in m.ancestors(n):
            if isinstance(a, (ast.FunctionDef, ast.Lambda)):
                args = a.args
                if any(x.arg == ident for x in args.args + args.kwonlyargs + ([args.vararg] if args.vararg else []) + ([args.kwarg] if args.kwarg else [])):
                    return True
                if isinstance(a, ast.FunctionDef):
                    for x in ast.walk(a):
                        if isinstance(x, ast.Name) and isinstance(x.ctx, ast.Store) and x.id == ident:
                            return True
                        if isinstance(x, (ast.Import, ast.ImportFrom)) and any((al.asname or al.name.split(".")[0]) == ident for al in x.names):
                            return True
                        if isinstance(x, ast.FunctionDef) and x is not a and x.name == ident:
                            return True
        return False

    for name, m in sorted(ctx.repo.modules.items()):
        for n in ast.walk(m.tree):
            if isinstance(n, ast.Attribute) and n.attr in PC.NEW_APIS and PC.NEW_APIS[n.attr] is not None:
                first = PC.NEW_APIS[n.attr]
                n_calls += 1
                if (py2 and first >= (3, 0)) or first > py3min:
                    led.violation(
                        "C20.names",
                        "%s::%s" % (name, short(n)),
                        m.where(n),
                        ".%s exists only from Python %d.%d" % (n.attr, first[0], first[1]),
                    )
            if isinstance(n, ast.Call) and isinstance(n.func, ast.Name):
                n_calls += 1
                if n.func.id in PC.PY3_ONLY_BUILTINS and n.func.id != "exec" and not shadowed(m, n, n.func.id):
                    first = PC.PY3_ONLY_BUILTINS[n.func.id]
                    if py2 or first > py3min:
                        led.violation("C20.names", "%s::%s" % (name, short(n)), m.where(n), "builtin %s exists only from Python %d.%d" % ((n.func.id,) + first))
                if n.func.id == "print" and any(kw.arg == "flush" for kw in n.keywords) and py2:
                    led.violation("C20.names", "%s::%s" % (name, short(n)), m.where(n), "print(flush=...) is not available on Python 2.7")
            if isinstance(n, ast.Name) and isinstance(n.ctx, ast.Load) and n.id in PC.PY2_ONLY_BUILTINS and not shadowed(m, n, n.id):
                # allowed only inside a try block whose handler catches NameError (fallback idiom)
                ok = False
                for a in m.ancestors(n):
                    if isinstance(a, ast.Try) and any("NameError" in PC_names(h) for h in a.handlers):
                        ok = True
                led.check(ok, "C20.names", "%s::%s" % (name, n.id), m.where(n), "Python-2-only builtin %s used without a NameError fallback" % n.id)
            if isinstance(n, (ast.Import, ast.ImportFrom)):
                mods = [al.name for al in n.names] if isinstance(n, ast.Import) else [(n.module or "") + "." + al.name for al in n.names]
                if isinstance(n, ast.ImportFrom) and n.level > 0:
                    continue
                for dotted in mods:
                    for key, first in PC.NEW_NAMES.items():
                        if dotted == key or dotted.startswith(key + ".") or dotted.split(".")[0] == key:
                            if first >= (3, 0) and (py2 or first > py3min):
                                guarded = any(isinstance(a, ast.Try) for a in m.ancestors(n))
                                led.check(
                                    guarded,
                                    "C20.names",
                                    "%s::import %s" % (name, dotted),
                                    m.where(n),
                                    "%s exists only from Python %d.%d" % (dotted, first[0], first[1]),
                                )
            # indexing / len() of views that are lists on Python 2 only
            if isinstance(n, ast.Subscript) and isinstance(n.value, ast.Call) and isinstance(n.value.func, ast.Attribute) and n.value.func.attr in ("keys", "values", "items"):
                led.violation("C20.names", "%s::%s" % (name, short(n)), m.where(n), "indexing a dict view works on Python 2 only")
            if isinstance(n, ast.Subscript) and isinstance(n.value, ast.Call) and isinstance(n.value.func, ast.Name) and n.value.func.id in ("map", "filter", "zip", "range"):
                led.violation("C20.names", "%s::%s" % (name, short(n)), m.where(n), "indexing %s() works on Python 2 only" % n.value.func.id)
    # keyword arguments that do not exist on every declared interpreter
    for name, m in sorted(ctx.repo.modules.items()):
        for n in ast.walk(m.tree):
            if not isinstance(n, ast.Call):
                continue
            fname = n.func.attr if isinstance(n.func, ast.Attribute) else n.func.id if isinstance(n.func, ast.Name) else None
            table = PC.NEW_KEYWORDS.get(fname)
            if not table:
                continue
            for kw in n.keywords:
                first = table.get(kw.arg)
                if first is None:
                    continue
                n_calls += 1
                if (py2 and first >= (3, 0)) or first > py3min:
                    led.violation(
                        "C20.names",
                        "%s::%s" % (name, short(n)),
                        m.where(n),
                        "keyword argument %s= of %s() exists only from Python %d.%d (TypeError on older declared interpreters)"
                        % (kw.arg, fname, first[0], first[1]),
                    )
    # Python 2: list-comprehension variables leak into the enclosing scope
    if py2:
        for name, m in sorted(ctx.repo.modules.items()):
            for f in m.all_functions():
                comps = [x for x in ast.walk(f.node) if isinstance(x, ast.ListComp) and m.enclosing_function(x) is f.node]
                for lc in comps:
                    inside = set(id(x) for x in ast.walk(lc))
                    targets = set(t.id for g in lc.generators for t in ast.walk(g.target) if isinstance(t, ast.Name))
                    for t in sorted(targets):
                        # harmful only if the leaked binding reaches a read of the name in this
                        # function scope before the name is rebound (reaching definitions)
                        from ..py2scope import reaching_reads

                        clash = reaching_reads(f.node, lc, t)
                        n_calls += 1
                        if clash:
                            led.violation(
                                "C20.scope",
                                "%s::%s" % (f.qualname, short(lc)),
                                m.where(lc),
                                "the list-comprehension variable %r is also a variable of the enclosing function: on Python 2.7 the "
                                "comprehension overwrites it (comprehension variables leak), on Python 3 it does not" % t,
                            )
    # Python 2: text is `unicode`, not `str` (every module imports unicode_literals, json and the
    # library's own results are unicode): a type test against str alone splits the interpreters
    if py2:
        n_types = 0
        for name, m in sorted(ctx.repo.modules.items()):
            for n in ast.walk(m.tree):
                tested = None
                if isinstance(n, ast.Call) and isinstance(n.func, ast.Name) and n.func.id == "isinstance" and len(n.args) == 2:
                    tested = n.args[1]
                elif isinstance(n, ast.Compare) and isinstance(n.left, ast.Call) and isinstance(n.left.func, ast.Name) and n.left.func.id == "type" and len(n.comparators) == 1:
                    tested = n.comparators[0]
                if tested is None:
                    continue
                n_types += 1
                alts = set(x.id for x in ast.walk(tested) if isinstance(x, ast.Name))
                if alts & {"str", "bytes"} and not (alts & {"unicode", "basestring", "string_types", "text_type"}):
                    led.violation(
                        "C20.types",
                        "%s::%s" % (name, short(n)),
                        m.where(n),
                        "type test against %s only: on Python 2.7 text values are `unicode` (unicode_literals, json, the library's own "
                        "results), so the test gives a different answer there than on Python 3" % sorted(alts & {"str", "bytes"}),
                    )
        led.ok("C20.types", "type-test census", "cvss/", "%d isinstance()/type() tests, none against str/bytes alone" % n_types)
    # json.dumps(indent=...) without separators=: the default item separator is ", " on Python 2.7
    # (and 3.0-3.3) and "," from 3.4 on, so the printed text has trailing blanks on 2.7 only
    n_json = 0
    for name, m in sorted(ctx.repo.modules.items()):
        for n in ast.walk(m.tree):
            if isinstance(n, ast.Call) and isinstance(n.func, ast.Attribute) and n.func.attr in ("dumps", "dump"):
                if ctx.ce.ext_name(m, n.func) not in ("json.dumps", "json.dump"):
                    continue
                n_json += 1
                kws = dict((kw.arg, kw.value) for kw in n.keywords if kw.arg is not None)
                for kw in n.keywords:
                    if kw.arg is None:
                        # **OPTIONS: a module-level dict literal contributes its keys
                        try:
                            d_ = ctx.ce.eval(m, kw.value, "C20.json")
                        except AnalysisError:
                            d_ = None
                        if isinstance(d_, dict):
                            for k_ in d_:
                                kws[k_] = ast.Constant(value=d_[k_] if isinstance(d_[k_], (int, str, type(None))) else 1)
                        else:
                            led.undecided("C20.json", "keyword arguments of %s at %s come from a mapping that is not a constant" % (short(n), m.where(n)))
                indented = "indent" in kws and not (isinstance(kws["indent"], ast.Constant) and kws["indent"].value is None)
                if py2:
                    led.check(
                        not indented or "separators" in kws,
                        "C20.json",
                        "%s::%s" % (name, short(n)),
                        m.where(n),
                        "json.%s(indent=...) without separators=: Python 2.7 writes ', ' + newline between items (trailing blank), "
                        "Python 3.4+ writes ',' + newline, so the output text differs between the declared interpreters" % n.func.attr,
                    )
    led.count("json_dump_sites", n_json)
    # map()/filter()/zip() return lists on Python 2.7 and one-shot iterators on Python 3: the
    # difference shows when the object is indexed, measured, kept (attribute, module level,
    # container element, return value) or read more than once
    n_lazy = 0
    if py2:
        for name, m in sorted(ctx.repo.modules.items()):
            for node, kind, how in PC.stored_lazy(m, m.tree):
                if kind not in ("map()", "filter()", "zip()"):
                    continue
                n_lazy += 1
                why = None
                if how in ("indexed", "len"):
                    why = "is %s" % ("indexed" if how == "indexed" else "passed to len()")
                else:
                    p = m.parent(node)
                    fn = m.enclosing_function(node)
                    if isinstance(p, ast.Return):
                        why = "is returned to the caller"
                    elif isinstance(p, (ast.Assign, ast.AnnAssign)) and p.value is node:
                        tg = p.targets[0] if isinstance(p, ast.Assign) else p.target
                        if isinstance(tg, ast.Name) and fn is not None:
                            loads = [x for x in ast.walk(fn) if isinstance(x, ast.Name) and x.id == tg.id and isinstance(x.ctx, ast.Load)]
                            def _in_iter(x_, loop_):
                                # the iterable of a for statement is evaluated once, before the loop
                                return isinstance(loop_, ast.For) and any(y_ is x_ for y_ in ast.walk(loop_.iter))

                            in_loop = any(
                                isinstance(a, (ast.For, ast.While)) and not _in_iter(x, a)
                                for x in loads
                                for a in m.ancestors(x)
                                if m.enclosing_function(a) is fn and not any(a2 is a for a2 in m.ancestors(p))
                            )
                            if len(loads) > 1 or in_loop:
                                why = "is bound to %s, which is read more than once" % tg.id
                        elif isinstance(tg, ast.Name):
                            why = "is bound to the module-level name %s" % tg.id if fn is None and any(
                                isinstance(x, ast.Name) and x.id == tg.id and isinstance(x.ctx, ast.Load) for f_ in m.all_functions() for x in ast.walk(f_.node)
                            ) else None
                        else:
                            why = "is stored in %s" % norm_src(tg)
                    else:
                        why = "becomes part of a larger value (%s)" % type(p).__name__
                if why:
                    led.violation(
                        "C20.lazy",
                        "%s::%s" % (name, short(node)),
                        m.where(node),
                        "the result of %s %s: a list on Python 2.7, a one-shot iterator on Python 3 (empty on the second read, no "
                        "len(), no indexing)" % (kind, why),
                    )
    led.count("lazy_iterator_sites", n_lazy)
    # `is` / `is not` between values: whether two equal strings or numbers are one object depends on
    # interning and caches, which differ between interpreter versions and code paths
    n_is = 0
    for name, m in sorted(ctx.repo.modules.items()):
        for n in ast.walk(m.tree):
            if not isinstance(n, ast.Compare) or not any(isinstance(op, (ast.Is, ast.IsNot)) for op in n.ops):
                continue
            n_is += 1
            operands = [n.left] + list(n.comparators)
            for x in operands:
                try:
                    val = ctx.ce.eval(m, x, "C20.identity")
                except AnalysisError:
                    continue
                if val is None or isinstance(val, bool) or val is Ellipsis:
                    continue
                if isinstance(val, (str, int, float, tuple)) or type(val).__name__ in ("Dec", "Flt", "Num"):
                    led.violation(
                        "C20.identity",
                        "%s::%s" % (name, short(n)),
                        m.where(n),
                        "identity test against the value %r: equal strings / numbers are the same object only where the interpreter "
                        "happens to intern or cache them (differs between versions and between a literal and a parsed value)" % (val if not hasattr(val, "q") else str(val),),
                    )
                    break
    led.count("identity_tests", n_is)
    # Python 2 does not derive != from __eq__: for a class that defines __eq__ without __ne__, `a != b`
    # compares identities there, values on Python 3
    if py2:
        lacking = set()
        for name, m in sorted(ctx.repo.modules.items()):
            for c in m.classes.values():
                if "__eq__" in c.methods and "__ne__" not in c.methods:
                    lacking.add(c.name)
        n_ne = 0
        for name, m in sorted(ctx.repo.modules.items()):
            for f in m.all_functions():
                objs = {}
                for x in ast.walk(f.node):
                    if isinstance(x, ast.Assign) and len(x.targets) == 1 and isinstance(x.targets[0], ast.Name) and isinstance(x.value, (ast.Call, ast.IfExp)):
                        calls = [x.value] if isinstance(x.value, ast.Call) else [y for y in (x.value.body, x.value.orelse) if isinstance(y, ast.Call)]
                        for cl in calls:
                            fn = cl.func
                            cn = None
                            if isinstance(fn, ast.Name):
                                r = ctx.repo.resolve_global(m, fn.id)
                                if r and r[0] == "class":
                                    cn = r[1].name
                            elif isinstance(fn, ast.Attribute) and fn.attr == "from_rh_vector":
                                cn = "CVSS"
                            if cn and (cn in lacking or cn == "CVSS"):
                                objs[x.targets[0].id] = cn
                if not objs:
                    continue
                for x in ast.walk(f.node):
                    if isinstance(x, ast.Compare) and any(isinstance(op, ast.NotEq) for op in x.ops):
                        ops_ = [x.left] + list(x.comparators)
                        hit = [o.id for o in ops_ if isinstance(o, ast.Name) and o.id in objs]
                        n_ne += 1
                        if hit:
                            led.violation(
                                "C20.ne",
                                "%s::%s" % (f.qualname, short(x)),
                                m.where(x),
                                "`!=` on a %s object: the class defines __eq__ but no __ne__, so on Python 2.7 the comparison is by "
                                "identity (always true for distinct objects) and by value on Python 3" % objs[hit[0]],
                            )
        led.count("ne_comparisons_in_object_functions", n_ne)
    # regular expressions: Unicode-dependent matching differs between 2.7 and 3.x
    n_rx = 0
    for m, n, pat, flags in PC.regex_calls(ctx):
        n_rx += 1
        if not isinstance(pat, str):
            led.undecided("C20.regex", "pattern of %s at %s is not a constant: its Unicode sensitivity is not decided" % (short(n), m.where(n)))
            continue
        reasons = PC.unicode_sensitive(pat, flags) if py2 else []
        led.check(
            not reasons,
            "C20.regex",
            "%s::%s" % (m.name, short(n)),
            m.where(n),
            "the pattern matches differently on the declared interpreters: %s" % "; ".join(reasons),
        )
        if any(x in pat for x in ("\\d", "\\w", "\\s", "\\b", "\\D", "\\W", "\\S", "\\B")):
            led.info(
                "C20.regex.classes",
                "%s::%s" % (m.name, short(n)),
                m.where(n),
                "class escapes (\\d, \\w, ...) are Unicode-aware on Python 3 and ASCII-only on 2.7; whether the difference can reach a result "
                "depends on what follows the match and is not decided here",
            )
    led.count("regex_sites", n_rx)
    led.ok("C20.names", "API census", "cvss/", "%d call/attribute sites checked against the availability tables" % n_calls)
    # fallbacks present
    # the builtin input() evaluates what it reads on Python 2.7: every reference to it must be the
    # fallback of a raw_input selection (except NameError after a try that names raw_input, or
    # the default of getattr(<builtins>, "raw_input", ...)) - decided per reference, whatever the
    # selection is wrapped in
    n_in = 0
    for name, m in sorted(ctx.repo.modules.items()):
        if any(isinstance(d, (ast.FunctionDef, ast.ClassDef)) and d.name == "input" for d in m.tree.body):
            continue  # the package's own input()
        for n in ast.walk(m.tree):
            is_ref = (isinstance(n, ast.Name) and n.id == "input" and isinstance(n.ctx, ast.Load)) or (
                isinstance(n, ast.Attribute) and n.attr == "input" and isinstance(n.ctx, ast.Load) and isinstance(n.value, ast.Name) and "builtin" in n.value.id
            )
            if not is_ref:
                continue
            n_in += 1
            ok = False
            child, p = n, m.parent(n)
            while p is not None and not ok:
                if isinstance(p, ast.ExceptHandler):
                    names = [x.id for x in ast.walk(p.type) if isinstance(x, ast.Name)] if p.type is not None else ["NameError"]
                    t = m.parent(p)
                    if isinstance(t, ast.Try) and ("NameError" in names or "Exception" in names) and any(
                        isinstance(x, ast.Name) and x.id == "raw_input" for b in t.body for x in ast.walk(b)
                    ):
                        ok = True
                if isinstance(p, ast.Call) and isinstance(p.func, ast.Name) and p.func.id == "getattr" and len(p.args) == 3 and p.args[2] is child:
                    if isinstance(p.args[1], ast.Constant) and p.args[1].value == "raw_input":
                        ok = True
                child, p = p, m.parent(p)
            led.check(
                ok or not py2,
                "C20.names.fallback",
                "%s::%s" % (name, short(m.parent(n)) if m.parent(n) is not None else "input"),
                m.where(n),
                "the builtin input is used without a raw_input selection in front of it: on Python 2.7 input() evaluates the text it reads",
            )
    led.count("input_references", n_in)
    # ---- division / round
    n_div = 0
    for name, m in sorted(ctx.repo.modules.items()):
        cen = PC.Census(m)
        for n in ast.walk(m.tree):
            if isinstance(n, ast.BinOp) and isinstance(n.op, ast.Div):
                n_div += 1
                if int_typed(ctx, m, n.left) and int_typed(ctx, m, n.right) and not cen.has_division and py2:
                    led.violation("C20.division", "%s::%s" % (name, short(n)), m.where(n), "int / int floors on Python 2.7 and is true division on Python 3")
            if isinstance(n, ast.Call) and isinstance(n.func, ast.Name) and n.func.id == "round":
                led.violation("C20.division", "%s::%s" % (name, short(n)), m.where(n), "round() rounds half away from zero on 2.7 and half to even on 3.x")
            if isinstance(n, ast.Call) and isinstance(n.func, ast.Name) and n.func.id == "sorted":
                pass
    for v in (2, 3, 4):
        om = get_model(ctx, v)
        for e in om.events():
            if e.kind == "int_division" and py2:
                mod = e.module
                cen = PC.Census(mod)
                if not cen.has_division:
                    led.violation(
                        "C20.division",
                        "%s::%s" % (e.func.qualname if e.func else "?", short(e.node)),
                        e.where(),
                        "both operands of / are integers on this path: floor division on Python 2.7",
                    )
    led.ok("C20.division", "division census", "cvss/", "%d '/' operators, operand kinds from the value graphs" % n_div)
    # ---- dict order
    n_order = 0
    for v in (2, 3, 4):
        om = get_model(ctx, v)
        RA.check_accessors(ctx, _Null(), v, rules=())  # evaluate every accessor once (events)
        seen = set()
        for e in om.events():
            if e.kind == "unorderable_compare" and py2:
                key = (e.where(), "cmp")
                if key not in seen:
                    seen.add(key)
                    led.violation(
                        "C20.compare",
                        "%s::%s" % (e.func.qualname if e.func else "?", short(e.node)),
                        e.where(),
                        "%s: Python 3 raises TypeError here, Python 2.7 orders such operands by an arbitrary rule and goes on - whatever "
                        "follows (a handler, a default) the two families of interpreters take different paths" % e.data.get("what"),
                    )
            if e.kind == "plain_dict_iter" and py2:
                key = (e.where(), e.data.get("what"))
                if key in seen:
                    continue
                seen.add(key)
                n_order += 1
                led.violation(
                    "C20.order",
                    "%s::%s" % (e.func.qualname if e.func else "?", short(e.node)),
                    e.where(),
                    "%s: the order is arbitrary on Python 2.7 and reaches a result" % e.data.get("what"),
                )
        maps = RJ.json_maps(ctx, v)
        f = ctx.repo.method(om.modname, om.clsname, "as_json")
        res = maps.get((False, False))
        if res is not None and py2:
            o = res[0]
            n_order += 1
            led.check(
                o.ordered,
                "C20.order",
                "%s.%s.as_json::returns a plain dict when sort=False" % (om.modname, om.clsname),
                om.module.where(f.node),
                "as_json(sort=False) returns a plain dict: its key order on Python 2.7 is arbitrary and differs from 3.x "
                "(JSON key order is part of the promised identical behaviour)",
            )
    # set iteration order differs between interpreters (and hash seeds) as well
    from .. import rules_global as RG

    class _Relabel(object):
        def __getattr__(self_, name):
            return lambda *a, **k: True

        def violation(self_, rule, ck, where, what, **kw):
            led.violation("C20.order", ck, where, what + " (set order also differs between interpreters)")

    RG.check_hashorder(ctx, _Relabel())
    # the argparse namespace's __dict__ is a plain dict: iterating it (to find the version flag that
    # was given) follows an arbitrary order on Python 2.7.  Read off the interpretation of main().
    from ..rules_cli_sem import CliSemantics

    cs = CliSemantics(ctx)
    n_order += 1
    if py2:
        hits = [e for e in cs.events if e.kind == "plain_dict_iter" and e.module is not None and e.module.name == "cvss_calculator"]
        for e in hits[:2]:
            led.violation(
                "C20.order",
                "cvss_calculator.main::%s" % short(e.node),
                e.where(),
                "main() iterates a plain dict (%s): on Python 2.7 the order is arbitrary, e.g. the version taken from the first "
                "truthy entry of args.__dict__ can be 'json' for `-2 -j -v ...`, fall back to 3.1 and score with CVSS3" % (e.data.get("what") or "vars(args)"),
            )
        if not hits:
            led.ok("C20.order", "cvss_calculator.main::namespace", "cvss/cvss_calculator.py", "main() never iterates the argparse namespace or another plain dict")
    # ---- keyword arguments reach the callee as a plain dict before Python 3.6 (PEP 468): an
    # ordered mapping built from two or more keywords (or **mapping) has an arbitrary key order there
    pre36 = any(v < (3, 6) for v in supported)
    n_kw = 0
    for name, m in sorted(ctx.repo.modules.items()):
        for n in ast.walk(m.tree):
            if not isinstance(n, ast.Call):
                continue
            fn = n.func
            callee = fn.id if isinstance(fn, ast.Name) else fn.attr if isinstance(fn, ast.Attribute) else None
            if callee != "OrderedDict":
                continue
            n_kw += 1
            named = [k for k in n.keywords if k.arg is not None]
            star = [k for k in n.keywords if k.arg is None]
            bad_kw = len(named) >= 2 or (star and not isinstance(star[0].value, ast.Name) and False) or (star and len(named) >= 1)
            led.check(
                not (bad_kw and pre36),
                "C20.order.kwargs",
                "%s::%s" % (name, short(n)),
                m.where(n),
                "OrderedDict(%s) takes its entries from keyword arguments: before Python 3.6 they arrive as a plain dict, so the key order "
                "differs from 3.6+" % ", ".join("%s=..." % k.arg for k in named[:3]),
            )
    led.count("ordereddict_constructions", n_kw)
    # ---- compile-only witness per installed interpreter
    paths = [m.path for _, m in sorted(ctx.repo.modules.items())]
    interps = PC.interpreters()
    tested = []
    for vname, exe in interps:
        parts = tuple(int(x) for x in vname.split(".")[:2])
        if parts not in supported:
            continue
        bad, err = PC.compile_only(exe, paths)
        if bad is None:
            led.info("C20.compile", "interpreter %s" % vname, exe, "could not run the parser: %s" % err)
            continue
        tested.append(vname)
        led.check(
            not bad,
            "C20.compile",
            "parse by CPython %s" % vname,
            exe,
            "CPython %s cannot parse: %s" % (vname, "; ".join(bad[:2])),
        )
    led.extra["interpreters_used_as_parsers"] = tested
    led.require_min("C20.syntax", n_nodes, 5000, "AST nodes censused")
    led.require_min("C20.order", n_order, 1, "plain-dict-order obligations")
    led.undecided("C20.runtime", "equality of results across nine runtimes in general (needs execution); Python 2 byte strings with non-ASCII bytes")


def int_typed(ctx, m, n, depth=0):
    """Is the expression an int on every interpreter (so that `/` floors on Python 2.7)?  Literal
    ints, len()/int()/ord(), int arithmetic closed under + - * // %, int ** non-negative int, and
    names of module-level constants that fold to an int."""
    if depth > 6:
        return False
    if literal_int(n):
        return True
    if isinstance(n, ast.UnaryOp) and isinstance(n.op, (ast.USub, ast.UAdd)):
        return int_typed(ctx, m, n.operand, depth + 1)
    if isinstance(n, ast.BinOp):
        if isinstance(n.op, (ast.Add, ast.Sub, ast.Mult, ast.FloorDiv, ast.Mod)):
            return int_typed(ctx, m, n.left, depth + 1) and int_typed(ctx, m, n.right, depth + 1)
        if isinstance(n.op, ast.Pow) and int_typed(ctx, m, n.left, depth + 1):
            e = n.right
            return isinstance(e, ast.Constant) and isinstance(e.value, int) and not isinstance(e.value, bool) and e.value >= 0
        return False
    if isinstance(n, ast.Name):
        r = ctx.repo.resolve_global(m, n.id)
        fn = m.enclosing_function(n)
        shadowed = False
        while fn is not None and not shadowed:
            a = fn.args
            names = set(x.arg for x in a.posonlyargs + a.args + a.kwonlyargs) | set(x.arg for x in (a.vararg, a.kwarg) if x)
            names |= set(x.id for x in ast.walk(fn) if isinstance(x, ast.Name) and isinstance(x.ctx, ast.Store))
            shadowed = n.id in names
            fn = m.enclosing_function(fn)
        if r is not None and r[0] == "value" and not shadowed:
            try:
                v = ctx.ce.eval(r[1], r[2], "C20.division")
            except AnalysisError:
                return False
            return isinstance(v, int) and not isinstance(v, bool)
    return False


def literal_int(n):
    if isinstance(n, ast.Constant) and isinstance(n.value, int) and not isinstance(n.value, bool):
        return True
    if isinstance(n, ast.Call) and isinstance(n.func, ast.Name) and n.func.id in ("len", "int"):
        return True
    return False


def PC_names(h):
    if h.type is None:
        return ["*"]
    if isinstance(h.type, ast.Tuple):
        return [norm_src(e) for e in h.type.elts]
    return [norm_src(h.type)]


class _Null(object):
    def __getattr__(self, name):
        return lambda *a, **k: True
