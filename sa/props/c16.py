"""C16 — the interactive builder returns exactly the answered, valid vector."""

from .. import rules_inter as RI

LEVEL = "other"

EXPLANATION = (
    "Abstract interpretation of ask_interactively for every supported version argument (2, 3, 3.0, 3.1, 4, 4.0, and an "
    "unsupported one) and both values of all_metrics, with every read of the user's answer replaced by a fresh symbol "
    "ranging over a finite set of representative answers (every legal value of the version in five letter-case and three "
    "padding variants, doubled, truncated and suffixed forms, the empty string, blanks and junk). The retry loop is "
    "summarised by one symbolic iteration: paths that ask again must leave every object unchanged and a probe iteration "
    "must not read anything a rejected iteration bound; the break / return paths give, per metric, the set of accepted "
    "answers and the text appended. The returned value is a concatenation of constants and per-answer tables; its "
    "canonical form is compared with the specification's (prefix of the version, one field per asked metric, accepted "
    "answers = case-insensitive legal values and the empty answer where Not Defined is legal, appended text = the "
    "specification's spelling). No call-graph cycle is reachable from the builder (re-asking is iteration). The idiom "
    "rules of the earlier structural analysis are kept as an informational cross-check and decide only if the builder "
    "cannot be interpreted."
)


def run(ctx):
    led = ctx.ledger
    led.explanation = EXPLANATION
    led.assumptions = [
        "str.strip/upper/lower semantics",
        "answers outside the representative set behave like one of its members (decision on representatives, not a proof over all strings)",
        "whitespace-padded answers may be accepted (as their stripped form) or rejected: the property does not say",
    ]
    n = RI.check_c16(ctx, led) or 0
    led.require_min("C16.semantic", n, 5000, "(metric, representative answer) pairs decided")
