"""C16 — the interactive builder returns exactly the answered, valid vector."""

from .. import rules_inter as RI

LEVEL = "proof"

EXPLANATION = (
    "Structural analysis of ask_interactively: decision tables of the version switches (constants module, Not Defined "
    "token for an empty answer, prefix) over the four supported versions; the outer loop asks all metric keys or the "
    "mandatory list; the inner `while True` loop has a single exit, a break right after the only append, both dominated "
    "by the legality test of the normalised answer in the metric's value table; table agreement between the builder's "
    "value sets and the parser's; every legal value is in the image of the answer normaliser (typestate 'case-normalised "
    "string') and the appended text is the table's spelling."
)


def run(ctx):
    led = ctx.ledger
    led.explanation = EXPLANATION
    led.assumptions = ["str.strip/upper/lower semantics", "the parser accepts table-spelled values (C04.tables)"]
    n = RI.check_c16(ctx, led) or 0
    led.require_min("C16.reach", n, 150, "legal values examined for reachability")
