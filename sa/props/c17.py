"""C17 — the command-line calculator reports what the library computes and never crashes."""

from .. import rules_cli as RC

LEVEL = "other"

EXPLANATION = (
    "Structural analysis of cvss_calculator.main: census of the add_argument calls; the version-selection expression "
    "evaluated as a decision table over all 2^7 truthiness assignments of the options (iteration order resolved "
    "statically); version -> class / heading / ratings decision tables over the attainable versions; exception "
    "containment (constructor inside try/except CVSSError that prints the message, interactive entry inside "
    "try/except (KeyboardInterrupt, EOFError), slot subscripts protected against IndexError); provenance of every "
    "printed value (scores()[i] with severities()[i], clean_vector(), rh_vector(), json.dumps(as_json(sort=True, "
    "minimal=True)) of the same object under -j)."
)


def run(ctx):
    led = ctx.ledger
    led.explanation = EXPLANATION
    led.assumptions = [
        "CPython >= 3.6 dict insertion order when the selection iterates args.__dict__ (the 2.7 order dependence is C20's matter)",
        "argparse's own messages and rejected argv are outside the modelled code",
        "accessors are total (C18)",
    ]
    rows, summ = RC.check_c17(ctx, led)
    # interactive entry is the builder: what main() scores without -v is the string it returns, an
    # exception it lets out is a traceback of the calculator, and end of input must surface as
    # EOFError (the only thing main() catches around it)
    from ..rules_inter import check_c16
    from ..rules_parse import RelabelLedger

    check_c16(ctx, RelabelLedger(led, "C17.interactive", strip="C16."))
    RC.check_eof_source(ctx, led)
    led.require_min("C17.version", rows, 64, "truth-table rows of the version selection")
    led.undecided("C17.argparse", "text produced by argparse itself and argv that argparse rejects")
