"""C17 — the command-line calculator reports what the library computes and never crashes."""

from .. import rules_cli as RC

LEVEL = "other"

EXPLANATION = (
    "Semantic analysis of cvss_calculator.main over symbolic command lines: main() is interpreted abstractly (exceptions "
    "as control flow, path splitting where values of different shape meet) with argparse replaced by its specification "
    "for the listed options (-2/-3/-4/-a/-n/-j absent or given, -v absent / empty / a valid / an invalid vector; anything "
    "argparse could use to reject or re-read such a command line is a finding), the CVSSn constructors and the builder "
    "by tokens, the accessors of the constructed object by opaque API values, print / json.dumps / sys.exit by "
    "recorders, and the interactive input ending normally, with EOFError or with KeyboardInterrupt. For each of the 768 "
    "command lines x endings the value graph is evaluated: nothing leaves main(), no non-zero exit, the class (and the "
    "version asked interactively) is one the flags select, -a reaches the builder, every score slot of the class is "
    "printed verbatim with its rating for v3/v4, clean_vector() and rh_vector() with default arguments, JSON of "
    "as_json(sort=True, minimal=True) exactly with -j, the library's exception for an invalid vector. The interactive "
    "builder itself is C16's analysis, discharged here."
)


def run(ctx):
    led = ctx.ledger
    led.explanation = EXPLANATION
    led.assumptions = [
        "CPython >= 3.6 dict insertion order when the selection iterates args.__dict__ (the 2.7 order dependence is C20's matter)",
        "argparse's own messages and rejected argv are outside the modelled code",
        "accessors are total (C18)",
    ]
    # the semantic analysis over symbolic command lines decides; the idiom rules (one way of writing
    # main()) are then an informational cross-check.  When main() cannot be interpreted the check
    # stops as undecided (exit 2): neither the silence nor the complaints of the idiom rules decide.
    from ..rules_cli_sem import check_cli_semantics
    from ..rules_parse import InfoLedger
    from ..srcmodel import AnalysisError

    rows = check_cli_semantics(ctx, led)
    try:
        RC.check_c17(ctx, InfoLedger(led))
    except AnalysisError as e:
        led.info("C17.idioms", "cvss_calculator.main", "cvss/cvss_calculator.py", "idiom rules not applicable: %s" % e.message)
    # interactive entry is the builder: what main() scores without -v is the string it returns, an
    # exception it lets out is a traceback of the calculator, and end of input must surface as
    # EOFError (the only thing main() catches around it)
    from ..rules_inter import check_c16
    from ..rules_parse import RelabelLedger

    check_c16(ctx, RelabelLedger(led, "C17.interactive", strip="C16."))
    RC.check_eof_source(ctx, led)
    led.require_min("C17.sem", rows, 700, "command lines x input endings decided")
    led.undecided("C17.argparse", "text produced by argparse itself and argv that argparse rejects")
