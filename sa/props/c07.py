"""C07 — clean_vector() is a canonical form; equality and hash are consistent with it."""

from .. import rules_out as RO

LEVEL = "proof"

EXPLANATION = (
    "Abstract interpretation of clean_vector(), __eq__ and __hash__ on the abstract post-construction state: the "
    "cleaned vector is prefix + '/'.join of one guarded field per accepted metric in a constant table order, the guard "
    "of each field is exactly 'given and not Not Defined', the field text is the stored pair; mandatory fields are "
    "always emitted and the prefix is one the parser maps back to the same minor version (re-parse composition with the "
    "C04 acceptance facts); == is isinstance(own class) and equality of the default clean_vector() of both operands, "
    "hash is hash of the same key."
)


def run(ctx):
    led = ctx.ledger
    led.explanation = EXPLANATION
    led.assumptions = ["C04 acceptance facts (stored pairs are legal, each key once)", "str equality/hash semantics of Python"]
    n = 0
    for v in (2, 3, 4):
        emitted = RO.check_clean_vector(ctx, led, v, "C07")
        RO.check_reparse(ctx, led, v, emitted)
        RO.check_eq_hash(ctx, led, v)
        # "re-parsing it yields ... the same scores": clean_vector() drops Not Defined metrics, so
        # every score (and its None-ness) must be the same for a metric absent and Not Defined
        from ..rules_flow import check_nd

        check_nd(ctx, led, v, rule="C07.reparse.nd")
        # clean_vector(), == and hash are functions of the object: no call may change what a later
        # call of them returns
        from ..rules_access import check_accessors

        check_accessors(ctx, led, v, rules=("pure",), prefix="C07.pure", only=("clean_vector", "__eq__", "__hash__"))
        for label, (seen, val, st) in emitted.items():
            n += len(seen)
    led.require_min("C07.emit", n, 100, "emitted fields analysed (14 + 2x22 + 2x32)")
