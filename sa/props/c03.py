"""C03 — CVSS v2 scores equal the guide's equations (structural part + None-ness rule)."""

from .. import rules_score as RS

LEVEL = "other"

EXPLANATION = (
    "Static value-graph analysis: CVSS2.__init__ is abstractly interpreted into one gated expression DAG per "
    "score (None-ness guard included) and compared, in exact-rational polynomial normal form over weight "
    "leaves, with the CVSS v2 guide equations; weights are compared as exact rationals with spec/v2.json."
)


def run(ctx):
    led = ctx.ledger
    led.explanation = EXPLANATION
    led.assumptions = [
        "post-parse model: self.metrics maps each accepted metric to one accepted value or is absent (C04.store)",
        "Python Decimal semantics for + - * min max quantize",
    ]
    om = RS.get_model(ctx, 2)
    n = RS.check_v2_formula(ctx, led, "C03.formula")
    led.require_min("C03.formula", n, 3, "formula comparisons")
    nsites, keys = RS.check_leaves(ctx, led, 2, "C03.leaf")
    led.require_min("C03.leaf", nsites, 3, "get_value call sites")
    led.require_min("C03.leaf.keys", len(keys), 11, "distinct weighted metrics")
    RS.check_scores_out(ctx, led, 2, "C03.out")
    RS.check_deps(ctx, led, 2, "C03.deps")
    # exactness: every Decimal +,-,* in the v2 graphs is exact at precision 28, so the structural
    # identity is the numeric identity (under any ambient rounding mode)
    from ..absnum import Bounds, Digits
    from ..terms import App, Const

    dg = Digits(Bounds(om.ev, om.st))
    worst_frac = 0
    unknown = False
    for a in RS.SCORE_ATTRS:
        t = om.attr(a)
        arms = [t]
        if isinstance(t, App) and t.op == "ite":
            arms = [x for x in t.args[1:] if not (isinstance(x, Const) and x.v is None)]
        for arm in arms:
            d = dg.frac(arm if not isinstance(arm, Const) else arm)
            if d is None:
                unknown = True
    # fractional digits of every intermediate are bounded by the largest monomial digit sum met;
    # |intermediate| < 1000 for every v2 sub-expression (weights <= 20, at most 3 integer digits)
    worst = max([dg.worst] + [0])
    if dg.inexact or unknown:
        led.undecided("C03.exact", "an operation whose exactness is not established occurs in the v2 graphs: %s" % (dg.inexact[:2] or "unbounded digits"))
    else:
        led.check(
            worst + 2 <= 28,
            "C03.exact",
            "CVSS2 score graphs: significant digits of any intermediate",
            "cvss/cvss2.py",
            "a Decimal operation may need %d significant digits (> 28): results can depend on the ambient context" % (worst + 2),
            detail="at most %d significant digits (+2 slack for intermediates) <= 28" % worst,
        )
    led.count("inlined_functions", len(om.ev.inline_log))
    led.extra["functions_analysed"] = sorted(om.ev.inline_log)
