"""C03 — CVSS v2 scores equal the guide's equations (structural part + None-ness rule)."""

from .. import rules_score as RS

LEVEL = "other"

EXPLANATION = (
    "Static value-graph analysis: CVSS2.__init__ is abstractly interpreted into one gated expression DAG per "
    "score (None-ness guard included) and compared, in exact-rational polynomial normal form over weight "
    "leaves, with the CVSS v2 guide equations; weights are compared as exact rationals with spec/v2.json."
)


def run(ctx):
    led = ctx.ledger
    led.explanation = EXPLANATION
    led.assumptions = [
        "post-parse model: self.metrics maps each accepted metric to one accepted value or is absent (C04.store)",
        "Python Decimal semantics for + - * min max quantize",
    ]
    om = RS.get_model(ctx, 2)
    n = RS.check_v2_formula(ctx, led, "C03.formula")
    led.require_min("C03.formula", n, 3, "formula comparisons")
    nsites, keys = RS.check_leaves(ctx, led, 2, "C03.leaf")
    led.require_min("C03.leaf", nsites, 12, "get_value call sites with literal keys")
    led.require_min("C03.leaf.keys", len(keys), 11, "distinct weighted metrics")
    RS.check_scores_out(ctx, led, 2, "C03.out")
    RS.check_deps(ctx, led, 2, "C03.deps")
    led.count("inlined_functions", len(om.ev.inline_log))
    led.extra["functions_analysed"] = sorted(om.ev.inline_log)
