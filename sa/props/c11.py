"""C11 — JSON output is faithful to the object; sort and minimal only reorder / omit."""

from .. import rules_json as RJ

LEVEL = "proof"

EXPLANATION = (
    "Abstract interpretation of as_json(): vectorString is the constructor argument, version a function of the "
    "version only; every metric key is the table's JSON key (injective) and its value the token of the effective "
    "value (given value, base value for a Not Defined modified metric, NOT_DEFINED otherwise) compared with an "
    "independent name table; score/severity fields depend only on the score of their own slot; sort=True yields the "
    "same items in an ordered mapping with ascending keys; under minimal=True base fields are unconditional and each "
    "optional group is kept as a whole whenever one of its metrics has a defined value (implication decided per metric "
    "by pinning and canonicalising the inclusion condition)."
)


def run(ctx):
    led = ctx.ledger
    led.explanation = EXPLANATION
    led.assumptions = ["self.vector is stored raw (C04.raw)", "v4 value names are compared leniently (swaps / non-injective names only)"]
    n = 0
    for v in (2, 3, 4):
        n += RJ.check_c11(ctx, led, v)
    led.require_min("C11", n, 100, "faithfulness obligations")
