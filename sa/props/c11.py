"""C11 — JSON output is faithful to the object; sort and minimal only reorder / omit."""

from .. import rules_json as RJ

LEVEL = "proof"

EXPLANATION = (
    "Abstract interpretation of as_json(): vectorString is the constructor argument, version a function of the "
    "version only; every metric key is the table's JSON key (injective) and its value the token of the effective "
    "value (given value, base value for a Not Defined modified metric, NOT_DEFINED otherwise) compared with an "
    "independent name table; score/severity fields depend only on the score of their own slot; sort=True yields the "
    "same items in an ordered mapping with ascending keys; under minimal=True base fields are unconditional and each "
    "optional group is kept as a whole whenever one of its metrics has a defined value (implication decided per metric "
    "by pinning and canonicalising the inclusion condition)."
)


def run(ctx):
    led = ctx.ledger
    led.explanation = EXPLANATION
    led.assumptions = ["self.vector is stored raw (C04.raw)", "v4 value names are compared leniently (swaps / non-injective names only)"]
    n = 0
    from fractions import Fraction

    from .. import rules_sev as RS
    from ..rules_parse import RelabelLedger

    for v in (2, 3, 4):
        try:
            n += RJ.check_c11(ctx, led, v)
        except Exception as ex:
            # as_json() could not be interpreted to the end; if it was seen iterating the parsed map
            # in field order, the document depends on how the input was written: that is a finding
            from ..rules_score import get_model

            try:
                om_ = get_model(ctx, v)
                hits = [e for e in om_.ev.events[om_.init_events_end :] if e.kind == "input_order_iter"]
            except Exception:
                hits = []
            from ..srcmodel import short

            for e in hits[:1]:
                led.violation(
                    "C11.order",
                    "%s::%s" % (e.func.qualname if e.func else "?", short(e.node)),
                    e.where(),
                    "as_json() iterates the parsed metric map (%s): which fields it emits then depends on the order in which the "
                    "input listed the metrics, not only on their values" % e.data.get("what"),
                )
            raise
        # "every score or severity field present equals the corresponding defined score and its
        # rating": slot pairing and float(score) (the rules of C09.agree.json, discharged here), and
        # each *Severity key tabulated over the score grid against the official scale
        n_js, tables = RS.check_json_scores(ctx, RelabelLedger(led, "C11.scores", strip="C09.agree.json"), v)
        n += n_js
        spec = ctx.vspec(v)
        for key, table in sorted(tables.items()):
            bad = []
            if any(got is RS.NOT_EVALUATED or got == RS.NOT_EVALUATED for got in table.values()):
                led.undecided("C11.severity", "CVSS%d.as_json[%s]: the field's value graph does not reduce to a constant on the score grid" % (v, key))
                continue
            for q, got in sorted(table.items()):
                lab = RS.official_label(spec, q)
                want = None if lab is None else lab.upper().replace(" ", "_")
                # the spelling of the rating token (LOW / Low) is the schema's matter (C10)
                if (got.upper().replace(" ", "_") if isinstance(got, str) else got) != want:
                    bad.append((float(q), got, want))
            n += 1
            led.check(
                not bad,
                "C11.severity",
                "CVSS%d.as_json[%s] scale" % (v, key),
                "cvss/",
                "%s differs from the rating of its score on %d grid point(s), e.g. score %s -> %r, the scale says %r" % ((key, len(bad)) + (bad[0] if bad else (None, None, None))),
            )
    led.require_min("C11", n, 100, "faithfulness obligations")

    # as_json() itself: it must return for every accepted vector (there is no document otherwise) and
    # be a function of the object (no cache keyed on ==, no state kept between calls)
    from ..rules_access import check_accessors

    for v_ in (2, 3, 4):
        check_accessors(ctx, ctx.ledger, v_, rules=('pure', 'total'), prefix="C11.pure", only=("as_json",))

    # a cache on a method keys on the object's == / hash, i.e. on the cleaned vector: two objects built
    # from differently written strings share an entry, and vectorString identifies only one of them
    from ..ctx import VERSIONS
    from ..rules_access import get_effects

    E = get_effects(ctx)
    for v_ in (2, 3, 4):
        info = VERSIONS[v_]
        q = "%s.as_json" % info["cls"]
        roots = [x for x in E.infos if x == q or x.endswith("." + q) or x.endswith(q)]
        effs = E.effects_of(roots, kinds=("cache",)) if roots else []
        for e in effs[:2]:
            ctx.ledger.violation(
                "C11.pure.cache",
                e.key(),
                e.where(),
                "as_json() of %s goes through a cached function (%s): the cache is keyed on == / hash, which ignore the spelling of the "
                "input, so an equal object built from another string gets this object's fields (vectorString)" % (info["cls"], e.what),
            )
        if not effs:
            ctx.ledger.ok("C11.pure.cache", "%s.as_json" % info["cls"], "cvss/%s.py" % info["mod"], "no caching decorator under as_json()")
