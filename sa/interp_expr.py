"""E5 — expression evaluation part of the abstract interpreter."""

from __future__ import annotations

import ast
from fractions import Fraction

from . import terms as T
from .consteval import NAN, Dec, Flt, Num, TDict, TList, TTuple, is_num, pure_method, qof
from .interp import (
    BUILTINS,
    BoundMeth,
    Choice,
    Builtin,
    ClassVal,
    Dead,
    EnvObj,
    ExtVal,
    FuncVal,
    Inst,
    Interp,
    LambdaVal,
    ListObj,
    MapObj,
    Ref,
    TupleVal,
    ValMeth,
    is_boolish,
    is_numeric,
    mk_and,
    mk_not,
    mk_or,
    same,
    truth_const,
)
from .srcmodel import AnalysisError, short
from .terms import ABSENT, ERR, FALSE, TRUE, App, BoolOp, Cmp, Const, Fin, Opaque, P, Term

CMP_OPS = {ast.Lt: "<", ast.LtE: "<=", ast.Gt: ">", ast.GtE: ">=", ast.Eq: "==", ast.NotEq: "!="}


def is_discrete(v):
    return isinstance(v, (Const, Fin))


def const_int_like(v):
    """Const/Fin whose values are all plain ints."""
    if isinstance(v, Const):
        return isinstance(v.v, int) and not isinstance(v.v, bool)
    if isinstance(v, Fin):
        return all(isinstance(x, int) and not isinstance(x, bool) for x in v.table.values())
    return False


def strish(v):
    if isinstance(v, Const):
        return isinstance(v.v, str)
    if isinstance(v, Fin):
        return all(isinstance(x, str) for x in v.table.values())
    if isinstance(v, Opaque) and v.is_str:
        return True
    return isinstance(v, App) and v.op in ("cat", "join", "str", "fmt")


class ExprMixin(object):
    # ------------------------------------------------------------------ names
    def lookup(self, st, env_ref, name, node, module):
        e = env_ref
        while e is not None:
            env = st.heap[e.id]
            if name in env.vars:
                return env.vars[name]
            e = env.parent
        env = st.heap[env_ref.id]
        mod = env.module
        # a local of the running function that no path so far has bound: UnboundLocalError
        fn_ = env.func
        if fn_ is not None and getattr(self, "split_unjoinable", False):
            locs = self.__dict__.setdefault("_local_names", {})
            key_ = id(fn_.node)
            if key_ not in locs:
                names_ = set()
                stack_ = list(fn_.node.body)
                while stack_:
                    n_ = stack_.pop()
                    if isinstance(n_, (ast.FunctionDef, ast.Lambda, ast.ClassDef)):
                        if isinstance(n_, (ast.FunctionDef, ast.ClassDef)):
                            names_.add(n_.name)
                        continue
                    if isinstance(n_, ast.Name) and isinstance(n_.ctx, ast.Store):
                        names_.add(n_.id)
                    if isinstance(n_, (ast.ListComp, ast.SetComp, ast.DictComp, ast.GeneratorExp)):
                        continue
                    stack_.extend(ast.iter_child_nodes(n_))
                globs_ = set(x for g_ in ast.walk(fn_.node) if isinstance(g_, (ast.Global, ast.Nonlocal)) for x in g_.names)
                locs[key_] = names_ - globs_
            if name in locs[key_]:
                self.hazard(st, "UnboundLocalError", node, module, TRUE, "local variable %s is read on a path that never assigned it" % name)
                raise Dead()
        ov = getattr(self, "global_overrides", None)
        if ov and (mod.name, name) in ov:
            return ov[(mod.name, name)]
        r = self.repo.resolve_global(mod, name)
        if r is not None:
            if r[0] == "func":
                return FuncVal(r[1], None)
            if r[0] == "class":
                return ClassVal(r[1])
            if r[0] == "value":
                defmod = r[1]
                self.ce.consulted.add((defmod.name, self.ce._defname(defmod, r[2])))
                if defmod.name in st.modenvs:
                    menv = st.heap[st.modenvs[defmod.name].id]
                    dn = self.ce._defname(defmod, r[2])
                    if dn in menv.vars:
                        return menv.vars[dn]
                try:
                    if len(defmod.assign_nodes.get(self.ce._defname(defmod, r[2]), [0])) > 1:
                        raise AnalysisError("E5.global", "rebound at module level")
                    if self._module_mutates(defmod, self.ce._defname(defmod, r[2])):
                        raise AnalysisError("E5.global", "mutated at module level")
                    return Const(self.ce.eval(r[1], r[2], "E5.global"))
                except AnalysisError:
                    # a computed table: the reified result of the module's abstract initialisation
                    # when every key and value is a constant ...
                    dn0 = self.ce._defname(defmod, r[2])
                    if dn0:
                        try:
                            return Const(self.ce.table(defmod.name, dn0, "E5.global"))
                        except AnalysisError:
                            pass
                    # ... else the abstract object itself
                    menv_ref = self.module_env(st, defmod)
                    menv = st.heap[menv_ref.id]
                    dn = self.ce._defname(defmod, r[2])
                    if dn in menv.vars:
                        return menv.vars[dn]
                    raise
            if r[0] == "ext":
                return ExtVal(r[1])
            if r[0] == "module":
                return ExtVal("cvss." + r[1].name)
        if name in BUILTINS:
            return Builtin(name)
        if name == "__doc__":
            return Opaque("__doc__")
        raise AnalysisError("E5.name", "unresolved name %s" % name, node, module)

    def _module_mutates(self, module, name):
        """Is the module-level object `name` modified by a top-level statement after its binding?"""
        key = ("mutates", module.name, name)
        cache = self.__dict__.setdefault("_mm_cache", {})
        if key not in cache:
            hit = False
            for stmt in module.tree.body:
                for n in ast.walk(stmt) if not isinstance(stmt, (ast.FunctionDef, ast.ClassDef)) else []:
                    if isinstance(n, (ast.Subscript, ast.Attribute)) and isinstance(n.ctx, (ast.Store, ast.Del)):
                        b = n.value
                        while isinstance(b, (ast.Subscript, ast.Attribute)):
                            b = b.value
                        if isinstance(b, ast.Name) and b.id == name:
                            hit = True
                    if isinstance(n, ast.Call) and isinstance(n.func, ast.Attribute) and isinstance(n.func.value, ast.Name) and n.func.value.id == name and n.func.attr in ("update", "append", "extend", "setdefault", "pop", "insert", "clear", "remove"):
                        hit = True
            cache[key] = hit
        return cache[key]

    # ------------------------------------------------------------------ eval
    def eval(self, st, env, node):
        module = st.heap[env.id].module
        m = getattr(self, "e_" + type(node).__name__, None)
        if m is None:
            raise AnalysisError("E5.expr", "unsupported expression %s" % type(node).__name__, node, module)
        return m(st, env, node, module)

    def e_Constant(self, st, env, node, module):
        return Const(self.ce.eval(module, node, "E5.const"))

    def e_Name(self, st, env, node, module):
        v = self.lookup(st, env, node.id, node, module)
        return self.simp(st, v)

    def e_Tuple(self, st, env, node, module):
        return TupleVal([self.eval(st, env, e) for e in node.elts])

    def e_List(self, st, env, node, module):
        return self.alloc(st, ListObj([(TRUE, self.eval(st, env, e)) for e in node.elts]))

    def e_Dict(self, st, env, node, module):
        m = MapObj(False, "dict")
        for k, v in zip(node.keys, node.values):
            if k is None:
                raise AnalysisError("E5.expr", "dict unpacking", node, module)
            kv = self.eval(st, env, k)
            if not isinstance(kv, Const):
                raise AnalysisError("E5.expr", "non-constant dict literal key", k, module)
            m.set(kv.v, TRUE, self.eval(st, env, v))
        return self.alloc(st, m)

    def e_JoinedStr(self, st, env, node, module):
        self.event("fstring", node, module, st)
        parts = []
        for v in node.values:
            if isinstance(v, ast.Constant):
                parts.append(Const(v.value))
            else:
                parts.append(self.to_str(st, self.eval(st, env, v.value), node, module))
        return self.cat(st, parts)

    def e_Attribute(self, st, env, node, module):
        base = self.eval(st, env, node.value)
        return self.simp(st, self.getattr(st, base, node.attr, node, module))

    def class_attr_value(self, cm, cnode):
        """Value of a class-level binding: a constant, or a class / function / external name."""
        if isinstance(cnode, ast.Name):
            r = self.repo.resolve_global(cm, cnode.id)
            if r is not None and r[0] == "class":
                return ClassVal(r[1])
            if r is not None and r[0] == "func":
                return FuncVal(r[1], None)
            if r is not None and r[0] == "ext":
                return ExtVal(r[1])
        return wrap_const(self.ce.eval(cm, cnode, "E5.classattr"))

    def getattr(self, st, base, name, node, module):
        hook = getattr(self, "attr_hook", None)
        if hook is not None:
            r = hook(st, base, name, node, module)
            if r is not None:
                return r
        if isinstance(base, Ref):
            o = st.heap[base.id]
            if o.kind == "inst":
                if name in o.attrs:
                    return o.attrs[name]
                if name in o.cls.methods:
                    f = o.cls.methods[name]
                    if getattr(f, "is_property", False):
                        # a read of a property runs its getter
                        return self.inline(st, f, None, [base], {}, node, module)
                    if f.is_staticmethod:
                        return FuncVal(f, None)
                    if f.is_classmethod:
                        return BoundMeth(ClassVal(o.cls), f)
                    return BoundMeth(base, f)
                if name in o.cls.class_assigns:
                    cm, cnode = o.cls.class_assigns[name]
                    return self.class_attr_value(cm, cnode)
                if name == "__dict__" and hasattr(o.cls, "dict_of"):
                    return o.cls.dict_of(self, st, o)
                if name == "__dict__":
                    self.event("dunder_dict", node, module, st)
                    return Opaque("__dict__")
                if name == "__class__":
                    return ClassVal(o.cls)
                self.hazard(st, "AttributeError", node, module, TRUE, "attribute %s not set" % name)
                raise Dead()
            return ValMeth(base, name)
        if isinstance(base, ClassVal):
            if name in base.cls.methods:
                f = base.cls.methods[name]
                if f.is_classmethod:
                    return BoundMeth(base, f)
                return FuncVal(f, None)
            if name == "__name__":
                return Const(base.cls.name)
            if name in base.cls.class_assigns:
                cm, cnode = base.cls.class_assigns[name]
                return self.class_attr_value(cm, cnode)
            raise AnalysisError("E5.attr", "class attribute %s" % name, node, module)
        if isinstance(base, ExtVal):
            if base.dotted.startswith("cvss.") and base.dotted[5:] in self.repo.modules:
                tm = self.repo.modules[base.dotted[5:]]
                r = self.repo.resolve_global(tm, name)
                if r and r[0] == "value":
                    dn = self.ce._defname(r[1], r[2])
                    self.ce.consulted.add((r[1].name, dn))
                    return Const(self.ce.table(r[1].name, dn, "E5.import") if dn else self.ce.eval(r[1], r[2], "E5.import"))
                if r and r[0] == "func":
                    return FuncVal(r[1], None)
                if r and r[0] == "class":
                    return ClassVal(r[1])
            return ExtVal(base.dotted + "." + name)
        if isinstance(base, Opaque) and not base.is_str:
            # attribute of an unknown object (e.g. the other operand of ==): opaque, but callable
            o = Opaque("attr:%s.%s" % (base.tag, name), set(base.deps) | {"opaque:" + base.tag})
            o.recv = base
            o.attr = name
            return o
        return ValMeth(base, name)

    def e_Subscript(self, st, env, node, module):
        base = self.eval(st, env, node.value)
        if isinstance(node.slice, ast.Slice):
            lo = self.eval(st, env, node.slice.lower) if node.slice.lower else Const(None)
            hi = self.eval(st, env, node.slice.upper) if node.slice.upper else Const(None)
            stp = self.eval(st, env, node.slice.step) if node.slice.step else Const(None)
            return self.do_slice(st, base, lo, hi, stp, node, module)
        idx = self.eval(st, env, node.slice)
        return self.simp(st, self.subscript(st, base, idx, node, module))

    def do_slice(self, st, base, lo, hi, stp, node, module):
        if not all(isinstance(x, Const) for x in (lo, hi, stp)):
            raise AnalysisError("E5.slice", "symbolic slice bounds", node, module)
        sl = slice(lo.v, hi.v, stp.v)
        if is_discrete(base) and strish(base):
            return st.folder().fold(lambda s: s[sl], [base])
        if isinstance(base, Fin) and all(isinstance(x, (tuple, list, str)) for x in base.table.values()):
            return st.folder().fold(lambda s: TTuple(s[sl]) if isinstance(s, (tuple, list)) else s[sl], [base])
        if isinstance(base, Const) and isinstance(base.v, (list, tuple)):
            return Const(TTuple(base.v[sl]) if isinstance(base.v, tuple) else _tlist(base.v[sl]))
        if isinstance(base, TupleVal):
            return TupleVal(base.items[sl])
        if isinstance(base, Ref) and st.heap[base.id].kind == "list":
            o = st.heap[base.id]
            if all(isinstance(g, Const) and truth_const(g.v) for g, _ in o.items):
                return self.alloc(st, ListObj(o.items[sl]))
        if isinstance(base, (Opaque, App)):
            return Opaque("slice", deps_of(base))
        raise AnalysisError("E5.slice", "slice of %r" % (base,), node, module)

    def _lookup_ite(self, st, idx, look):
        """lookup(ITE(c, a, b)) = ITE(c, lookup(a), lookup(b)), each arm under its own assumption."""
        c, a, b = idx.args
        outs = []
        for cond, key in ((c, a), (mk_not(c), b)):
            saved = (dict(st.dom), set(st.facts), list(st.constraints))
            try:
                self.assume(st, cond)
                outs.append(look(key))
            except Dead:
                outs.append(None)
            st.dom, st.facts, st.constraints = saved
        if outs[0] is None and outs[1] is None:
            raise Dead()
        if outs[0] is None:
            self.assume(st, mk_not(c))
            return outs[1]
        if outs[1] is None:
            self.assume(st, c)
            return outs[0]
        return self.mk_ite(st, c, outs[0], outs[1])

    def _int_of(self, idx):
        """p when idx is exactly int(p) of a numeric term, else None."""
        if isinstance(idx, P) and len(idx.terms) == 1:
            ((mono, coef),) = idx.terms.items()
            if coef == 1 and len(mono) == 1 and mono[0][1] == 1 and isinstance(mono[0][0], App) and mono[0][0].op == "int":
                return mono[0][0].args[0]
        if isinstance(idx, P) and idx.kind == "int" and not idx.is_const():
            # an integer-valued term (a count of conditions, a position found by bisect)
            return idx
        return None

    def index_by_int(self, st, items, p, node, module):
        """SEQ[int(p)]: bound p (interval / vertex analysis), report an IndexError hazard when the
        index can leave the sequence, and lower the lookup to a threshold chain over p."""
        from .absnum import Bounds

        r = Bounds(self, st).term(p)
        if r is None or r[0] is None or r[1] is None:
            raise AnalysisError("E5.subscript", "cannot bound the index int(%r)" % (p,), node, module)
        lo, hi = r
        if lo <= -1:
            raise AnalysisError("E5.subscript", "index int(...) may be negative (bounds %s..%s)" % (lo, hi), node, module)
        if lo < 0:
            lo = 0  # int() truncates towards zero: values in (-1, 0) index entry 0
        n = len(items)
        top = int(hi)  # int() truncates; p >= 0 so this is floor
        if top >= n:
            self.hazard(
                st, "IndexError", node, module, T.mk_cmp(">=", p, P.const(n)),
                "index int(x) reaches %d (x is bounded by [%s, %s]) but the sequence has %d entries" % (top, float(lo), float(hi), n),
            )
            top = n - 1
        out = items[top]
        for k in range(top - 1, int(lo) - 1, -1):
            out = self.mk_ite(st, T.mk_cmp("<", p, P.const(k + 1)), items[k], out)
        return out

    def subscript(self, st, base, idx, node, module):
        if isinstance(idx, App) and idx.op == "ite" and not isinstance(base, (TupleVal,)):
            return self._lookup_ite(st, idx, lambda k: self.subscript(st, base, k, node, module))
        ip = self._int_of(idx)
        if ip is not None:
            seq = None
            if isinstance(base, Ref) and st.heap[base.id].kind == "list" and all(isinstance(g, Const) and truth_const(g.v) for g, _ in st.heap[base.id].items):
                seq = [v for _, v in st.heap[base.id].items]
            elif isinstance(base, TupleVal):
                seq = list(base.items)
            elif isinstance(base, Const) and isinstance(base.v, (list, tuple)):
                seq = [wrap_const(e) for e in base.v]
            if seq:
                return self.index_by_int(st, seq, ip, node, module)
        if isinstance(base, Ref):
            o = st.heap[base.id]
            if o.kind == "map":
                return self.map_get(st, o, idx, node, module, strict=True)
            if o.kind == "list":
                if isinstance(idx, Const) and isinstance(idx.v, int):
                    if all(isinstance(g, Const) and truth_const(g.v) for g, _ in o.items):
                        try:
                            return o.items[idx.v][1]
                        except IndexError:
                            self.hazard(st, "IndexError", node, module, TRUE, "list index out of range")
                            raise Dead()
                    if getattr(o, "prefix_closed", False) and idx.v >= 0:
                        # a sequence of statically unknown length whose element k exists exactly
                        # under its guard (each guard implies the previous one)
                        if idx.v >= len(o.items):
                            self.hazard(st, "IndexError", node, module, TRUE, "index out of range")
                            raise Dead()
                        g, v_ = o.items[idx.v]
                        d = self.decide(st, g)
                        if d is False:
                            self.hazard(st, "IndexError", node, module, TRUE, "index out of range")
                            raise Dead()
                        if d is None:
                            self.hazard(st, "IndexError", node, module, mk_not(g), "index %d is out of range for some inputs" % idx.v)
                            self.assume(st, g)
                        return v_
                    if idx.v in (0, -1) and o.items:
                        # first (last) element that is present; IndexError when none is
                        seq = list(o.items) if idx.v == 0 else list(reversed(o.items))
                        anyp = mk_or([g for g, _ in seq])
                        anyp = self.try_fold_bool(st, anyp) if isinstance(anyp, BoolOp) else anyp
                        d = self.decide(st, anyp)
                        if d is False:
                            self.hazard(st, "IndexError", node, module, TRUE, "list index out of range")
                            raise Dead()
                        if d is None:
                            self.hazard(st, "IndexError", node, module, mk_not(anyp), "the list may be empty")
                            self.assume(st, anyp)
                        out = seq[-1][1]
                        for g, v_ in reversed(seq[:-1]):
                            out = self.mk_ite(st, g, v_, out)
                        return out
                if isinstance(idx, Fin) and all(isinstance(g, Const) and truth_const(g.v) for g, _ in o.items):
                    # a discrete index (a table over the inputs): one arm per index value, IndexError
                    # for the values outside the list
                    fo = st.folder()
                    ridx = fo.restrict(idx)
                    if isinstance(ridx, Const):
                        return self.subscript(st, base, ridx, node, module)
                    vals = sorted(set(ridx.table.values()), key=T.ckey)
                    if all(isinstance(i, int) and not isinstance(i, bool) for i in vals):
                        n_ = len(o.items)
                        bad = [i for i in vals if not (-n_ <= i < n_)]
                        if bad:
                            c = fo.fold(lambda x: x in bad, [ridx])
                            self.hazard(st, "IndexError", node, module, c, "list index may be %s for a list of %d entries" % (bad[:4], n_))
                            if len(bad) == len(vals):
                                raise Dead()
                            self.assume(st, mk_not(c))
                            fo = st.folder()
                            ridx = fo.restrict(idx)
                            if isinstance(ridx, Const):
                                return o.items[ridx.v][1]
                        good = [i for i in vals if -n_ <= i < n_]
                        out = o.items[good[-1]][1]
                        for i in reversed(good[:-1]):
                            out = self.mk_ite(st, fo.fold(lambda x, i=i: x == i, [ridx]), o.items[i][1], out)
                        return out
                raise AnalysisError("E5.subscript", "symbolic list indexing", node, module)
        if isinstance(base, TupleVal):
            if isinstance(idx, Const) and isinstance(idx.v, int):
                try:
                    return base.items[idx.v]
                except IndexError:
                    self.hazard(st, "IndexError", node, module, TRUE, "tuple index out of range")
                    raise Dead()
            if isinstance(idx, Fin) and const_int_like(idx):
                r = None
                fo = st.folder()
                vals = sorted(set(fo.restrict(idx).table.values())) if isinstance(fo.restrict(idx), Fin) else None
                if vals is not None:
                    out = None
                    for i in reversed(vals):
                        if not (-len(base.items) <= i < len(base.items)):
                            self.hazard(st, "IndexError", node, module, TRUE, "tuple index may be out of range")
                            continue
                        c = fo.fold(lambda x, i=i: x == i, [idx])
                        out = base.items[i] if out is None else self.mk_ite(st, c, base.items[i], out)
                    return out
            raise AnalysisError("E5.subscript", "symbolic tuple indexing", node, module)
        if isinstance(base, Const) and isinstance(base.v, (dict, list, tuple, str)):
            cont = base.v
            if isinstance(idx, Const):
                try:
                    return wrap_const(cont[idx.v])
                except (KeyError, IndexError, TypeError):
                    self.hazard(
                        st,
                        "KeyError" if isinstance(cont, dict) else "IndexError",
                        node,
                        module,
                        TRUE,
                        "constant subscript %s fails" % short(node),
                    )
                    raise Dead()
            if isinstance(idx, Fin):
                fo = st.folder()
                ridx = fo.restrict(idx)
                if isinstance(ridx, Const):
                    return self.subscript(st, base, ridx, node, module)

                def look(k):
                    try:
                        return cont[k]
                    except (KeyError, IndexError, TypeError):
                        return ERR

                r = fo.fold(look, [ridx])
                errs = fo.fold(lambda k: look(k) is ERR, [ridx])
                if not (isinstance(errs, Const) and not errs.v):
                    self.hazard(
                        st,
                        "KeyError" if isinstance(cont, dict) else "IndexError",
                        node,
                        module,
                        errs,
                        "lookup %s: key may be %s"
                        % (short(node), sorted(str(k[0]) for k, v in ridx.table.items() if look(v) is ERR)),
                    )
                    self.assume(st, mk_not(errs))
                    r = st.folder().restrict(r)
                return r
            if isinstance(idx, App) and idx.op == "cat" and isinstance(cont, dict) and len(cont):
                return self.lookup_cat(st, cont, idx, node, module)
            if isinstance(cont, dict) and len(cont) == 0:
                # a table that is empty at import time (a cache filled at run time: the store is
                # a global_write event, whether its key determines the value is the memo rule's matter)
                self.hazard(st, "KeyError", node, module, TRUE, "lookup %s in an empty table" % short(node))
                raise Dead()
            raise AnalysisError("E5.subscript", "table lookup with key %r" % (idx,), node, module)
        if isinstance(base, Fin) and is_discrete(idx) and all(
            isinstance(x, (dict, list, tuple)) for x in st.folder().restrict(base).table.values()
        ) if isinstance(st.folder().restrict(base), Fin) else False:
            fo = st.folder()

            def look2(cont, k):
                try:
                    return cont[k]
                except (KeyError, IndexError, TypeError):
                    return ERR

            r = fo.fold(look2, [base, idx])
            errs = fo.fold(lambda c, k: look2(c, k) is ERR, [base, idx])
            if not (isinstance(errs, Const) and not errs.v):
                self.hazard(st, "KeyError", node, module, errs, "lookup %s: key may be missing in the selected sub-table" % short(node))
                self.assume(st, mk_not(errs))
                r = st.folder().restrict(r)
            return r
        if isinstance(base, Fin) and strish(base) and is_discrete(idx):
            def ix(s, i):
                try:
                    return s[i]
                except IndexError:
                    return ERR
            return st.folder().fold(ix, [base, idx])
        if isinstance(base, App) and base.op == "cat" and isinstance(idx, Const) and isinstance(idx.v, int):
            return self.cat_index(st, base, idx.v, node, module)
        if isinstance(base, (Opaque,)) or (isinstance(base, App) and base.op in ("split",)):
            return Opaque("item", deps_of(base))
        raise AnalysisError("E5.subscript", "subscript of %r" % (base,), node, module)

    def lookup_cat(self, st, cont, key, node, module):
        """dict lookup with a concatenated key whose pieces are tables: fold over the pieces'
        joint domain."""
        parts = key.args
        if not all(is_discrete(p) for p in parts):
            raise AnalysisError("E5.subscript", "lookup with opaque string key", node, module)
        fo = st.folder()
        if not fo.can_fold(parts):
            raise AnalysisError("E5.subscript", "lookup key space too large", node, module)

        def look(*ps):
            return cont.get("".join(ps), ERR)

        r = fo.fold(look, list(parts))
        errs = fo.fold(lambda *ps: "".join(ps) not in cont, list(parts))
        if not (isinstance(errs, Const) and not errs.v):
            self.hazard(st, "KeyError", node, module, errs, "lookup %s with a key outside the table" % short(node))
            self.assume(st, mk_not(errs))
            r = st.folder().restrict(r)
        return r

    def cat_index(self, st, cat, i, node, module):
        pos = 0
        if i < 0:
            raise AnalysisError("E5.subscript", "negative index into concatenation", node, module)
        for p in cat.args:
            lens = piece_lengths(st, p)
            if lens is None or len(lens) != 1:
                raise AnalysisError("E5.subscript", "index into concatenation of variable-length pieces", node, module)
            n = lens.pop()
            if pos <= i < pos + n:
                if is_discrete(p):
                    return st.folder().fold(lambda s, k=i - pos: s[k], [p])
                raise AnalysisError("E5.subscript", "index into opaque piece", node, module)
            pos += n
        self.hazard(st, "IndexError", node, module, TRUE, "string index out of range")
        raise Dead()

    def map_get(self, st, o, idx, node, module, strict, default=None):
        if isinstance(idx, Fin):
            idx = st.folder().restrict(idx)
        if isinstance(idx, App) and idx.op == "ite":
            return self._lookup_ite(st, idx, lambda k: self.map_get(st, o, k, node, module, strict, default))
        if isinstance(idx, Const):
            k = idx.v
            if strict and o.default_factory is not None:
                # defaultdict.__missing__: a subscript of an absent key *stores* the default
                present, value = o.entries.get(k, (FALSE, None))
                d = self.decide(st, present)
                if d is True:
                    return self.simp(st, value)
                dv = self.call(st, o.default_factory, [], {}, node, module)
                mid = [i for i, ob in st.heap.items() if ob is o]
                self.event("map_mutation", node, module, st, what="defaultdict insert of %r" % (k,), map=mid[0] if mid else None, cond=mk_not(present))
                nv = dv if d is False else self.mk_ite(st, present, value, dv)
                o.set(k, TRUE, nv)
                return self.simp(st, nv)
            if k not in o.entries:
                if strict:
                    self.hazard(st, "KeyError", node, module, TRUE, "key %r never stored" % (k,))
                    raise Dead()
                return default
            present, value = o.entries[k]
            d = self.decide(st, present)
            if strict:
                if d is not True:
                    self.hazard(st, "KeyError", node, module, mk_not(present), "key %r may be absent" % (k,))
                    self.assume(st, present)
                return self.simp(st, value)
            if d is True:
                return self.simp(st, value)
            if d is False:
                return default
            return self.mk_ite(st, present, value, default)
        if isinstance(idx, Fin):
            out = None
            keys = sorted(set(idx.table.values()), key=T.ckey, reverse=True)
            fo = st.folder()
            alive = []
            for k in keys:
                c = fo.fold(lambda x, k=k: x == k, [idx])
                saved = (dict(st.dom), set(st.facts), list(st.constraints))
                try:
                    self.assume(st, c)
                    v = self.map_get(st, o, Const(k), node, module, strict, default)
                except Dead:
                    v = None
                st.dom, st.facts, st.constraints = saved
                if v is None:
                    continue
                alive.append(c)
                out = v if out is None else self.mk_ite(st, c, v, out)
            if out is None:
                raise Dead()
            if len(alive) < len(keys):
                self.assume(st, self.try_fold_bool(st, mk_or(alive)))
            return self.simp(st, out)
        raise AnalysisError("E5.subscript", "map lookup with key %r" % (idx,), node, module)

    # ------------------------------------------------------------------ operators
    def e_UnaryOp(self, st, env, node, module):
        v = self.eval(st, env, node.operand)
        if isinstance(node.op, ast.Not):
            return mk_not(self.truth(st, v, node))
        if isinstance(node.op, ast.USub):
            if const_int_like(v):
                return st.folder().fold(lambda x: -x, [v])
            return T.p_neg(self.to_poly(st, v, node, module))
        if isinstance(node.op, ast.UAdd):
            return v
        raise AnalysisError("E5.expr", "unary operator", node, module)

    def e_BoolOp(self, st, env, node, module):
        is_and = isinstance(node.op, ast.And)
        vals = []
        conds = []
        saved = (dict(st.dom), set(st.facts), list(st.constraints))
        npc = len(st.pc)
        result = None
        try:
            for i, e in enumerate(node.values):
                try:
                    v = self.eval(st, env, e)
                except Dead:
                    if i == 0:
                        raise
                    break
                c = self.truth(st, v, e)
                d = self.decide(st, c)
                vals.append(v)
                conds.append(c)
                if d is not None and (d is (not is_and)):
                    # short-circuit decided here
                    conds[-1] = Const(d)
                    break
                if i < len(node.values) - 1:
                    try:
                        self.assume(st, c if is_and else mk_not(c))
                        st.pc.append(c if is_and else mk_not(c))
                    except Dead:
                        break
        finally:
            del st.pc[npc:]
            st.dom, st.facts, st.constraints = saved
        # value semantics: and -> first falsy else last; or -> first truthy else last.
        # Later operands were evaluated under the assumption that the earlier ones did not
        # short-circuit, so their tables are partial: combine with ITE (row-wise, tolerant).
        allbool = all(is_boolish(v) for v in vals)
        # where only the truth of the result is used (condition of if / while / conditional
        # expression, operand of not / and / or) the operands' own values need not be joined
        par = module.parent(node) if module is not None else None
        cond_ctx = (
            (isinstance(par, (ast.If, ast.While, ast.IfExp, ast.Assert)) and par.test is node)
            or (isinstance(par, ast.UnaryOp) and isinstance(par.op, ast.Not))
            or isinstance(par, ast.BoolOp)
            or (isinstance(par, ast.comprehension) and node in par.ifs)
        )
        if cond_ctx and not allbool:
            allbool = True
        result = conds[-1] if allbool else vals[-1]
        for v, c in reversed(list(zip(vals[:-1], conds[:-1]))):
            if is_and:
                result = self.mk_ite(st, c, result, FALSE if allbool else v)
            else:
                result = self.mk_ite(st, c, TRUE if allbool else v, result)
        return result

    def e_IfExp(self, st, env, node, module):
        c = self.truth(st, self.eval(st, env, node.test), node.test)
        d = self.decide(st, c)
        if d is True:
            return self.eval(st, env, node.body)
        if d is False:
            return self.eval(st, env, node.orelse)
        saved = (dict(st.dom), set(st.facts), list(st.constraints))
        a = b = None
        # the branch condition is part of the path of whatever the branch raises or records
        npc = len(st.pc)
        try:
            self.assume(st, c)
            st.pc.append(c)
            a = self.eval(st, env, node.body)
        except Dead:
            a = None
        del st.pc[npc:]
        st.dom, st.facts, st.constraints = (dict(saved[0]), set(saved[1]), list(saved[2]))
        try:
            nc = mk_not(c)
            self.assume(st, nc)
            st.pc.append(nc)
            b = self.eval(st, env, node.orelse)
        except Dead:
            b = None
        del st.pc[npc:]
        st.dom, st.facts, st.constraints = saved
        if a is None and b is None:
            raise Dead()
        if a is None:
            self.assume(st, mk_not(c))
            return b
        if b is None:
            self.assume(st, c)
            return a
        try:
            return self.mk_ite(st, c, a, b)
        except AnalysisError as e:
            if getattr(self, "split_unjoinable", False) and e.rule == "E5.join":
                from .interp import SplitOn

                raise SplitOn(c)
            raise

    def e_Compare(self, st, env, node, module):
        left = self.eval(st, env, node.left)
        conds = []
        for op, comp in zip(node.ops, node.comparators):
            right = self.eval(st, env, comp)
            conds.append(self.compare(st, op, left, right, node, module))
            left = right
        return mk_and(conds) if len(conds) > 1 else conds[0]

    def compare(self, st, op, a, b, node, module):
        fo = st.folder()
        if isinstance(op, (ast.In, ast.NotIn)):
            r = self.contains(st, b, a, node, module)
            return mk_not(r) if isinstance(op, ast.NotIn) else r
        if isinstance(op, (ast.Is, ast.IsNot)):
            r = self.identity(st, a, b, node, module)
            return mk_not(r) if isinstance(op, ast.IsNot) else r
        sym = CMP_OPS.get(type(op))
        if sym is None:
            raise AnalysisError("E5.cmp", "comparison operator", node, module)
        # distribute over ITE of optional values
        for x, y, flip in ((a, b, False), (b, a, True)):
            if isinstance(x, App) and x.op == "ite":
                l = self.compare_sym(st, sym, x.args[1], y, node, module, flip)
                r = self.compare_sym(st, sym, x.args[2], y, node, module, flip)
                return self.mk_ite(st, x.args[0], l, r)
        return self.compare_sym(st, sym, a, b, node, module, False)

    def compare_sym(self, st, sym, a, b, node, module, flip):
        if flip:
            a, b = b, a
        for x, y, fl in ((a, b, False), (b, a, True)):
            if isinstance(x, App) and x.op == "ite":
                l = self.compare_sym(st, sym, x.args[1], y, node, module, fl)
                r = self.compare_sym(st, sym, x.args[2], y, node, module, fl)
                return self.mk_ite(st, x.args[0], l, r)
        fo = st.folder()
        if is_discrete(a) and is_discrete(b) and fo.can_fold([a, b]):
            numeric = is_numeric(a) and is_numeric(b)
            plain_nums = numeric and getattr(self, "fold_numeric_compare", False) and not any(
                v_ is NAN for t_ in (a, b) for v_ in (t_.table.values() if isinstance(t_, Fin) else [t_.v])
            )
            if plain_nums:
                # a table of plain numbers against a number: decided row by row on exact values
                def cmpq(x, y):
                    qx, qy = qof(x), qof(y)
                    return {"==": qx == qy, "!=": qx != qy, "<": qx < qy, "<=": qx <= qy, ">": qx > qy, ">=": qx >= qy}[sym]

                return fo.fold(cmpq, [a, b])
            if not numeric or (const_int_like(a) and const_int_like(b)):
                def cmpf(x, y):
                    if sym == "==":
                        return pyeq(x, y)
                    if sym == "!=":
                        return not pyeq(x, y)
                    try:
                        return {"<": x < y, "<=": x <= y, ">": x > y, ">=": x >= y}[sym]
                    except TypeError:
                        return ERR
                r_ = fo.fold(cmpf, [a, b])
                errs_ = fo.fold(lambda x, y: cmpf(x, y) is ERR, [a, b])
                if not (isinstance(errs_, Const) and not errs_.v):
                    # operands that Python 3 refuses to order (None against a number, str against
                    # int): TypeError there, an arbitrary but defined answer on Python 2.7
                    self.event("unorderable_compare", node, module, st, what="%s between values of different kind (e.g. None and a number)" % sym)
                    self.hazard(st, "TypeError", node, module, errs_, "'%s' not supported between these operands" % sym)
                    if isinstance(errs_, Const):
                        raise Dead()
                    self.assume(st, mk_not(errs_))
                    r_ = st.folder().restrict(r_) if isinstance(r_, Fin) else r_
                return r_
        if (is_numeric(a) or isinstance(a, (P, App, Opaque))) and (is_numeric(b) or isinstance(b, (P, App, Opaque))):
            if strish(a) or strish(b):
                if sym in ("==", "!="):
                    if isinstance(a, Term) and isinstance(b, Term) and a == b:
                        return Const(sym == "==")
                    if getattr(self, "join_eq", False):
                        r_ = self.joined_strings_equal(st, a, b)
                        if r_ is not None:
                            return r_ if sym == "==" else mk_not(r_)
                    r = App("streq", tuple(sorted((a, b), key=lambda t: t.sortkey())))
                    return r if sym == "==" else mk_not(r)
            pa = self.to_poly(st, a, node, module)
            pb = self.to_poly(st, b, node, module)
            # Decimal against float: Python compares the exact values, and a float literal such as
            # 3.9 is its binary double (slightly below 3.9), not the decimal text
            if pa.kind == "dec" and pb.kind == "flt" and pb.is_const():
                self.event("decimal_float_compare", node, module, st)
                pb = P.const(Fraction(float(pb.const_value())), "flt")
            elif pb.kind == "dec" and pa.kind == "flt" and pa.is_const():
                self.event("decimal_float_compare", node, module, st)
                pa = P.const(Fraction(float(pa.const_value())), "flt")
            return T.mk_cmp(sym, pa, pb)
        if sym in ("==", "!="):
            def seq_items(x):
                if isinstance(x, Ref) and st.heap[x.id].kind == "list":
                    return list(st.heap[x.id].items)
                if isinstance(x, TupleVal):
                    return [(TRUE, e) for e in x.items]
                if isinstance(x, Const) and isinstance(x.v, (list, tuple)):
                    return [(TRUE, wrap_const(e)) for e in x.v]
                return None

            sa_, sb_ = seq_items(a), seq_items(b)
            if sa_ is not None and sb_ is not None:
                fixed = all(isinstance(g, Const) and truth_const(g.v) for g, _ in sa_ + sb_)
                if fixed:
                    if len(sa_) != len(sb_):
                        return Const(sym != "==")
                    cs = [self.compare_sym(st, "==", x, y, node, module, False) for (_, x), (_, y) in zip(sa_, sb_)]
                    r = mk_and(cs)
                    return r if sym == "==" else mk_not(r)
                deps = set()
                for g, x in sa_ + sb_:
                    deps |= deps_of(g) | (deps_of(x) if isinstance(x, Term) else set())
                r = Opaque("seq-eq", deps)
                return r if sym == "==" else mk_not(r)
            if (sa_ is not None or sb_ is not None) and isinstance(a if sa_ is None else b, Opaque):
                o_ = a if sa_ is None else b
                deps = set(o_.deps)
                for g, x in (sa_ if sa_ is not None else sb_):
                    deps |= deps_of(g) | (deps_of(x) if isinstance(x, Term) else set())
                r = Opaque("seq-eq", deps)
                return r if sym == "==" else mk_not(r)
            if isinstance(a, Term) and isinstance(b, Term):
                if a == b:
                    return Const(sym == "==")
                if is_discrete(a) != is_discrete(b) and (is_numeric(a) != is_numeric(b)):
                    pass
                r = App("eq", tuple(sorted((a, b), key=lambda t: t.sortkey())))
                return r if sym == "==" else mk_not(r)
            if isinstance(a, TupleVal) and isinstance(b, TupleVal) and len(a.items) == len(b.items):
                cs = [self.compare_sym(st, "==", x, y, node, module, False) for x, y in zip(a.items, b.items)]
                r = mk_and(cs)
                return r if sym == "==" else mk_not(r)
        if sym in ("==", "!=") and isinstance(a, Ref) and isinstance(b, Ref) and st.heap[a.id].kind == "map" and st.heap[b.id].kind == "map":
            # dict == dict: the same keys present with equal values; two OrderedDicts are compared
            # in order as well - when that order is the input's field order the comparison tells
            # apart objects that differ in the order of their fields only
            ma, mb = st.heap[a.id], st.heap[b.id]
            if ma.ordered and mb.ordered and (getattr(ma, "input_ordered", False) or getattr(mb, "input_ordered", False)):
                self.event("ordered_map_eq", node, module, st, what="== between two OrderedDicts that keep the order in which the fields were written")
            cs = []
            for k in list(ma.order) + [k for k in mb.order if k not in ma.entries]:
                pa, va = ma.entries.get(k, (FALSE, None))
                pb, vb = mb.entries.get(k, (FALSE, None))
                if va is not None and vb is not None and isinstance(pa, Term) and isinstance(pb, Term) and pa == pb:
                    same_ = TRUE if (isinstance(va, Term) and isinstance(vb, Term) and va == vb) else self.compare_sym(st, "==", va, vb, node, module, False)
                    if isinstance(same_, Const) and truth_const(same_.v):
                        continue  # the same presence condition and the same value on both sides
                    cs.append(mk_or([mk_not(pa), same_]))
                    continue
                both = mk_and([pa, pb])
                neither = mk_and([mk_not(pa), mk_not(pb)])
                if va is not None and vb is not None:
                    same = self.compare_sym(st, "==", va, vb, node, module, False)
                    cs.append(mk_or([neither, mk_and([both, same])]))
                else:
                    cs.append(neither)
            r = mk_and(cs)
            return r if sym == "==" else mk_not(r)
        if sym in ("==", "!=") and isinstance(a, (Choice, ClassVal)) and isinstance(b, (Choice, ClassVal)):
            # classes selected by conditions: equal exactly when the same class is selected
            def alts(x):
                if isinstance(x, ClassVal):
                    return [(TRUE, x)]
                out_ = []
                for c_, y in ((x.cond, x.a), (mk_not(x.cond), x.b)):
                    for c2, z in alts(y) if isinstance(y, (Choice, ClassVal)) else [(TRUE, y)]:
                        out_.append((mk_and([c_, c2]), z))
                return out_

            la, lb = alts(a), alts(b)
            if all(isinstance(z, ClassVal) for _, z in la + lb):
                r = mk_or([mk_and([ca, cb]) for ca, za in la for cb, zb in lb if za.cls is zb.cls])
                return r if sym == "==" else mk_not(r)
        raise AnalysisError("E5.cmp", "comparison of %r and %r" % (a, b), node, module)

    def joined_strings_equal(self, st, a, b):
        """Equality of two strings built the same way from optional fields (prefix + separator-joined
        items, each present under a guard): when no field text contains the separator and the texts
        possible at different positions are disjoint, the strings are equal exactly when, position by
        position, both fields are absent or both present with equal text.  None when the shape does
        not apply."""
        def parts(t):
            pre, items, sep = [], None, None
            xs = list(t.args) if isinstance(t, App) and t.op == "cat" else [t]
            for x in xs:
                if isinstance(x, App) and x.op == "join":
                    if items is not None:
                        return None
                    sep = x.args[0]
                    items = []
                    for it in x.args[1:]:
                        if not (isinstance(it, App) and it.op == "item"):
                            return None
                        items.append((it.args[0], it.args[1]))
                elif items is None:
                    pre.append(x)
                else:
                    return None
            if items is None or not (isinstance(sep, Const) and isinstance(sep.v, str) and sep.v):
                return None
            return pre, items, sep.v

        pa, pb = parts(a), parts(b)
        if pa is None or pb is None or pa[2] != pb[2] or len(pa[1]) != len(pb[1]) or len(pa[0]) != len(pb[0]):
            return None

        def texts(v):
            if isinstance(v, Const) and isinstance(v.v, str):
                return {v.v}
            if isinstance(v, Fin) and all(isinstance(x, str) for x in v.table.values()):
                return set(v.table.values())
            return None

        sets = []
        for (ga, va), (gb, vb) in zip(pa[1], pb[1]):
            ta, tb = texts(va), texts(vb)
            if ta is None or tb is None or any(pa[2] in x for x in ta | tb):
                return None
            sets.append(ta | tb)
        for i in range(len(sets)):
            for j in range(i + 1, len(sets)):
                if sets[i] & sets[j]:
                    return None
        conj = []
        for x, y in zip(pa[0], pb[0]):
            conj.append(TRUE if same(x, y) else self.compare_sym(st, "==", x, y, None, None, False))
        for (ga, va), (gb, vb) in zip(pa[1], pb[1]):
            if same(ga, gb) and same(va, vb):
                continue
            both = mk_and([ga, gb, self.compare_sym(st, "==", va, vb, None, None, False)])
            neither = mk_and([mk_not(ga), mk_not(gb)])
            conj.append(mk_or([both, neither]))
        return mk_and(conj) if conj else TRUE

    def identity(self, st, a, b, node, module):
        if isinstance(b, Const) and b.v is None:
            return self.is_none(st, a)
        if isinstance(a, Const) and a.v is None:
            return self.is_none(st, b)
        if isinstance(a, Ref) and isinstance(b, Ref):
            return Const(a.id == b.id)
        if isinstance(a, Const) and isinstance(b, Const) and isinstance(a.v, bool) and isinstance(b.v, bool):
            return Const(a.v is b.v)
        def valueish(x):
            return (isinstance(x, Const) and isinstance(x.v, (str, int, float, Num, tuple)) and not isinstance(x.v, bool)) or (
                isinstance(x, Fin) and all(isinstance(v_, (str, int, Num)) and not isinstance(v_, bool) for v_ in x.table.values())
            ) or isinstance(x, P) or (isinstance(x, App) and x.op in ("cat", "str", "join"))

        for x, y in ((a, b), (b, a)):
            if isinstance(x, App) and x.op == "ite":
                # e.g. d.get(k, DEFAULT) is DEFAULT: the default arm is the very object compared with
                return self.mk_ite(st, x.args[0], self.identity(st, x.args[1], y, node, module), self.identity(st, x.args[2], y, node, module))
        if isinstance(a, Const) and isinstance(b, Const) and isinstance(a.v, str) and isinstance(b.v, str):
            self.event("value_identity", node, module, st, what="`is` between values (%s)" % short(node))
            if a.v != b.v:
                return FALSE
            # two occurrences of one constant of the package: the same object
            return TRUE
        if valueish(a) or valueish(b):
            # identity of strings / numbers: decided by whether two equal values happen to be one
            # object (interning, small-integer cache), not by the values
            self.event("value_identity", node, module, st, what="`is` between values (%s)" % short(node))
            deps = set()
            for x in (a, b):
                if isinstance(x, Term):
                    deps |= deps_of(x)
            return Opaque("identity:%s" % short(node, 40), deps)
        if isinstance(a, Const) and isinstance(b, Const) and isinstance(a.v, (list, dict)) and isinstance(b.v, (list, dict)):
            # two references to module-level tables: one object exactly when they come from one
            # definition (the evaluated table remembers the node that defines it)
            na, nb = getattr(a.v, "node", None), getattr(b.v, "node", None)
            if a.v is b.v or (na is not None and na is nb):
                return TRUE
            if na is not None and nb is not None:
                return FALSE
        raise AnalysisError("E5.cmp", "identity test on %r / %r" % (a, b), node, module)

    def is_none(self, st, v):
        if isinstance(v, Const):
            return Const(v.v is None)
        if isinstance(v, Fin):
            return st.folder().fold(lambda x: x is None, [v])
        if isinstance(v, App) and v.op == "ite":
            return self.mk_ite(st, v.args[0], self.is_none(st, v.args[1]), self.is_none(st, v.args[2]))
        if isinstance(v, P):
            if len(v.terms) == 1:
                (m, c), = v.terms.items()
                if c == 1 and len(m) == 1 and m[0][1] == 1 and isinstance(m[0][0], App) and m[0][0].op == "ite":
                    return self.is_none(st, m[0][0])
            return FALSE
        if isinstance(v, (Ref, TupleVal, FuncVal)):
            return FALSE
        if isinstance(v, App) and v.op in ("cat", "str", "join", "fmt", "repr", "float", "Decimal", "tuple"):
            return FALSE  # a built string / number is an object, never None
        if isinstance(v, (App, Opaque)):
            return App("isnone", (v,))
        return FALSE

    def contains(self, st, container, item, node, module):
        fo = st.folder()
        if isinstance(container, Ref):
            o = st.heap[container.id]
            if o.kind == "map":
                if isinstance(item, Fin):
                    item = fo.restrict(item)
                if isinstance(item, Const):
                    if item.v not in o.entries:
                        return FALSE
                    return self.simp(st, o.entries[item.v][0])
                if isinstance(item, Fin):
                    out = FALSE
                    for k in set(item.table.values()):
                        c = fo.fold(lambda x, k=k: x == k, [item])
                        p = o.entries[k][0] if k in o.entries else FALSE
                        out = mk_or([out, mk_and([c, p])])
                    return out
                if isinstance(item, (Opaque, App)):
                    return App("in", (item, Opaque("map%d" % container.id)))
            if o.kind in ("list", "set"):
                cs = []
                for g, v in o.items:
                    cs.append(mk_and([g, self.compare_sym(st, "==", item, v, node, module, False)]))
                return mk_or(cs)
        if isinstance(item, App) and item.op == "type" and isinstance(container, TupleVal) and all(
            isinstance(x, Builtin) for x in container.items
        ):
            names = set(x.name for x in container.items)
            x = item.args[0]
            kind = None
            if isinstance(x, P):
                kind = x.kind
            elif is_numeric(x):
                kind = self.to_poly(st, x, node, module).kind
            if kind in ("flt", "int") and {"float", "int"} <= names:
                return TRUE
            if kind == "dec" and not (names & {"Decimal", "D"}):
                return FALSE
            return App("in", (item, Opaque("types:" + ",".join(sorted(names)))))
        if isinstance(container, TupleVal):
            return mk_or([self.compare_sym(st, "==", item, v, node, module, False) for v in container.items])
        if isinstance(container, Const) and isinstance(container.v, (dict, list, tuple, str)):
            cont = container.v
            if is_discrete(item):
                def isin(x):
                    try:
                        return x in cont
                    except TypeError:
                        return False
                return fo.fold(isin, [item])
            if isinstance(item, (Opaque, App)):
                return App("in", (item, Opaque("table")))
        if isinstance(item, Const) and isinstance(item.v, str) and isinstance(container, (Opaque, App)):
            return App("in", (item, container))
        if isinstance(container, Fin) and is_discrete(item) and all(isinstance(c, (str, dict, list, tuple)) for c in container.table.values()):
            def isin2(c, x):
                try:
                    return x in c
                except TypeError:
                    return ERR
            r = fo.fold(isin2, [container, item])
            return r
        raise AnalysisError("E5.in", "membership test %r in %r" % (item, container), node, module)

    def e_BinOp(self, st, env, node, module):
        a = self.eval(st, env, node.left)
        b = self.eval(st, env, node.right)
        return self.binop(st, node.op, a, b, node, module)

    def binop(self, st, op, a, b, node, module):
        fo = st.folder()
        # strings
        if isinstance(op, ast.Add) and (strish(a) or strish(b)):
            return self.cat(st, [a, b])
        if isinstance(op, ast.Mod) and strish(a):
            self.event("percent_format", node, module, st)
            return Opaque("%-format", deps_of(a) | deps_of(b))
        if isinstance(op, ast.Mult) and strish(a) and const_int_like(b) and is_discrete(a):
            return fo.fold(lambda s, n: s * n, [a, b])
        if isinstance(op, ast.Add) and isinstance(a, Ref) and isinstance(b, Ref):
            oa, ob = st.heap[a.id], st.heap[b.id]
            if oa.kind == "list" and ob.kind == "list":
                return self.alloc(st, ListObj(oa.items + ob.items))
        if isinstance(op, ast.Add) and isinstance(a, TupleVal) and isinstance(b, TupleVal):
            return TupleVal(a.items + b.items)
        if isinstance(op, (ast.Add, ast.Mult)):
            # list + list / list * n on literal or heap lists
            def as_items(x):
                if isinstance(x, Ref) and st.heap[x.id].kind == "list":
                    return list(st.heap[x.id].items)
                if isinstance(x, Const) and isinstance(x.v, (list, tuple)):
                    return [(TRUE, wrap_const(e)) for e in x.v]
                if isinstance(x, TupleVal):
                    return [(TRUE, e) for e in x.items]
                if isinstance(x, App) and x.op == "ite" and len(x.args) == 3:
                    # one list or another, depending on a condition: a guarded list
                    c_, y_, z_ = x.args
                    iy, iz = as_items(y_), as_items(z_)
                    if iy is not None and iz is not None:
                        return [(mk_and([c_, g]), e) for g, e in iy] + [(mk_and([mk_not(c_), g]), e) for g, e in iz]
                if isinstance(x, Fin) and x.table and all(isinstance(v_, (list, tuple)) for v_ in x.table.values()):
                    out_ = []
                    seen_ = []
                    for v_ in x.table.values():
                        if v_ not in seen_:
                            seen_.append(v_)
                    for v_ in seen_:
                        c_ = fo.fold(lambda t, v_=v_: t == v_, [x])
                        out_ += [(c_, wrap_const(e)) for e in v_]
                    return out_
                return None

            ia, ib = as_items(a), as_items(b)
            if isinstance(op, ast.Add) and ia is not None and ib is not None:
                lo = ListObj(ia + ib)
                for x in (a, b):
                    if isinstance(x, Ref):
                        for fl in ("from_map", "hash_ordered", "input_ordered"):
                            if getattr(st.heap[x.id], fl, None):
                                setattr(lo, fl, getattr(st.heap[x.id], fl))
                return self.alloc(st, lo)
            if isinstance(op, ast.Mult):
                for items, n in ((ia, b), (ib, a)):
                    if items is not None and isinstance(n, Const) and isinstance(n.v, int) and not isinstance(n.v, bool):
                        return self.alloc(st, ListObj(items * max(n.v, 0)))
                    gs = getattr(n, "len_guards", None)
                    if items is not None and gs is not None and len(items) == 1:
                        # [x] * len(seq) for a sequence with conditionally present elements: one
                        # copy of x per element that is present
                        g0, x0 = items[0]
                        return self.alloc(st, ListObj([(mk_and([g0, g]), x0) for g in gs]))
        # discrete int arithmetic (digits, indexes)
        if const_int_like(a) and const_int_like(b) and fo.can_fold([a, b]):
            f = {
                ast.Add: lambda x, y: x + y,
                ast.Sub: lambda x, y: x - y,
                ast.Mult: lambda x, y: x * y,
                ast.FloorDiv: lambda x, y: (x // y) if y else ERR,
                ast.Mod: lambda x, y: (x % y) if y else ERR,
            }.get(type(op))
            if f is not None:
                return fo.fold(f, [a, b])
            if isinstance(op, ast.Div):
                self.event("int_division", node, module, st)
            if isinstance(op, ast.Pow) and isinstance(a, Const) and isinstance(b, Const):
                return Const(self.ce.binop(module, node, a.v, b.v, "E5.const"))
        if isinstance(op, (ast.Sub, ast.BitOr, ast.BitAnd, ast.BitXor)) and isinstance(a, Ref) and isinstance(b, Ref):
            oa, ob = st.heap[a.id], st.heap[b.id]
            if oa.kind == "set" and ob.kind == "set":
                # set algebra on sets of constants
                def consts(o):
                    if all(isinstance(g, Const) and truth_const(g.v) and isinstance(x, Const) for g, x in o.items):
                        out_ = []
                        for _, x in o.items:
                            if x.v not in out_:
                                out_.append(x.v)
                        return out_
                    return None

                ca, cb = consts(oa), consts(ob)
                if ca is not None and cb is not None:
                    if isinstance(op, ast.Sub):
                        r_ = [x for x in ca if x not in cb]
                    elif isinstance(op, ast.BitAnd):
                        r_ = [x for x in ca if x in cb]
                    elif isinstance(op, ast.BitOr):
                        r_ = ca + [x for x in cb if x not in ca]
                    else:
                        r_ = [x for x in ca if x not in cb] + [x for x in cb if x not in ca]
                    lo = ListObj([(TRUE, Const(x)) for x in r_])
                    lo.kind = "set"
                    lo.hash_ordered = True
                    return self.alloc(st, lo)
        if isinstance(op, (ast.BitOr, ast.BitAnd, ast.BitXor, ast.LShift, ast.RShift, ast.MatMult)):
            raise AnalysisError("E5.expr", "bit/matrix operator", node, module)
        pa = self.to_poly(st, a, node, module)
        pb = self.to_poly(st, b, node, module)
        if "mixed" == T.kind_join(pa.kind, pb.kind) and not isinstance(op, ast.Pow):
            self.event("dec_float_mix", node, module, st)
        for p_ in (pa, pb):
            if any(isinstance(x, App) and x.op == "float" for x in p_.atoms()):
                # binary floating-point arithmetic on an already rounded score: rational
                # normalisation would hide the noise it introduces
                self.event("arith_after_float", node, module, st)
        if isinstance(op, ast.Add):
            return T.p_add(pa, pb)
        if isinstance(op, ast.Sub):
            return T.p_add(pa, pb, -1)
        if isinstance(op, ast.Mult):
            return T.p_mul(pa, pb)
        if isinstance(op, ast.Div):
            if pa.kind == "int" and pb.kind == "int":
                self.event("int_division", node, module, st)
            if pb.is_const():
                c = pb.const_value()
                if c == 0:
                    self.hazard(st, "ZeroDivisionError", node, module, TRUE, "division by constant zero")
                    raise Dead()
                k = T.kind_join(pa.kind, pb.kind)
                if k == "int":
                    k = "flt"
                return P(dict((m, x / c) for m, x in pa.terms.items()), k)
            self.event("division", node, module, st, den=pb)
            return P.atom(App("div", (pa, pb)), T.kind_join(pa.kind, pb.kind))
        if isinstance(op, ast.Pow):
            if pb.is_const() and pb.const_value().denominator == 1 and pb.const_value() >= 0:
                n = int(pb.const_value())
                if pa.is_const():
                    return P.const(pa.const_value() ** n, pa.kind)
                if n <= 3:
                    return T.p_pow(pa, n)
                return P.atom(App("pow", (pa,), (n,)), pa.kind)
            return P.atom(App("powx", (pa, pb)), pa.kind)
        if isinstance(op, ast.FloorDiv):
            return P.atom(App("floordiv", (pa, pb)), pa.kind)
        if isinstance(op, ast.Mod):
            return P.atom(App("mod", (pa, pb)), pa.kind)
        raise AnalysisError("E5.expr", "binary operator %s" % type(op).__name__, node, module)

    # ------------------------------------------------------------------ strings
    def to_str(self, st, v, node, module):
        if strish(v):
            return v
        if is_discrete(v):
            def s(x):
                if isinstance(x, Num):
                    return ERR
                if x is None or isinstance(x, (int, str, bool)):
                    return str(x)
                return ERR
            r = st.folder().fold(s, [v])
            if isinstance(r, Const) and r.v is ERR or isinstance(r, Fin) and ERR in r.table.values():
                return App("str", (v,))
            return r
        if isinstance(v, (P, App, Opaque)):
            return App("str", (v,))
        if isinstance(v, Ref):
            return Opaque("str(obj)")
        if isinstance(v, TupleVal):
            return App("str", tuple(self.to_str(st, x, node, module) for x in v.items))
        raise AnalysisError("E5.str", "str() of %r" % (v,), node, module)

    def cat(self, st, parts):
        flat = []
        for p in parts:
            if isinstance(p, App) and p.op == "cat":
                flat.extend(p.args)
            else:
                flat.append(p)
        out = []
        fo = st.folder()
        for p in flat:
            if isinstance(p, Const) and p.v == "":
                continue
            cross = (
                getattr(self, "keep_pieces", False)
                and out
                and isinstance(out[-1], Fin)
                and isinstance(p, Fin)
                and set(out[-1].slots) != set(p.slots)
            )
            if out and not cross and is_discrete(out[-1]) and is_discrete(p) and fo.can_fold([out[-1], p]) and _small(fo, out[-1], p):
                out[-1] = fo.fold(lambda x, y: x + y, [out[-1], p])
            else:
                out.append(p)
        if not out:
            return Const("")
        if len(out) == 1:
            return out[0]
        return App("cat", out)

    def format(self, st, fmt, args, kwargs, node, module):
        """str.format with positional fields only."""
        import string

        if isinstance(fmt, App) and fmt.op == "cat":
            # a template assembled from pieces: braces in a non-constant piece are a hazard
            for piece in fmt.args:
                if isinstance(piece, Fin) and strish(piece):
                    bad = st.folder().fold(lambda s_: ("{" in s_) or ("}" in s_), [piece])
                    if self.decide(st, bad) is not False:
                        self.hazard(st, "ValueError", node, module, bad, "str.format template contains text of the input: braces in it raise ValueError/IndexError/KeyError")
                        self.assume(st, mk_not(bad))
            return Opaque("format", deps_of(fmt))
        if isinstance(fmt, Fin) and strish(fmt) and all(isinstance(a, (Const, Fin)) for a in args) and not kwargs:
            # a table of templates (input-derived): format each; a template that does not fit raises
            fo = st.folder()
            nargs = len(args)

            def fits(t):
                import string as _s

                try:
                    auto = 0
                    for lit, field, spec, conv in _s.Formatter().parse(t):
                        if field is None:
                            continue
                        head = field.split(".")[0].split("[")[0]
                        if head == "":
                            idx = auto
                            auto += 1
                        elif head.isdigit():
                            idx = int(head)
                        else:
                            return False
                        if idx >= nargs:
                            return False
                    return True
                except ValueError:
                    return False

            bad = fo.fold(lambda t: not fits(t), [fmt])
            d = self.decide(st, bad)
            if d is True:
                self.hazard(st, "ValueError", node, module, TRUE, "str.format template from the input does not fit its arguments")
                raise Dead()
            if d is None:
                self.hazard(st, "ValueError", node, module, bad, "str.format template from the input does not fit its arguments for some inputs")
                self.assume(st, mk_not(bad))
            return Opaque("format", deps_of(fmt))
        if not isinstance(fmt, Const):
            return Opaque("format", deps_of(fmt))
        parts = []
        auto = 0
        try:
            parsed = list(string.Formatter().parse(fmt.v))
        except ValueError:
            raise AnalysisError("E5.format", "bad format string", node, module)
        for lit, field, spec, conv in parsed:
            if lit:
                parts.append(Const(lit))
            if field is None:
                continue
            if spec or conv:
                return Opaque("format-spec", set().union(*[deps_of(a) for a in args]) if args else ())
            if field == "":
                idx = auto
                auto += 1
            elif field.isdigit():
                idx = int(field)
            elif field in kwargs:
                parts.append(self.to_str(st, kwargs[field], node, module))
                continue
            else:
                return Opaque("format-field")
            if idx >= len(args):
                self.hazard(st, "IndexError", node, module, TRUE, "format index out of range")
                raise Dead()
            parts.append(self.to_str(st, args[idx], node, module))
        return self.cat(st, parts)


def _small(fo, a, b):
    slots = set()
    for x in (a, b):
        if isinstance(x, Fin):
            slots.update(x.slots)
    n = 1
    for s in slots:
        n *= len(fo.domain(s))
    return n <= 600


def pyeq(x, y):
    if isinstance(x, Num) or isinstance(y, Num):
        try:
            return qof(x) == qof(y)
        except TypeError:
            return False
    if isinstance(x, bool) != isinstance(y, bool) and (x is None or y is None):
        return False
    return x == y


def piece_lengths(st, p):
    if isinstance(p, Const) and isinstance(p.v, str):
        return {len(p.v)}
    if isinstance(p, Fin):
        r = st.folder().restrict(p)
        if isinstance(r, Const):
            return {len(r.v)} if isinstance(r.v, str) else None
        if all(isinstance(v, str) for v in r.table.values()):
            return set(len(v) for v in r.table.values())
    return None


def wrap_const(v):
    return Const(v)


def _tlist(l):
    t = TList(l)
    return t


def deps_of(v):
    """Slots / symbols a value depends on."""
    out = set()
    seen = set()

    def rec(x):
        if id(x) in seen:
            return
        seen.add(id(x))
        if isinstance(x, Fin):
            out.update(x.slots)
        elif isinstance(x, P):
            for a in x.atoms():
                rec(a)
        elif isinstance(x, App):
            for a in x.args:
                rec(a)
        elif isinstance(x, Cmp):
            rec(x.poly)
        elif isinstance(x, BoolOp):
            for a in x.args:
                rec(a)
        elif isinstance(x, Opaque):
            out.update(x.deps)
            out.add("opaque:" + x.tag)
        elif isinstance(x, TupleVal):
            for a in x.items:
                rec(a)

    rec(v)
    return out
