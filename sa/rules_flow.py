"""Information-flow rules: C05 (field order / explicit Not Defined) and C06 (non-interference)."""

from __future__ import annotations

import ast

from . import terms as T
from .canon import Canon
from .ctx import VERSIONS
from .interp import Dead, Ref, TupleVal
from .interp_expr import deps_of
from .objmodel import metric_slot
from .rules_parse import is_self_attr, parse_summary
from .rules_score import SCORE_ATTRS, get_model
from .srcmodel import AnalysisError, short
from .terms import ABSENT, App, Const, Fin, Opaque, P, Term

SINKS = {
    2: ["scores", "severities", "clean_vector", "rh_vector", "temporal_vector", "environmental_vector", "__hash__"],
    3: ["scores", "severities", "clean_vector", "rh_vector", "temporal_vector", "environmental_vector", "__hash__"],
    4: ["scores", "severities", "clean_vector", "rh_vector", "__hash__"],
}


def sink_values(ctx, v):
    """Abstract results of every sink accessor (cached)."""
    key = ("sinks", v)
    if key in ctx.memo:
        return ctx.memo[key]
    om = get_model(ctx, v)
    out = {}
    for s in SINKS[v]:
        n0 = len(om.ev.events)
        val, st, evs = om.call(s)
        out[s] = (val, st, om.ev.events[n0:])
    ctx.memo[key] = out
    return out


def flat_terms(val, st):
    """Terms contained in an accessor result (tuples / lists flattened)."""
    if isinstance(val, TupleVal):
        out = []
        for x in val.items:
            out.extend(flat_terms(x, st))
        return out
    if isinstance(val, Ref):
        o = st.heap[val.id]
        out = []
        if o.kind in ("list", "set"):
            for g, x in o.items:
                out.append(g)
                out.extend(flat_terms(x, st))
        elif o.kind == "map":
            for k in o.order:
                p, x = o.entries[k]
                out.append(p)
                out.extend(flat_terms(x, st))
        return out
    if isinstance(val, Term):
        return [val]
    return []


def raw_defs(om):
    """v4: derived slots -> definitions over raw metric slots."""
    return dict(om.space.defs)


def expand_deps(om, deps):
    """Replace derived slots (eff:, d1..d6) by the raw slots their definitions depend on."""
    out = set()
    work = list(deps)
    seen = set()
    while work:
        d = work.pop()
        if d in seen:
            continue
        seen.add(d)
        df = om.space.defs.get(d)
        if df is not None and isinstance(df, Fin):
            work.extend(df.slots)
        elif df is not None:
            work.extend(deps_of(df))
        elif d.startswith("mv:"):
            continue  # value taken from a constant table
        else:
            out.add(d)
    return out


# ---------------------------------------------------------------------------------------------
# C05


def check_parse_order(ctx, led, v, rule="C05.order.parse"):
    """Inside the field loop the only surviving state is the keyed store into the metric map."""
    summ = parse_summary(ctx, v)
    module = summ["module"]
    loop = summ.get("loop")
    info = VERSIONS[v]
    pv = ctx.repo.method(info["mod"], info["cls"], "parse_vector")
    if loop is None:
        raise AnalysisError(rule, "field loop not found", pv.node, module)
    ck0 = "%s.parse_vector" % info["cls"]
    allowed_targets = set()
    for n in ast.walk(loop):
        if isinstance(n, ast.Assign) and isinstance(n.targets[0], (ast.Tuple, ast.List)):
            for e in n.targets[0].elts:
                if isinstance(e, ast.Name):
                    allowed_targets.add(e.id)
    if isinstance(loop.target, ast.Name):
        allowed_targets.add(loop.target.id)
    n_checked = 0
    for n in ast.walk(loop):
        if isinstance(n, ast.Name) and isinstance(n.ctx, ast.Store) and n.id not in allowed_targets:
            # a local assigned in the loop: harmless only if never read outside the loop body
            reads_outside = [
                x
                for x in ast.walk(pv.node)
                if isinstance(x, ast.Name) and x.id == n.id and isinstance(x.ctx, ast.Load) and not any(a is loop for a in module.ancestors(x))
            ]
            n_checked += 1
            led.check(
                not reads_outside,
                rule,
                "%s::%s survives the field loop" % (ck0, n.id),
                module.where(n),
                "local %r is assigned while visiting the fields and read after the loop: the result can depend on field order" % n.id,
            )
        if isinstance(n, ast.Attribute) and isinstance(n.ctx, ast.Store) and is_self_attr(n):
            n_checked += 1
            led.violation(
                rule,
                "%s::self.%s written in the field loop" % (ck0, n.attr),
                module.where(n),
                "attribute %s is written while visiting the fields ('last seen' state depends on field order)" % n.attr,
            )
        if isinstance(n, ast.Call) and isinstance(n.func, ast.Attribute) and n.func.attr in ("append", "extend", "insert", "add"):
            n_checked += 1
            recv = n.func.value
            led.violation(
                rule,
                "%s::%s" % (ck0, short(n)),
                module.where(n),
                "a sequence is extended while visiting the fields: it records the input order",
            )
        if isinstance(n, ast.Call) and isinstance(n.func, ast.Name) and n.func.id == "enumerate":
            led.violation(rule, "%s::%s" % (ck0, short(n)), module.where(n), "field positions are used")
    if isinstance(loop.iter, ast.Call) and isinstance(loop.iter.func, ast.Name) and loop.iter.func.id in ("enumerate", "reversed", "sorted"):
        led.violation(rule, "%s::%s" % (ck0, short(loop.iter)), module.where(loop), "field positions/order are used by the loop header")
    led.ok(rule, ck0 + "::field loop", module.where(loop), "only keyed stores into the metric map survive an iteration (%d other constructs examined)" % n_checked)
    return 1


def check_order_iter(ctx, led, v, rule="C05.order.iter"):
    """No sink (nor the constructor's computations) iterates the parsed map or reads the raw vector."""
    try:
        om = get_model(ctx, v)
    except AnalysisError as ex:
        # the constructor could not be interpreted to the end; if it was seen iterating the parsed
        # map in field order before that point, that alone is this rule's finding
        hits = [e for e in getattr(ex, "partial_events", []) if e.kind == "input_order_iter"]
        for e in hits[:2]:
            led.violation(
                rule,
                "%s::%s" % (e.func.qualname if e.func else "?", short(e.node)),
                e.where(),
                "construction iterates the parsed metric map (%s): its order is the input's field order" % e.data.get("what"),
            )
        raise
    sinks = sink_values(ctx, v)
    n = 0
    for e in om.events(init_only=True):
        if e.kind == "input_order_iter":
            matters, why = order_matters(ctx, v, "__init__")
            if not matters:
                led.ok(rule, "%s::%s" % (e.func.qualname if e.func else "?", short(e.node)), e.where(), "iterates the parsed map, but the constructed state is identical for the reversed field order")
                continue
            led.violation(
                rule,
                "%s::%s" % (e.func.qualname if e.func else "?", short(e.node)),
                e.where(),
                "construction iterates the parsed metric map (%s): its order is the input's field order (%s)" % (e.data.get("what"), why),
            )
    for s, (val, st, evs) in sorted(sinks.items()):
        n += 1
        bad = [e for e in evs if e.kind == "input_order_iter"]
        if bad and not order_matters(ctx, v, s)[0]:
            led.ok(rule, "%s.%s::iteration" % (om.clsname, s), om.module.where(om.cls.methods[s].node), "iterates the parsed map, but the result is identical for the reversed field order")
            bad = []
        for e in bad:
            led.violation(
                rule,
                "%s::%s" % (e.func.qualname if e.func else "?", short(e.node)),
                e.where(),
                "%s() iterates the parsed metric map (%s): the result follows the input's field order" % (s, e.data.get("what")),
            )
        deps = set()
        for t in flat_terms(val, st):
            deps |= deps_of(t)
        raw = sorted(d for d in deps if d == "vector" or d.startswith("opaque:"))
        led.check(
            not raw,
            "C05.order.raw",
            "%s.%s deps" % (om.clsname, s),
            om.module.where(om.cls.methods[s].node),
            "%s() depends on the raw input string (%s), whose field order and spelling are not canonical" % (s, raw),
        )
        if not bad:
            led.ok(rule, "%s.%s" % (om.clsname, s), om.module.where(om.cls.methods[s].node), "iterates constant ordered tables only")
    return n


def pinned_canon(om, st, pins, terms):
    st2 = st.copy()
    for s, vals in pins.items():
        cur = st2.folder().domain(s)
        st2.dom[s] = tuple(x for x in cur if x in vals)
        if not st2.dom[s]:
            return None
    cn = Canon(om.ev, st2)
    return [cn(t) for t in terms]


def v4_class_pairs(om, slot, a_vals, b_vals, fixed=None):
    """For the raw metric `slot` of a v4 effective-value group: the pairs of joint classes
    (class with slot in a_vals, class with slot in b_vals) that share the values of the other raw
    metrics of the group.  `fixed`: further raw pins {slot: value} applied to both sides."""
    out = []
    for gname, g in om.v4["groups"].items():
        raw = g["raw"]
        if slot not in raw:
            continue
        i = raw.index(slot)
        cls_of = {}
        for cls, rows in g["classes"].items():
            for r in rows:
                cls_of[r] = cls
        pairs = set()
        for r, c1 in cls_of.items():
            if r[i] not in a_vals:
                continue
            if fixed and any(r[raw.index(s_)] != val for s_, val in fixed.items() if s_ in raw and s_ != slot):
                continue
            for bv in b_vals:
                r2 = r[:i] + (bv,) + r[i + 1 :]
                if isinstance(bv, tuple) and bv and bv[0] == "same-as":
                    r2 = r[:i] + (r[raw.index(bv[1])],) + r[i + 1 :]
                c2 = cls_of.get(r2)
                if c2 is not None and c2 != c1:
                    pairs.add((c1, c2))
        out.append((gname, sorted(pairs, key=repr)))
    return out


def v4_terms_over_groups(om):
    """Terms through which the effective-value groups reach the v4 outputs."""
    terms = [d for d in (om.v4.get("digit_defs") or []) if isinstance(d, Term)]
    terms.append(om.attr("base_score"))
    return terms


def v4_invariant(om, gname, c1, c2, terms):
    a = pinned_canon(om, om.st, {gname: (c1,)}, terms)
    b = pinned_canon(om, om.st, {gname: (c2,)}, terms)
    return a is not None and b is not None and all(x == y for x, y in zip(a, b))


def check_nd(ctx, led, v, rule="C05.nd", only_sinks=None):
    """For every optional metric K: every sink output is the same for K absent and K = Not Defined
    (all other metrics arbitrary).  Chaining single-metric flips gives every subset."""
    om = get_model(ctx, v)
    spec = ctx.vspec(v)
    nd = spec["nd"]
    sinks = sink_values(ctx, v)
    optional = [k for k in om.accepted if k not in spec["mandatory"]]
    n = 0
    # v4: the score depends on raw slots only through the derived definitions
    defs = raw_defs(om) if v == 4 else {}
    for k in optional:
        s = metric_slot(k)
        if nd not in om.space.dom[s]:
            led.violation(rule, "%s metric %s" % (om.clsname, k), "cvss/", "optional metric %s has no %s value" % (k, nd))
            continue
        for name, (val, st, evs) in sorted(sinks.items()):
            if only_sinks is not None and name not in only_sinks:
                continue
            terms = flat_terms(val, st)
            dkey = ("sinkdeps", v, name)
            if dkey not in ctx.memo:
                ctx.memo[dkey] = [deps_of(t) for t in terms]
            # only the component terms that mention K can distinguish the two spellings
            terms = [t for t, d in zip(terms, ctx.memo[dkey]) if s in d]
            n += 1
            if not terms:
                led.ok(rule, "%s.%s [%s absent vs %s:%s]" % (om.clsname, name, k, k, nd), om.module.where(om.cls.methods[name].node), "result does not mention %s" % k)
                continue
            a = pinned_canon(om, st, {s: (ABSENT,)}, terms)
            b = pinned_canon(om, st, {s: (nd,)}, terms)
            same = a is not None and b is not None and len(a) == len(b) and all(x == y for x, y in zip(a, b))
            led.check(
                same,
                rule,
                "%s.%s [%s absent vs %s:%s]" % (om.clsname, name, k, k, nd),
                om.module.where(om.cls.methods[name].node),
                "%s() distinguishes an omitted %s from %s:%s" % (name, k, k, nd),
            )
        if v == 4:
            terms4 = v4_terms_over_groups(om)
            for gname, pairs in v4_class_pairs(om, s, (ABSENT,), (nd,)):
                n += 1
                bad = [(c1, c2) for c1, c2 in pairs if not v4_invariant(om, gname, c1, c2, terms4)]
                led.check(
                    not bad,
                    rule,
                    "CVSS4 score via %s [%s absent vs %s:%s]" % (gname, k, k, nd),
                    "cvss/cvss4.py",
                    "the v4 score distinguishes an omitted %s from %s:%s (effective-value classes %s)" % (k, k, nd, bad[:1]),
                )
    return n


# ---------------------------------------------------------------------------------------------
# C06


def score_terms(om, v):
    if v == 4:
        return {"base_score": om.attr("base_score")}
    return dict((a, om.attr(a)) for a in SCORE_ATTRS)


def check_c06(ctx, led, v):
    om = get_model(ctx, v)
    spec = ctx.vspec(v)
    nd = spec["nd"]
    st = om.st
    scores = score_terms(om, v)
    names = sorted(scores)
    terms = [scores[a] for a in names]
    modified_of = spec.get("modified_of", {})
    where = "cvss/%s.py" % om.modname
    n = 0

    def defined(term):
        return term

    # (a) ND modified metric == set to the base value
    for mk, b in sorted(modified_of.items()):
        sm, sb = metric_slot(mk), metric_slot(b)
        if v == 4:
            terms4 = v4_terms_over_groups(om)
            for val in [x for x in om.space.dom[sb] if x is not ABSENT]:
                if val not in om.space.dom[sm]:
                    continue
                for gname, pairs in v4_class_pairs(om, sm, (nd, ABSENT), (val,), fixed={sb: val}):
                    n += 1
                    bad = [(c1, c2) for c1, c2 in pairs if not v4_invariant(om, gname, c1, c2, terms4)]
                    led.check(
                        not bad,
                        "C06.a",
                        "CVSS4 score via %s [%s:%s vs %s:%s with %s:%s]" % (gname, mk, nd, mk, val, b, val),
                        where,
                        "setting the Not Defined %s to its base metric's value %s changes the v4 score" % (mk, val),
                    )
            continue
        for val in [x for x in st.folder().domain(sb) if x is not ABSENT]:
            if val not in om.space.dom[sm]:
                continue
            a = pinned_canon(om, st, {sm: (nd,), sb: (val,)}, terms)
            c = pinned_canon(om, st, {sm: (val,), sb: (val,)}, terms)
            n += 1
            led.check(
                a is not None and c is not None and all(x == y for x, y in zip(a, c)),
                "C06.a",
                "%s scores [%s:%s vs %s:%s with %s:%s]" % (om.clsname, mk, nd, mk, val, b, val),
                where,
                "setting the Not Defined %s to its base metric's value %s changes a score" % (mk, val),
            )
    # (b) ND == the equivalent value
    equiv = dict(spec.get("nd_equivalent", {}))
    if v == 4:
        equiv = dict(spec["x_default"])
    for k, ev in sorted(equiv.items()):
        s = metric_slot(k)
        if v == 4:
            terms4 = v4_terms_over_groups(om)
            for gname, pairs in v4_class_pairs(om, s, (nd, ABSENT), (ev,)):
                n += 1
                bad = [(c1, c2) for c1, c2 in pairs if not v4_invariant(om, gname, c1, c2, terms4)]
                led.check(
                    not bad,
                    "C06.b",
                    "CVSS4 score via %s [%s:%s vs %s:%s]" % (gname, k, nd, k, ev),
                    where,
                    "%s:%s must count as %s:%s for the v4 score" % (k, nd, k, ev),
                )
            continue
        # definedness of a score is exempt ("every defined score"): compare under a state where
        # the other metrics of the group keep the score defined is not needed for v3; for v2 the
        # None-guard differs by design, so compare the numeric arm only
        a = pinned_canon(om, st, {s: (nd,)}, terms)
        c = pinned_canon(om, st, {s: (ev,)}, terms)
        n += 1
        ok = a is not None and c is not None and all(_numeric_arm(x) == _numeric_arm(y) for x, y in zip(a, c))
        led.check(
            ok,
            "C06.b",
            "%s scores [%s:%s vs %s:%s]" % (om.clsname, k, nd, k, ev),
            where,
            "%s:%s and the value the specification declares equivalent (%s) give different scores" % (k, nd, ev),
        )
    # (c) v4 supplemental metrics never reach the score
    if v == 4:
        deps = expand_deps(om, deps_of(scores["base_score"]))
        for k in spec["groups"]["supplemental"]:
            n += 1
            led.check(
                metric_slot(k) not in deps,
                "C06.c",
                "CVSS4.base_score deps [%s]" % k,
                where,
                "supplemental metric %s influences the score" % k,
            )
        extra = sorted(d for d in deps if not d.startswith("m:"))
        led.check(not extra, "C06.c", "CVSS4.base_score deps [other]", where, "score depends on %s" % extra)
    # (d) a base metric overridden by a defined modified metric does not influence env (v3) / score (v4)
    for mk, b in sorted(modified_of.items()):
        sm, sb = metric_slot(mk), metric_slot(b)
        defined_vals = [x for x in om.space.dom[sm] if x is not ABSENT and x != nd]
        if v == 3:
            if mk == "MS":
                # Scope itself selects the base formula; the environmental score must not depend on S
                pass
            t = pinned_canon(om, st, {sm: defined_vals}, [scores["environmental_score"]])
            n += 1
            led.check(
                t is not None and sb not in deps_of(t[0]),
                "C06.d",
                "CVSS3.environmental_score [%s defined, vary %s]" % (mk, b),
                where,
                "the environmental score still depends on %s although %s is defined" % (b, mk),
            )
        elif v == 4:
            dname = om.v4["eff"].get(b) or om.v4["eff"].get(mk)
            d = om.space.defs.get(dname) if dname else None
            n += 1
            if d is None:
                led.violation("C06.d", "CVSS4 effective %s" % b, where, "scoring never consults the effective value of %s" % b)
                continue
            t = pinned_canon(om, st, {sm: defined_vals}, [d])
            led.check(
                t is not None and sb not in deps_of(t[0]),
                "C06.d",
                "CVSS4 %s [%s defined, vary %s]" % (dname, mk, b),
                where,
                "the effective value of %s still depends on the base metric although %s is defined" % (b, mk),
            )
            # ... and the score itself must not read the overridden base metric directly
            t2 = pinned_canon(om, st, {sm: defined_vals}, [scores["base_score"]])
            raw = set(x for x in deps_of(t2[0]) if x.startswith("m:")) if t2 is not None else set()
            n += 1
            led.check(
                sb not in raw,
                "C06.d",
                "CVSS4.base_score [%s defined, vary %s]" % (mk, b),
                where,
                "the score reads the base metric %s directly (not through the effective value) although %s overrides it" % (b, mk),
            )
    # (e) base score independent of temporal/environmental metrics, temporal of environmental
    if v in (2, 3):
        groups = spec["groups"]
        base_slots = set(metric_slot(k) for k in groups["base"])
        temp_slots = set(metric_slot(k) for k in groups["temporal"])
        allowed = {"base_score": base_slots, "temporal_score": base_slots | temp_slots}
        if v == 3:
            allowed["base_score"] = base_slots
        for a in ("base_score", "temporal_score"):
            d = set(x for x in deps_of(scores[a]) if x.startswith("m:"))
            n += 1
            extra = sorted(d - allowed[a])
            led.check(
                not extra,
                "C06.e",
                "%s.%s deps" % (om.clsname, a),
                where,
                "self.%s depends on %s" % (a, [x[2:] for x in extra]),
            )
            led.check(
                "minor" not in deps_of(scores[a]) if v == 3 else True,
                "C06.e.minor",
                "%s.%s minor" % (om.clsname, a),
                where,
                "the %s depends on the minor version (3.0 and 3.1 share the base and temporal equations)" % a,
            )
    # scoring reads only the filled map: original_metrics must not be read while scoring
    return n


def _numeric_arm(t):
    """For a v2 optional score ITE(all ND, None, x) return x (definedness is exempt in C06)."""
    if isinstance(t, App) and t.op == "ite":
        for a in t.args[1:]:
            if not (isinstance(a, Const) and a.v is None):
                return a
    return t


def check_models_order(ctx, led, prop, only_hash=False):
    """Every object model built in this run fixes one iteration order for the parsed metric map;
    what the property's rules establish on it holds for every field order only if construction
    never iterates that map (C05's rule, discharged here for the models this run used)."""
    n = 0
    done = set(v_["rule"] + v_["construct_key"] for v_ in led.violations if "order" in v_["rule"])
    for mk, om in list(ctx.memo.items()):
        if not (isinstance(mk, tuple) and mk and mk[0] == "objmodel") or isinstance(om, Exception):
            continue
        n += 1
        for e in om.events(init_only=True):
            if e.kind == "hash_order_flow":
                ck = "%s::%s" % (e.func.qualname if e.func else "?", short(e.node))
                if ck in done:
                    continue
                done.add(ck)
                matters, why = order_matters(ctx, om.v, "__init__")
                if matters:
                    led.violation(
                        "%s.model.hashorder" % prop,
                        ck,
                        e.where(),
                        "construction iterates a set, whose order changes with the hash seed and the interpreter, and the constructed "
                        "state depends on that order (%s): the state this property is decided on is the state for one order only" % why.replace("when the fields are written in the reverse order", "when sets are iterated in another order"),
                    )
                continue
            if e.kind != "input_order_iter" or only_hash:
                continue
            ck = "%s::%s" % (e.func.qualname if e.func else "?", short(e.node))
            if any(ck in d for d in done):
                continue
            done.add(ck)
            if not order_matters(ctx, om.v, "__init__")[0]:
                continue
            led.violation(
                "%s.model.order" % prop,
                ck,
                e.where(),
                "construction iterates the parsed metric map (%s): its order is the input's field order, so the state this "
                "property is decided on is the state for one field order only" % e.data.get("what"),
            )
    return n


def order_matters(ctx, v, sink):
    """Does an iteration of the parsed metric map in field order reach what `sink` reports
    ("__init__": the state construction leaves)?  Decided by comparison: the object model is built
    a second time with the parsed map holding its keys in the reverse order, and the canonical
    results of both models are compared (a result that is sorted by a total key, built through
    keyed lookups, or reduced by any/all/len is identical; one that keeps the iteration order, or
    resolves ties or overwrites by it, is not).  Returns (False, None) | (True, description).
    AnalysisError when the reversed model cannot be interpreted (not decided)."""
    key = ("order_matters", v, sink)
    if key in ctx.memo:
        return ctx.memo[key]
    from .interp import Inst

    oa = get_model(ctx, v)
    ob = get_model(ctx, v, map_order="reversed")

    def canon_list(om, val, st):
        cn = Canon(om.ev, st)
        out = []
        for t in flat_terms(val, st):
            try:
                out.append(cn(t))
            except AnalysisError:
                out.append(t)
        if isinstance(val, Ref) and st.heap[val.id].kind == "map":
            out.append(tuple(st.heap[val.id].order))
        return out

    res = (False, None)
    if sink == "__init__":
        ia, ib = oa.st.heap[oa.self_ref.id], ob.st.heap[ob.self_ref.id]
        for name in sorted(set(ia.attrs) | set(ib.attrs)):
            va, vb = ia.attrs.get(name), ib.attrs.get(name)
            pa = isinstance(va, Ref) and oa.st.heap[va.id].kind == "map" and getattr(oa.st.heap[va.id], "input_ordered", False)
            if pa:
                # the parsed map itself (and copies of it) legitimately keeps the field order;
                # compare its content per key
                ma, mb = oa.st.heap[va.id], ob.st.heap[vb.id] if isinstance(vb, Ref) else None
                if mb is None or set(ma.order) != set(mb.order):
                    res = (True, "self.%s holds different keys" % name)
                    break
                ca, cb = Canon(oa.ev, oa.st), Canon(ob.ev, ob.st)
                for k in ma.order:
                    ea, eb = ma.entries[k], mb.entries[k]
                    if [ca(x) if isinstance(x, Term) else x for x in ea] != [cb(x) if isinstance(x, Term) else x for x in eb]:
                        res = (True, "self.%s[%r] differs between field orders" % (name, k))
                        break
                if res[0]:
                    break
                continue
            if va is None or vb is None:
                res = (True, "self.%s is set for one field order only" % name)
                break
            if canon_list(oa, va, oa.st) != canon_list(ob, vb, ob.st):
                res = (True, "self.%s differs when the fields are written in the reverse order" % name)
                break
    else:
        va, sta, _ = oa.call(sink)
        vb, stb, _ = ob.call(sink)
        if canon_list(oa, va, sta) != canon_list(ob, vb, stb):
            res = (True, "%s() differs when the fields are written in the reverse order" % sink)
    ctx.memo[key] = res
    return res
