"""C17 — structural analysis of cvss_calculator.main (decision tables, containment, provenance)."""

from __future__ import annotations

import ast
import itertools

from . import guards as G
from .rules_inter import chain_result, eval_guard
from .rules_parse import call_of, exception_hierarchy
from .srcmodel import AnalysisError, norm_src, short

EXPECTED_FLAGS = {
    "2": ("-2", "store_true"),
    "3": ("-3", "store_true"),
    "4": ("-4", "store_true"),
    "all": ("-a", "store_true"),
    "vector": ("-v", None),
    "no_colors": ("-n", "store_true"),
    "json": ("-j", "store_true"),
}
VERSION_OF_FLAG = {"2": 2, "3": 3.0, "4": 4.0}
DEFAULT = 3.1
CLASS_OF_VERSION = {2: "CVSS2", 3.0: "CVSS3", 3.1: "CVSS3", 4.0: "CVSS4"}


def dest_of(call):
    """argparse dest of an add_argument call."""
    for kw in call.keywords:
        if kw.arg == "dest" and isinstance(kw.value, ast.Constant):
            return kw.value.value
    opts = [a.value for a in call.args if isinstance(a, ast.Constant) and isinstance(a.value, str)]
    longs = [o for o in opts if o.startswith("--")]
    if longs:
        return longs[0][2:].replace("-", "_")
    if opts:
        return opts[0].lstrip("-").replace("-", "_")
    return None


def check_c17(ctx, led):
    f = ctx.repo.function("cvss_calculator", "main")
    module = f.module
    where = module.where(f.node)
    # ---- flags
    adds = [n for n in ast.walk(f.node) if isinstance(n, ast.Call) and isinstance(n.func, ast.Attribute) and n.func.attr == "add_argument"]
    adds.sort(key=lambda n: (n.lineno, n.col_offset))
    dests = []
    for a in adds:
        d = dest_of(a)
        action = None
        for kw in a.keywords:
            if kw.arg == "action" and isinstance(kw.value, ast.Constant):
                action = kw.value.value
        opts = [x.value for x in a.args if isinstance(x, ast.Constant)]
        dests.append((d, opts, action))
    found = dict((d, (opts, action)) for d, opts, action in dests)
    for d, (opt, action) in EXPECTED_FLAGS.items():
        led.check(
            d in found and opt in found[d][0] and found[d][1] == action,
            "C17.flags",
            "cvss_calculator.main::option %s" % opt,
            where,
            "option %s (dest %r, action %r) is missing or changed: %s" % (opt, d, action, found.get(d)),
        )
    # options must be registered on the parser itself with nothing that can reject a command line
    parser_names = set()
    for n in ast.walk(f.node):
        if isinstance(n, ast.Assign) and isinstance(n.value, ast.Call) and norm_src(n.value.func).endswith("ArgumentParser"):
            for t in n.targets:
                if isinstance(t, ast.Name):
                    parser_names.add(t.id)
    for a in adds:
        recv = a.func.value
        d = dest_of(a)
        led.check(
            isinstance(recv, ast.Name) and recv.id in parser_names,
            "C17.flags.parser",
            "cvss_calculator.main::%s" % short(a, 80),
            module.where(a),
            "option %s is not registered directly on the ArgumentParser (e.g. a mutually exclusive group rejects command lines "
            "that combine its options with exit status 2)" % d,
        )
        restrict = [kw.arg for kw in a.keywords if kw.arg in ("required", "choices", "type", "nargs", "const", "metavar") and not (kw.arg == "metavar")]
        led.check(
            not restrict,
            "C17.flags.restrict",
            "cvss_calculator.main::%s" % short(a, 80),
            module.where(a),
            "option %s is declared with %s: argparse may now reject (exit 2) or transform command lines the property covers" % (d, restrict),
        )
    for n in ast.walk(f.node):
        if isinstance(n, ast.Call):
            nm = n.func.attr if isinstance(n.func, ast.Attribute) else n.func.id if isinstance(n.func, ast.Name) else ""
            if nm in ("add_mutually_exclusive_group", "add_subparsers", "error", "exit", "_exit", "abort"):
                led.violation(
                    "C17.flags.exit",
                    "cvss_calculator.main::%s" % short(n, 80),
                    module.where(n),
                    "%s() can end the program with a non-zero status for a command line built from the listed flags" % nm,
                )
    order = [d for d, _, _ in dests]
    # ---- version selection
    sel = None
    mapping = None
    default_name = None
    for n in ast.walk(f.node):
        if isinstance(n, ast.Assign) and isinstance(n.value, ast.Call) and isinstance(n.value.func, ast.Name) and n.value.func.id == "next":
            sel = n
        if isinstance(n, ast.Assign) and isinstance(n.value, ast.Dict) and all(isinstance(k, ast.Constant) for k in n.value.keys):
            try:
                m = dict((k.value, ctx.ce.eval(module, v, "C17.version")) for k, v in zip(n.value.keys, n.value.values))
            except AnalysisError:
                continue
            if any(isinstance(k, str) and k in ("2", "3", "4") for k in m):
                mapping = (n, m)
    if sel is None or mapping is None:
        raise AnalysisError("C17.version", "version selection idiom not recognised (next(...) over the flags + mapping dict)", f.node, module)
    call = sel.value
    gen = call.args[0] if call.args else None
    dflt = call.args[1] if len(call.args) > 1 else None
    if not isinstance(gen, ast.GeneratorExp) or len(gen.generators) != 1 or not (isinstance(dflt, ast.Constant) and dflt.value is None):
        raise AnalysisError("C17.version", "version selection is not next((...), None)", sel, module)
    g = gen.generators[0]
    it_src = norm_src(g.iter)
    key_name = None
    iter_order = None
    plain_dict_order = False
    cond_ok = False
    if it_src in ("args.__dict__.items()", "vars(args).items()"):
        plain_dict_order = True
        iter_order = list(order)
        if isinstance(g.target, ast.Tuple) and len(g.target.elts) == 2:
            key_name = g.target.elts[0].id
            val_name = g.target.elts[1].id
            cond_ok = len(g.ifs) == 1 and isinstance(g.ifs[0], ast.Name) and g.ifs[0].id == val_name
    elif isinstance(g.iter, (ast.Tuple, ast.List)) and all(isinstance(e, ast.Constant) for e in g.iter.elts):
        iter_order = [e.value for e in g.iter.elts]
        if isinstance(g.target, ast.Name):
            key_name = g.target.id
            c = norm_src(g.ifs[0]) if len(g.ifs) == 1 else ""
            cond_ok = c in (
                "getattr(args, %s)" % key_name,
                "args.__dict__[%s]" % key_name,
                "vars(args)[%s]" % key_name,
                "getattr(args, %s, False)" % key_name,
                "getattr(args, %s, None)" % key_name,
            )
    elif isinstance(g.iter, ast.Name) and mapping is not None and g.iter.id == mapping[0].targets[0].id:
        raise AnalysisError("C17.version", "iteration over the plain mapping dict is order-dependent", sel, module)
    if iter_order is None or not cond_ok or not (isinstance(gen.elt, ast.Name) and gen.elt.id == key_name):
        raise AnalysisError("C17.version", "version selection generator not recognised: %s" % short(sel), sel, module)
    sel_name = sel.targets[0].id
    # version = mapping.get(sel_name, DEFAULT)
    vassign = None
    for n in ast.walk(f.node):
        if isinstance(n, ast.Assign) and isinstance(n.targets[0], ast.Name) and n.targets[0].id == "version":
            vassign = n
    mname = mapping[0].targets[0].id
    if vassign is None or not (call_of(vassign.value, "get") and norm_src(call_of(vassign.value, "get")[0]) == mname):
        raise AnalysisError("C17.version", "version is not looked up in the mapping", f.node, module)
    gargs = call_of(vassign.value, "get")[1]
    try:
        dval = ctx.ce.eval(module, gargs[1], "C17.version") if len(gargs) > 1 else None
    except AnalysisError:
        dval = None
    dval = float(dval.q) if hasattr(dval, "q") else dval
    mp = dict((k, (float(v.q) if hasattr(v, "q") else v)) for k, v in mapping[1].items())
    bad = []
    rows = 0
    others = [d for d in order if d not in VERSION_OF_FLAG]
    for bits in itertools.product((False, True), repeat=len(order)):
        env = dict(zip(order, bits))
        rows += 1
        first = None
        for k in iter_order:
            if env.get(k):
                first = k
                break
        version = mp.get(first, dval)
        vf = [k for k in VERSION_OF_FLAG if env.get(k)]
        if len(vf) == 1:
            want = VERSION_OF_FLAG[vf[0]]
        elif not vf:
            want = DEFAULT
        else:
            continue  # several version flags: not specified by the property
        if version != want:
            bad.append((sorted(k for k in env if env[k]), version, want))
    led.check(
        not bad,
        "C17.version",
        "cvss_calculator.main::%s" % short(sel),
        module.where(sel),
        "flag combination %s selects version %s, expected %s (%d of %d rows wrong)" % ((bad[0] + (len(bad), rows)) if bad else (None, None, None, 0, rows)),
    )
    led.count("version_rows", rows)
    summ = {"plain_dict_order": plain_dict_order, "sel": sel, "module": module}
    # ---- dispatch
    versions = sorted(set(list(mp.values()) + [dval]), key=float)
    disp = None
    head = None
    def names_in(node):
        return set(x.id for x in ast.walk(node) if isinstance(x, ast.Name))

    for n in ast.walk(f.node):
        if isinstance(n, ast.If):
            src = ast.unparse(n)
            if {"CVSS2", "CVSS3"} <= names_in(n) and disp is None and not any(isinstance(x, ast.Try) for x in ast.walk(n)) and "print" not in names_in(n):
                disp = n
            if "print('CVSS2')" in src and head is None and not any(isinstance(x, ast.Try) for x in ast.walk(n)):
                head = n
    if disp is None:
        raise AnalysisError("C17.dispatch", "class dispatch chain not found", f.node, module)
    obj_name = None
    ctor_calls = []
    class_var = None
    for v in versions:
        arm = chain_result(disp, {"version": v})
        ctor = [x for b in arm for x in ast.walk(b) if isinstance(x, ast.Call) and isinstance(x.func, ast.Name) and x.func.id.startswith("CVSS") and x.func.id[4:].isdigit()]
        got = ctor[0].func.id if ctor else None
        ctor_calls.extend(ctor)
        for b in arm:
            if isinstance(b, ast.Assign) and isinstance(b.targets[0], ast.Name):
                if ctor:
                    obj_name = b.targets[0].id
                elif isinstance(b.value, ast.Name) and b.value.id.startswith("CVSS") and b.value.id[4:].isdigit():
                    # the arm selects the class; it is instantiated after the chain
                    class_var = b.targets[0].id
                    got = b.value.id
        if got is None and not G.terminates(arm):
            raise AnalysisError("C17.dispatch", "cannot tell which class scores version %s" % v, disp, module)
        led.check(
            got == CLASS_OF_VERSION.get(v),
            "C17.dispatch",
            "cvss_calculator.main::version %s -> class" % v,
            module.where(disp),
            "version %s is scored with %s, expected %s" % (v, got, CLASS_OF_VERSION.get(v)),
        )
    if class_var is not None:
        for n in ast.walk(f.node):
            if isinstance(n, ast.Call) and isinstance(n.func, ast.Name) and n.func.id == class_var:
                ctor_calls.append(n)
                st_ = _stmt(module, n)
                if isinstance(st_, ast.Assign) and isinstance(st_.targets[0], ast.Name):
                    obj_name = st_.targets[0].id
    if head is not None:
        for v in versions:
            arm = chain_result(head, {"version": v})
            txt = [x.value for b in arm for x in ast.walk(b) if isinstance(x, ast.Constant) and isinstance(x.value, str) and x.value.startswith("CVSS")]
            sev = any(call_of(x, "severities") for b in arm for x in ast.walk(b))
            led.check(
                txt == [CLASS_OF_VERSION[v]] and sev == (v >= 3.0),
                "C17.dispatch.heading",
                "cvss_calculator.main::version %s heading" % v,
                module.where(head),
                "version %s prints heading %s / ratings=%s" % (v, txt, sev),
            )
    # ---- the string handed to the library is the one given / built, untransformed
    for c in ctor_calls:
        ok_arg = len(c.args) == 1 and isinstance(c.args[0], ast.Name) and not c.keywords
        src_ok = False
        if ok_arg:
            vname_ = c.args[0].id
            assigns = [n for n in ast.walk(f.node) if isinstance(n, ast.Assign) and any(isinstance(t, ast.Name) and t.id == vname_ for t in n.targets)]
            src_ok = bool(assigns) and all(
                norm_src(a.value) == "args.vector" or (isinstance(a.value, ast.Call) and isinstance(a.value.func, ast.Name) and a.value.func.id == "ask_interactively")
                for a in assigns
            )
        led.check(
            ok_arg and src_ok,
            "C17.vector",
            "cvss_calculator.main::%s argument" % short(c),
            module.where(c),
            "the library must receive exactly the -v argument or the interactive builder's result; a transformed string makes the "
            "CLI report scores where the library API would report an error (or vice versa)",
        )
    # ---- containment
    anc = exception_hierarchy(ctx)
    for c in ctor_calls:
        tries = G.enclosing_try_handlers(module, c)
        covered = False
        printed = False
        for t in tries:
            for h in t.handlers:
                for nm in G.handler_names(h, module):
                    if nm in ("CVSSError", "Exception", "*"):
                        covered = True
                        printed = any(isinstance(x, ast.Call) and isinstance(x.func, ast.Name) and x.func.id == "print" and x.args and isinstance(x.args[0], ast.Name) and x.args[0].id == h.name for x in ast.walk(h))
        led.check(
            covered,
            "C17.contain",
            "cvss_calculator.main::%s" % short(c),
            module.where(c),
            "the constructor call is not inside try/except CVSSError: an invalid vector produces a traceback",
        )
        led.check(
            printed,
            "C17.contain.message",
            "cvss_calculator.main::%s handler" % short(c),
            module.where(c),
            "the CVSSError handler must print the library's error message",
        )
    inter = [n for n in ast.walk(f.node) if isinstance(n, ast.Call) and isinstance(n.func, ast.Name) and n.func.id == "ask_interactively"]
    for c in inter:
        names = set()
        for t in G.enclosing_try_handlers(module, c):
            for h in t.handlers:
                names |= set(G.handler_names(h, module))
        led.check(
            {"KeyboardInterrupt", "EOFError"} <= names or "*" in names or "BaseException" in names,
            "C17.contain.eof",
            "cvss_calculator.main::%s" % short(c),
            module.where(c),
            "end of input / Ctrl-C during interactive entry is not caught (handlers: %s)" % sorted(names),
        )
    # subscripts scores[i]/severities[i] protected against IndexError
    for n in ast.walk(f.node):
        if isinstance(n, ast.Subscript) and isinstance(n.ctx, ast.Load) and isinstance(n.value, ast.Name) and n.value.id in ("scores", "severities"):
            names = set()
            for t in G.enclosing_try_handlers(module, n):
                for h in t.handlers:
                    names |= set(G.handler_names(h, module))
            led.check(
                "IndexError" in names or "Exception" in names or "*" in names,
                "C17.contain.index",
                "cvss_calculator.main::%s" % short(n),
                module.where(n),
                "%s may raise IndexError for CVSS4 (one score only)" % short(n),
            )
    # ---- provenance of what is printed
    def calls_on_obj(meth):
        return [n for n in ast.walk(f.node) if call_of(n, meth) and isinstance(call_of(n, meth)[0], ast.Name) and call_of(n, meth)[0].id == obj_name]

    for meth in ("scores", "clean_vector", "rh_vector", "as_json", "severities"):
        cs = calls_on_obj(meth)
        led.check(bool(cs), "C17.print", "cvss_calculator.main::%s()" % meth, where, "main() no longer reports %s() of the constructed object" % meth)
        for c in cs:
            if meth == "as_json":
                kws = dict((kw.arg, kw.value.value if isinstance(kw.value, ast.Constant) else None) for kw in c.keywords)
                led.check(
                    kws.get("sort") is True and kws.get("minimal") is True and not c.args,
                    "C17.print.json",
                    "cvss_calculator.main::%s" % short(c),
                    module.where(c),
                    "-j must print the sorted minimal as_json() (found %s)" % short(c),
                )
                facts = G.dominating_facts(module, _stmt(module, c))
                led.check(
                    any(fa.pol and norm_src(fa.expr) == "args.json" for fa in facts),
                    "C17.print.json.flag",
                    "cvss_calculator.main::%s guard" % short(c),
                    module.where(c),
                    "the JSON document must be printed exactly with -j",
                )
            elif meth in ("clean_vector", "rh_vector"):
                led.check(
                    not c.args and not c.keywords and _in_print(module, c),
                    "C17.print",
                    "cvss_calculator.main::%s" % short(c),
                    module.where(c),
                    "%s() must be printed with default arguments" % meth,
                )
    # score lines: scores[i] with severities[i] of the same index
    for n in ast.walk(f.node):
        if isinstance(n, ast.Tuple) and len(n.elts) == 2:
            a, b = n.elts
            if isinstance(a, ast.Subscript) and norm_src(a.value) == "scores":
                sev = [x for x in ast.walk(b) if isinstance(x, ast.Subscript) and norm_src(x.value) == "severities"]
                led.check(
                    bool(sev) and all(norm_src(x.slice) == norm_src(a.slice) for x in sev),
                    "C17.print.slots",
                    "cvss_calculator.main::%s" % short(n),
                    module.where(n),
                    "a score must be printed with the rating of the same slot",
                )
    for n in ast.walk(f.node):
        if isinstance(n, ast.Assign) and isinstance(n.targets[0], ast.Name) and n.targets[0].id in ("scores", "severities"):
            meth = n.targets[0].id
            if isinstance(n.value, ast.Constant) and n.value.value is None:
                continue  # placeholder initialisation
            led.check(
                bool(call_of(n.value, meth)) and norm_src(call_of(n.value, meth)[0]) == obj_name,
                "C17.print",
                "cvss_calculator.main::%s" % short(n),
                module.where(n),
                "%s must come from %s.%s()" % (meth, obj_name, meth),
            )
    return rows, summ


def _stmt(module, n):
    while not isinstance(n, ast.stmt):
        n = module.parent(n)
    return n


def _in_print(module, n):
    for a in module.ancestors(n):
        if isinstance(a, ast.Call) and isinstance(a.func, ast.Name) and a.func.id == "print":
            return True
        if isinstance(a, ast.stmt):
            return False
    return False


def _is_reader_expr(ctx, mod, e, depth):
    """Does the expression denote the builtin input / raw_input (directly, as an attribute of the
    builtins module, through getattr(builtins, "raw_input", <input>), or as the value a helper of
    the package returns on every path)?"""
    if depth > 3:
        return False
    if isinstance(e, ast.Name) and e.id in ("input", "raw_input"):
        return ctx.repo.resolve_global(mod, e.id) is None
    if isinstance(e, ast.Attribute) and e.attr in ("input", "raw_input") and isinstance(e.value, ast.Name) and "builtin" in e.value.id:
        return True
    if isinstance(e, ast.Call) and isinstance(e.func, ast.Name) and e.func.id == "getattr" and len(e.args) == 3:
        if isinstance(e.args[1], ast.Constant) and e.args[1].value in ("raw_input", "input"):
            return _is_reader_expr(ctx, mod, e.args[2], depth + 1)
    if isinstance(e, ast.Call) and isinstance(e.func, ast.Name) and not e.args and not e.keywords:
        r = ctx.repo.resolve_global(mod, e.func.id)
        if r is not None and r[0] == "func":
            rets = [x for x in ast.walk(r[1].node) if isinstance(x, ast.Return)]
            return bool(rets) and all(x.value is not None and _is_reader_expr(ctx, r[1].module, x.value, depth + 1) for x in rets)
    return False


def check_eof_source(ctx, led, rule="C17.eof.source"):
    """End of input ends the program cleanly only if the builder's read raises EOFError there:
    every read in interactive.py must go through the builtin input()/raw_input() (directly or via a
    module-level alias of them); sys.stdin.readline()/read() return '' at end of input instead, which
    the answer loop takes for an empty answer and asks again for ever."""
    m = ctx.repo.module("interactive")
    f = ctx.repo.function("interactive", "ask_interactively")
    from .rules_access import get_effects

    E = get_effects(ctx)
    reach = set(E.reachable([f.qualname], loose_methods=False))
    # methods of helper classes defined next to the builder are reached through local instances
    # (question.ask()): follow calls by method name, but only into the builder's own module
    for q in E.reachable([f.qualname], loose_methods=True):
        if E.by_qual[q].module is m:
            reach.add(q)
    n_reads = 0
    for q in sorted(reach):
        fn = E.by_qual[q]
        mod = fn.module
        for n in ast.walk(fn.node):
            if not isinstance(n, ast.Call):
                continue
            src = norm_src(n.func)
            if isinstance(n.func, ast.Attribute) and n.func.attr in ("readline", "read", "readlines") and "stdin" in src:
                n_reads += 1
                led.violation(
                    rule,
                    "%s::%s" % (q, short(n)),
                    mod.where(n),
                    "%s returns '' at end of input instead of raising EOFError: the answer loop treats it as an empty answer and "
                    "repeats the question for ever (mandatory metric) or silently fills in Not Defined, and main()'s EOFError handler is never reached" % src,
                )
            elif isinstance(n.func, ast.Name):
                r = ctx.repo.resolve_global(mod, n.func.id)
                if n.func.id in ("input", "raw_input") and r is None:
                    n_reads += 1
                    led.ok(rule, "%s::%s" % (q, short(n)), mod.where(n), "builtin %s raises EOFError at end of input" % n.func.id)
                elif r is not None and r[0] == "value":
                    # alias bound at module level: every binding must be input / raw_input
                    binds = [x for x in ast.walk(r[1].tree) if isinstance(x, ast.Assign) and any(isinstance(t, ast.Name) and t.id == n.func.id for t in x.targets)]
                    vals = ["input" if _is_reader_expr(ctx, r[1], b.value, 0) else norm_src(b.value) for b in binds]
                    if vals and any(v in ("input", "raw_input") for v in vals):
                        n_reads += 1
                        led.check(
                            all(v in ("input", "raw_input") for v in vals),
                            rule,
                            "%s::%s" % (q, short(n)),
                            mod.where(n),
                            "%s is bound to %s: not every binding is the builtin input()/raw_input()" % (n.func.id, vals),
                        )
    if n_reads == 0:
        raise AnalysisError(rule, "no read of the user's answer found under ask_interactively", f.node, m)
    return n_reads
