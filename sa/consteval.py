"""E2 — static evaluation of literal tables.

Only a literal grammar is evaluated: dict/list/tuple/str/number literals, OrderedDict([...]),
D("...")/Decimal("..."), arithmetic on numeric literals, references to other module-level
constants, pure str methods on constants.  Anything else raises AnalysisError (non-literal table).
"""

from __future__ import annotations

import ast
from fractions import Fraction

from .srcmodel import AnalysisError, short

ORDERED_DICT_NAMES = ("collections.OrderedDict", "ordereddict.OrderedDict")
DECIMAL_NAMES = ("decimal.Decimal",)


class Num(object):
    """Exact rational value of a numeric literal that is not a plain int."""

    kind = "num"
    __slots__ = ("q", "text", "node")

    def __init__(self, q, text=None, node=None):
        self.q = Fraction(q)
        self.text = text
        self.node = node

    def __eq__(self, o):
        return isinstance(o, Num) and self.kind == o.kind and self.q == o.q

    def __ne__(self, o):
        return not self.__eq__(o)

    def __hash__(self):
        return hash((self.kind, self.q))

    def __repr__(self):
        return "%s(%s)" % (self.kind, self.text if self.text is not None else str(self.q))


class Dec(Num):
    kind = "dec"
    __slots__ = ()


class Flt(Num):
    kind = "flt"
    __slots__ = ()


class NaN(object):
    """float('nan')"""

    _inst = None

    def __new__(cls):
        if cls._inst is None:
            cls._inst = object.__new__(cls)
        return cls._inst

    def __repr__(self):
        return "nan"


NAN = NaN()


def qof(v):
    """Exact rational of a numeric table value (int/bool excluded from bool)."""
    if isinstance(v, bool):
        raise TypeError("bool is not numeric here")
    if isinstance(v, int):
        return Fraction(v)
    if isinstance(v, Num):
        return v.q
    if isinstance(v, Fraction):
        return v
    raise TypeError("not numeric: %r" % (v,))


def is_num(v):
    return (isinstance(v, int) and not isinstance(v, bool)) or isinstance(v, (Num, Fraction))


class TDict(dict):
    """dict literal with provenance. ordered=True for OrderedDict([...])."""

    ordered = False

    def __init__(self):
        dict.__init__(self)
        self.node = None
        self.key_nodes = {}
        self.val_nodes = {}
        self.dups = []
        self.module = None

    def order(self):
        return list(self.keys())


class ODict(TDict):
    ordered = True


class TList(list):
    def __init__(self, it=()):
        list.__init__(self, it)
        self.node = None
        self.elt_nodes = []
        self.module = None


class TTuple(tuple):
    pass


def float_literal_fraction(text):
    """Exact decimal value of a float literal's *text* (0.1 -> 1/10)."""
    t = text.replace("_", "").lower()
    if "e" in t:
        mant, exp = t.split("e")
        return Fraction(mant) * Fraction(10) ** int(exp)
    return Fraction(t)


class ConstEval(object):
    def __init__(self, repo):
        self.repo = repo
        self.cache = {}
        self.abstract_hook = None
        self.computed = set()
        self.consulted = set()  # (defining module, name) of every module-level constant a rule read

    # -------------------------------------------------------------------------------------
    def table(self, modname, name, rule="E2.table"):
        """Evaluate module-level constant `name` of module `modname`."""
        key = (modname, name)
        if key in self.cache:
            return self.cache[key]
        module = self.repo.module(modname)
        r = self.repo.resolve_global(module, name)
        if r is None:
            raise AnalysisError(rule, "table %s.%s vanished" % (modname, name), module=module)
        if r[0] != "value":
            raise AnalysisError(rule, "%s.%s is not a constant binding" % (modname, name), module=module)
        _, defmod, node = r
        self.consulted.add((defmod.name, self._defname(defmod, node)))
        if len(defmod.assign_nodes.get(self._defname(defmod, node), [0])) > 1:
            raise AnalysisError(
                rule, "table %s.%s is bound more than once" % (modname, name), node, defmod
            )
        try:
            if self.module_mutates(defmod, self._defname(defmod, node)):
                raise AnalysisError(rule, "table %s.%s is filled in by later module-level statements" % (modname, name), node, defmod)
            val = self.eval(defmod, node, rule)
        except AnalysisError as e:
            # a computed table (built by a helper, a loop, an update): fold the module's
            # import-time initialisation abstractly and reify the result, when it is constant
            val = None
            if self.abstract_hook is not None:
                try:
                    val = self.abstract_hook(defmod, self._defname(defmod, node), node)
                except AnalysisError:
                    val = None
            if val is None:
                raise e
            self.computed.add(key)
        self.cache[key] = val
        return val

    def module_mutates(self, module, name):
        """Is the module-level object `name` modified by a top-level statement after its binding
        (item / attribute store, in-place method, also inside a top-level loop or if)?"""
        key = ("mutates", module.name, name)
        if key not in self.cache:
            hit = False
            for stmt in module.tree.body:
                if isinstance(stmt, (ast.FunctionDef, ast.ClassDef, ast.AsyncFunctionDef)):
                    continue
                for n in ast.walk(stmt):
                    if isinstance(n, (ast.Subscript, ast.Attribute)) and isinstance(n.ctx, (ast.Store, ast.Del)):
                        b = n.value
                        while isinstance(b, (ast.Subscript, ast.Attribute)):
                            b = b.value
                        if isinstance(b, ast.Name) and b.id == name:
                            hit = True
                    if (
                        isinstance(n, ast.Call)
                        and isinstance(n.func, ast.Attribute)
                        and isinstance(n.func.value, ast.Name)
                        and n.func.value.id == name
                        and n.func.attr in ("update", "append", "extend", "setdefault", "pop", "insert", "clear", "remove", "sort", "reverse", "popitem", "move_to_end")
                    ):
                        hit = True
                    if isinstance(n, ast.AugAssign) and isinstance(n.target, ast.Name) and n.target.id == name:
                        hit = True
            self.cache[key] = hit
        return self.cache[key]

    def _defname(self, module, node):
        for n, v in module.assigns.items():
            if v is node:
                return n
        return None

    def has(self, modname, name):
        module = self.repo.module(modname)
        r = self.repo.resolve_global(module, name)
        return r is not None and r[0] == "value"

    # -------------------------------------------------------------------------------------
    def ext_name(self, module, node):
        """Dotted external name a Name/Attribute node resolves to, or None."""
        if isinstance(node, ast.Name):
            r = self.repo.resolve_global(module, node.id)
            if r is not None and r[0] == "ext":
                return r[1]
            return None
        if isinstance(node, ast.Attribute):
            base = self.ext_name(module, node.value)
            if base is not None:
                return base + "." + node.attr
        return None

    def eval(self, module, node, rule="E2.literal", env=None):
        ev = self.eval
        if isinstance(node, ast.Constant):
            v = node.value
            if isinstance(v, float):
                seg = ast.get_source_segment(module.source, node)
                try:
                    return Flt(float_literal_fraction(seg), seg, node)
                except Exception:
                    return Flt(Fraction(v), repr(v), node)
            if isinstance(v, (str, int, bool, type(None))):
                return v
            if isinstance(v, bytes):
                return v
            raise AnalysisError(rule, "unsupported constant %r" % (v,), node, module)
        if isinstance(node, ast.Dict):
            d = TDict()
            d.node = node
            d.module = module
            for k, v in zip(node.keys, node.values):
                if k is None:
                    raise AnalysisError(rule, "dict unpacking in literal table", node, module)
                kk = ev(module, k, rule, env)
                try:
                    hash(kk)
                except TypeError:
                    raise AnalysisError(rule, "unhashable literal key", k, module)
                if kk in d:
                    d.dups.append((kk, k))
                d[kk] = ev(module, v, rule, env)
                d.key_nodes[kk] = k
                d.val_nodes[kk] = v
            return d
        if isinstance(node, (ast.List, ast.Set)):
            if isinstance(node, ast.Set):
                raise AnalysisError(rule, "set literal in table (unordered)", node, module)
            l = TList(ev(module, e, rule, env) for e in node.elts)
            l.node = node
            l.module = module
            l.elt_nodes = list(node.elts)
            return l
        if isinstance(node, ast.Tuple):
            return TTuple(ev(module, e, rule, env) for e in node.elts)
        if isinstance(node, ast.Name):
            if env is not None and node.id in env:
                return env[node.id]
            if node.id in ("True", "False", "None"):
                return {"True": True, "False": False, "None": None}[node.id]
            r = self.repo.resolve_global(module, node.id)
            if r is not None and r[0] == "value":
                self.consulted.add((r[1].name, self._defname(r[1], r[2])))
                return self.eval(r[1], r[2], rule)
            raise AnalysisError(rule, "name %s is not a literal constant" % node.id, node, module)
        if isinstance(node, ast.UnaryOp) and isinstance(node.op, (ast.USub, ast.UAdd)):
            v = ev(module, node.operand, rule, env)
            if isinstance(node.op, ast.UAdd):
                return v
            if isinstance(v, int) and not isinstance(v, bool):
                return -v
            if isinstance(v, Num):
                return type(v)(-v.q, "-" + (v.text or str(v.q)), node)
            raise AnalysisError(rule, "unary minus on non-number", node, module)
        if isinstance(node, ast.BinOp):
            a = ev(module, node.left, rule, env)
            b = ev(module, node.right, rule, env)
            return self.binop(module, node, a, b, rule)
        if isinstance(node, ast.Call):
            return self.call(module, node, rule, env)
        if isinstance(node, ast.Subscript):
            base = ev(module, node.value, rule, env)
            idx = ev(module, node.slice, rule, env)
            try:
                return base[idx]
            except Exception:
                raise AnalysisError(rule, "constant subscript fails: %s" % short(node), node, module)
        if isinstance(node, ast.JoinedStr):
            raise AnalysisError(rule, "f-string in literal table", node, module)
        raise AnalysisError(
            rule, "non-literal table expression %s" % short(node), node, module
        )

    def binop(self, module, node, a, b, rule):
        op = node.op
        if isinstance(a, str) and isinstance(b, str) and isinstance(op, ast.Add):
            return a + b
        if isinstance(a, str) and isinstance(b, int) and isinstance(op, ast.Mult):
            return a * b
        if isinstance(a, TList) and isinstance(b, TList) and isinstance(op, ast.Add):
            l = TList(list(a) + list(b))
            l.node = node
            l.module = module
            l.elt_nodes = list(a.elt_nodes) + list(b.elt_nodes)
            return l
        if isinstance(op, ast.Mult):
            for l_, n_ in ((a, b), (b, a)):
                if isinstance(l_, TList) and isinstance(n_, int) and not isinstance(n_, bool):
                    l = TList(list(l_) * max(n_, 0))
                    l.node = node
                    l.module = module
                    l.elt_nodes = list(l_.elt_nodes) * max(n_, 0)
                    return l
        if is_num(a) and is_num(b):
            qa, qb = qof(a), qof(b)
            both_int = isinstance(a, int) and isinstance(b, int)
            kinds = set(x.kind for x in (a, b) if isinstance(x, Num))
            if "dec" in kinds and "flt" in kinds:
                raise AnalysisError(rule, "Decimal mixed with float", node, module)
            if isinstance(op, ast.Add):
                q = qa + qb
            elif isinstance(op, ast.Sub):
                q = qa - qb
            elif isinstance(op, ast.Mult):
                q = qa * qb
            elif isinstance(op, ast.Div):
                if qb == 0:
                    raise AnalysisError(rule, "constant division by zero", node, module)
                q = qa / qb
                if both_int:
                    # true division under Python 3; Python 2 would floor -> C20 lint handles it
                    return Flt(q, None, node)
            elif isinstance(op, ast.Pow):
                if qb.denominator != 1:
                    raise AnalysisError(rule, "non-integer constant exponent", node, module)
                if qa == 0 and qb < 0:
                    raise AnalysisError(rule, "0 ** negative", node, module)
                q = qa ** int(qb)
                if both_int and qb < 0:
                    return Flt(q, None, node)
            elif isinstance(op, ast.FloorDiv) and both_int and qb != 0:
                return int(qa // qb)
            elif isinstance(op, ast.Mod) and both_int and qb != 0:
                return int(qa % qb)
            else:
                raise AnalysisError(rule, "unsupported constant operator", node, module)
            if both_int:
                return int(q)
            if "dec" in kinds:
                return Dec(q, None, node)
            return Flt(q, None, node)
        raise AnalysisError(rule, "unsupported constant operation %s" % short(node), node, module)

    def call(self, module, node, rule, env=None):
        fn = node.func
        ext = self.ext_name(module, fn)
        if ext in ORDERED_DICT_NAMES or (ext is None and isinstance(fn, ast.Name) and fn.id == "dict"):
            ordered = ext in ORDERED_DICT_NAMES
            d = ODict() if ordered else TDict()
            d.node = node
            d.module = module
            if node.keywords:
                if ordered:
                    raise AnalysisError(rule, "OrderedDict(**kw) loses order on old pythons", node, module)
                for kw in node.keywords:
                    if kw.arg is None:
                        raise AnalysisError(rule, "dict(**x) in literal table", node, module)
                    d[kw.arg] = self.eval(module, kw.value, rule, env)
                    d.key_nodes[kw.arg] = kw
                    d.val_nodes[kw.arg] = kw.value
            if len(node.args) > 1:
                raise AnalysisError(rule, "dict() with several positional arguments", node, module)
            if node.args:
                arg = node.args[0]
                if isinstance(arg, (ast.List, ast.Tuple)):
                    for e in arg.elts:
                        if not (isinstance(e, (ast.Tuple, ast.List)) and len(e.elts) == 2):
                            raise AnalysisError(rule, "OrderedDict item is not a pair", e, module)
                        kk = self.eval(module, e.elts[0], rule, env)
                        if kk in d:
                            d.dups.append((kk, e.elts[0]))
                        d[kk] = self.eval(module, e.elts[1], rule, env)
                        d.key_nodes[kk] = e.elts[0]
                        d.val_nodes[kk] = e.elts[1]
                else:
                    src = self.eval(module, arg, rule, env)
                    if isinstance(src, dict):
                        if ordered and not getattr(src, "ordered", False):
                            raise AnalysisError(
                                rule, "OrderedDict built from a plain dict (order undefined on py2)", node, module
                            )
                        for k in src:
                            d[k] = src[k]
                            d.key_nodes[k] = getattr(src, "key_nodes", {}).get(k, arg)
                            d.val_nodes[k] = getattr(src, "val_nodes", {}).get(k, arg)
                    elif isinstance(src, (list, tuple)):
                        for it in src:
                            if not (isinstance(it, (list, tuple)) and len(it) == 2):
                                raise AnalysisError(rule, "dict() item is not a pair", arg, module)
                            if it[0] in d:
                                d.dups.append((it[0], arg))
                            d[it[0]] = it[1]
                            d.key_nodes[it[0]] = arg
                            d.val_nodes[it[0]] = arg
                    else:
                        raise AnalysisError(rule, "dict() of non-literal", node, module)
            return d
        if ext in DECIMAL_NAMES:
            if len(node.args) != 1 or node.keywords:
                raise AnalysisError(rule, "Decimal() with unexpected arguments", node, module)
            a = self.eval(module, node.args[0], rule, env)
            if isinstance(a, str):
                try:
                    return Dec(Fraction(a.strip()), a, node)
                except Exception:
                    raise AnalysisError(rule, "Decimal(%r) is not a finite number" % a, node, module)
            if isinstance(a, int) and not isinstance(a, bool):
                return Dec(Fraction(a), str(a), node)
            if isinstance(a, Flt):
                # Decimal(0.56) is the exact binary expansion of the nearest double, not 0.56: fold
                # the literal the way the compiler does and keep that exact rational, so the
                # weight comparison against the specification reports the difference
                return Dec(Fraction(float(a.q)), "Decimal(%s)" % (a.text if a.text is not None else a.q), node)
            raise AnalysisError(rule, "Decimal() of unsupported literal", node, module)
        if isinstance(fn, ast.Name) and ext is None:
            if fn.id == "float" and len(node.args) == 1:
                a = self.eval(module, node.args[0], rule, env)
                if isinstance(a, str) and a.strip().lower() in ("nan", "+nan", "-nan"):
                    return NAN
                if isinstance(a, str):
                    try:
                        return Flt(float_literal_fraction(a.strip()), a, node)
                    except Exception:
                        pass
                if isinstance(a, int) and not isinstance(a, bool):
                    return Flt(Fraction(a), str(a), node)
                if isinstance(a, Flt):
                    return a
                raise AnalysisError(rule, "float() of unsupported literal", node, module)
            if fn.id == "int" and len(node.args) == 1:
                a = self.eval(module, node.args[0], rule, env)
                if isinstance(a, str):
                    try:
                        return int(a)
                    except Exception:
                        pass
                if isinstance(a, int):
                    return int(a)
                raise AnalysisError(rule, "int() of unsupported literal", node, module)
            if fn.id == "str" and len(node.args) == 1:
                a = self.eval(module, node.args[0], rule, env)
                if isinstance(a, (str, int)) and not isinstance(a, bool):
                    return str(a)
                raise AnalysisError(rule, "str() of unsupported literal", node, module)
            if fn.id in ("list", "tuple") and len(node.args) == 1:
                a = self.eval(module, node.args[0], rule, env)
                if isinstance(a, (list, tuple)):
                    l = TList(a)
                    l.node = node
                    l.module = module
                    l.elt_nodes = list(getattr(a, "elt_nodes", [node] * len(a)))
                    return l if fn.id == "list" else TTuple(a)
                if isinstance(a, dict) and getattr(a, "ordered", False):
                    l = TList(a.keys())
                    l.node = node
                    l.module = module
                    l.elt_nodes = [a.key_nodes.get(k, node) for k in a]
                    return l
                raise AnalysisError(rule, "%s() of unsupported literal" % fn.id, node, module)
            if fn.id == "len" and len(node.args) == 1:
                return len(self.eval(module, node.args[0], rule, env))
        if isinstance(fn, ast.Attribute):
            recv = self.eval(module, fn.value, rule, env)
            args = [self.eval(module, a, rule, env) for a in node.args]
            if node.keywords:
                raise AnalysisError(rule, "keyword arguments in constant method call", node, module)
            r = pure_method(recv, fn.attr, args)
            if r is not NotImplemented:
                return r
        raise AnalysisError(rule, "non-literal call %s" % short(node), node, module)


STR_PURE = (
    "partition",
    "rpartition",
    "upper",
    "lower",
    "replace",
    "strip",
    "lstrip",
    "rstrip",
    "format",
    "join",
    "startswith",
    "endswith",
    "title",
    "capitalize",
    "split",
    "index",
    "find",
    "count",
    "isdigit",
    "isalpha",
    "zfill",
    "swapcase",
    "casefold",
    "ljust",
    "rjust",
)


def pure_method(recv, name, args):
    """Pure methods on constants. NotImplemented when outside the supported set."""
    if isinstance(recv, str) and name in STR_PURE:
        if all(isinstance(a, (str, int, list, tuple)) for a in args):
            try:
                if name == "join":
                    if len(args) == 1 and all(isinstance(x, str) for x in args[0]):
                        return recv.join(list(args[0]))
                    return NotImplemented
                if name == "format":
                    if all(isinstance(a, (str, int)) and not isinstance(a, bool) for a in args):
                        return recv.format(*args)
                    return NotImplemented
                r = getattr(recv, name)(*args)
                if isinstance(r, list):
                    return TList(r)
                return r
            except (ValueError, TypeError, IndexError):
                return NotImplemented
    if isinstance(recv, dict):
        if name == "keys" and not args:
            if not getattr(recv, "ordered", False):
                return NotImplemented
            l = TList(recv.keys())
            l.node = getattr(recv, "node", None)
            l.elt_nodes = [recv.key_nodes.get(k) for k in recv]
            return l
        if name == "get" and 1 <= len(args) <= 2:
            try:
                return recv.get(args[0], args[1] if len(args) == 2 else None)
            except TypeError:
                return NotImplemented
    return NotImplemented
