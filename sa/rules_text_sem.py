"""C13 — semantic analysis of parse_cvss_from_text over symbolic candidate lists.

The function is interpreted abstractly (gated-SSA interpreter, exceptions as control flow) with

  * the regex search (`re.compile(P).findall(text)`, `re.findall(P, text)`, `finditer`, through any
    alias, module-level constant or helper) replaced by a list of K symbolic candidates, each ranging
    over a representative set D of strings the candidate regex can return (valid v2/v3 vectors, two
    spellings of the same vector, near-valid vectors of every rejection class, glued and prefix-less
    bodies), and
  * the CVSSn constructors replaced by their specification: a candidate the grammar of version n
    accepts yields an object token (version, prefix, defined metrics) — the == key of C07 —, any other
    raises CVSSnMalformedError / CVSSnMandatoryError at the call site (that the real constructors do
    exactly this is the C04 acceptance analysis, discharged for C13 in props/c13.py).

For every joint assignment of the K candidates the returned collection, evaluated from the value
graph, must be exactly the set of tokens of the valid candidates, each once (sound, complete at
candidate level, duplicate-free), no exception may leave the function (total), and every
constructor must have received a candidate untransformed.  The pattern that was searched is handed
to the regex-as-data rules.  Nothing of /repo is executed.
"""

from __future__ import annotations

import itertools

from .interp import Dead, Ref
from .srcmodel import AnalysisError, short
from .terms import Const, Fin, Opaque, Space, Term


def candidate_domain(ctx):
    """Representative strings the candidate regex can hand to the loop (all built from the
    specification tables), as (string, version the grammar assigns or None)."""
    from .rules_parse_sem import spec_class

    s2, s3 = ctx.vspec(2), ctx.vspec(3)
    l2, l3 = ctx.legal(2), ctx.legal(3)

    def body(spec, legal, pick, extra=()):
        fs = ["%s:%s" % (k, legal[k][pick % len(legal[k])] if legal[k][pick % len(legal[k])] != spec["nd"] else legal[k][0]) for k in spec["mandatory"]]
        return "/".join(fs + list(extra))

    opt2 = [k for k in s2["order"] if k not in s2["mandatory"]]
    opt3 = [k for k in s3["order"] if k not in s3["mandatory"]]
    a2, b2 = body(s2, l2, 0), body(s2, l2, 1)
    a3 = body(s3, l3, 0)
    pre = sorted(p for p in s3["prefixes"] if p)
    out = []
    out.append(a2)
    out.append(a2 + "/%s:%s" % (opt2[0], s2["nd"]))  # same vector, another spelling
    out.append(b2)
    out.append(a2 + "/%s:%s" % (opt2[0], [x for x in l2[opt2[0]] if x != s2["nd"]][0]))
    out.append(a2[:-1] + "q")  # unknown value
    out.append("/".join(a2.split("/")[:-1]) + "/%s:%s/%s:%s" % (opt2[0], s2["nd"], opt2[1], s2["nd"]))  # mandatory metric missing
    f2 = a2.split("/")
    au = [x for x in f2 if x.startswith("Au:")]
    out.append("/".join(au + [x for x in f2 if x not in au]))  # same vector, Au first: no "/Au:" in it
    out.append(a2.lower())
    out.append("/" + a2)
    out.append(a2 + "/")
    for p in pre:
        out.append(p + a3)
    out.append(pre[-1] + a3 + "/%s:%s" % (opt3[0], s3["nd"]))  # same as pre[-1]+a3
    out.append(pre[-1] + body(s3, l3, 1))
    out.append(pre[-1] + a3[:-1] + "q")
    out.append(pre[-1] + "/".join(a3.split("/")[:-1]) + "/%s:%s" % (opt3[0], s3["nd"]))
    out.append(pre[-1][:-2] + "7/" + a3)  # unsupported minor version
    out.append(a3)  # v3 body without prefix
    out.append(pre[-1] + a2)  # v2 body behind a v3 prefix
    out.append(pre[-1].lower() + a3.lower())
    out.append(pre[-1] + a3.lower())
    out.append(pre[-1] + a3 + "/")
    res = []
    seen = set()
    for s in out:
        if s in seen:
            continue
        seen.add(s)
        v = None
        for ver in (2, 3):
            if spec_class(ctx, ver, s)[0] == "valid":
                v = ver
        res.append((s, v))
    return res


def token_of(ctx, v, s):
    from .rules_parse_sem import spec_class

    kind, got = spec_class(ctx, v, s)
    if kind != "valid":
        return kind, None
    spec = ctx.vspec(v)
    pre = ""
    for p in spec["prefixes"]:
        if p and s.startswith(p):
            pre = p
    return "valid", ("CVSS%d" % v, pre, tuple(sorted((k, x) for k, x in got.items() if x != spec["nd"])))


class TextSemantics(object):
    def __init__(self, ctx, K):
        self.ctx = ctx
        self.K = K
        self.D = candidate_domain(ctx)
        self.strings = tuple(s for s, _ in self.D)
        self.patterns = []  # (pattern, flags, node, module) of every search the run performed
        self.arg_faults = []
        self.ctor_sites = set()
        self.run()

    # -- hooks ---------------------------------------------------------------------------------
    def _regex(self, pat, flags, node, module):
        if not (isinstance(pat, Const) and isinstance(pat.v, str)):
            raise AnalysisError("C13.regex", "candidate regex is not a constant", node, module)
        fl = set()
        from .interp import ExtVal

        for f in flags:
            if isinstance(f, ExtVal) and f.dotted.startswith("re.") and f.dotted[3:] in self.FLAGS:
                fl.add(self.FLAGS[f.dotted[3:]])
            else:
                raise AnalysisError("C13.regex", "regex flags expression not modelled", node, module)
        o = Opaque("regex:%s" % pat.v)
        o.re_pattern = pat.v
        o.re_flagset = fl
        o.re_node = (node, module)
        return o

    def _matches(self, st, rx, text, node, module, as_match):
        if not (isinstance(text, Opaque) and text.tag == "text"):
            raise AnalysisError("C13.sem", "the regex is not searched in the text argument itself", node, module)
        self.patterns.append((rx.re_pattern, rx.re_flagset, node, module))
        self.via_findall = getattr(self, "via_findall", False) or not as_match
        if self.searched:
            raise AnalysisError("C13.sem", "more than one regex search on an evaluated path", node, module)
        self.searched = True
        from .interp import ListObj
        from .terms import TRUE

        items = []
        for i in range(self.K):
            slot = "cand:%d" % i
            self.space.add(slot, self.strings)
            st.dom[slot] = self.strings
            f = Fin((slot,), dict(((s,), s) for s in self.strings))
            if as_match:
                m = Opaque("match:%d" % i)
                m.cand = f
                m.rx = rx
                items.append((TRUE, m))
            else:
                items.append((TRUE, f))
        lo = ListObj(items)
        if as_match:
            lo.one_shot = True
        return self.ev.alloc(st, lo)

    FLAGS = {"I": "IGNORECASE", "IGNORECASE": "IGNORECASE", "A": "ASCII", "ASCII": "ASCII", "U": "UNICODE", "UNICODE": "UNICODE", "M": "MULTILINE", "MULTILINE": "MULTILINE", "S": "DOTALL", "DOTALL": "DOTALL", "X": "VERBOSE", "VERBOSE": "VERBOSE"}

    def ext_hook(self, st, dotted, args, kwargs, node, module):
        if dotted == "itertools.groupby" and len(args) == 1 and not kwargs:
            # runs of equal adjacent elements over conditionally present objects: element i opens a
            # run when it is present and the nearest present element before it is not equal to it
            from .interp import ListObj, TupleVal, mk_and, mk_not, mk_or

            items = self.ev.iter_values(st, args[0], node, module)
            if items and all(self.is_token(v) for _, v in items):
                out = []
                for i, (gi, vi) in enumerate(items):
                    same_prev = []
                    for j in range(i):
                        gj, vj = items[j]
                        between = [mk_not(items[m][0]) for m in range(j + 1, i)]
                        same_prev.append(mk_and([gj] + between + [self.ev.compare_sym(st, "==", vj, vi, node, module, False)]))
                    opens = mk_and([gi, mk_not(mk_or(same_prev))]) if same_prev else gi
                    out.append((opens, TupleVal([vi, Opaque("group")])))
                lo = ListObj(out)
                lo.one_shot = True
                lo.iterator = True
                return self.ev.alloc(st, lo)
        if dotted == "re.compile":
            flags = list(args[1:]) + ([kwargs["flags"]] if "flags" in kwargs else [])
            return self._regex(args[0], flags, node, module)
        if dotted in ("re.findall", "re.finditer"):
            flags = list(args[2:]) + ([kwargs["flags"]] if "flags" in kwargs else [])
            rx = self._regex(args[0], flags, node, module)
            return self._matches(st, rx, args[1], node, module, dotted.endswith("finditer"))
        return None

    def method_hook(self, st, recv, name, args, kwargs, node, module):
        if isinstance(recv, Opaque) and getattr(recv, "re_pattern", None) is not None:
            if name in ("findall", "finditer") and len(args) == 1 and not kwargs:
                return self._matches(st, recv, args[0], node, module, name == "finditer")
            raise AnalysisError("C13.sem", "regex method %s is not modelled" % name, node, module)
        if isinstance(recv, Opaque) and getattr(recv, "cand", None) is not None:
            if name == "group" and (not args or (len(args) == 1 and isinstance(args[0], Const) and args[0].v == 0)):
                return recv.cand
            if name == "group" and len(args) == 1 and isinstance(args[0], Const) and isinstance(args[0].v, (int, str)) and getattr(recv, "rx", None) is not None:
                # a numbered / named group of the match: the pattern is data, evaluated on each
                # representative candidate (which is the whole match)
                import re as _re

                flags = 0
                for fl in recv.rx.re_flagset:
                    flags |= getattr(_re, fl)
                try:
                    cre = _re.compile(recv.rx.re_pattern, flags)
                except _re.error:
                    raise AnalysisError("C13.regex", "the candidate regex does not compile", node, module)
                g = args[0].v
                if (isinstance(g, int) and not (0 <= g <= cre.groups)) or (isinstance(g, str) and g not in cre.groupindex):
                    self.ev.hazard(st, "IndexError", node, module, Const(True), "no such group %r in the candidate regex" % (g,))
                    raise Dead()

                def grp(s_):
                    mm = cre.fullmatch(s_)
                    if mm is None:
                        # a representative the pattern would not return as a whole: the group is
                        # what the pattern finds at its start
                        mm = cre.match(s_)
                    return mm.group(g) if mm is not None else None

                return st.folder().fold(grp, [recv.cand])
            raise AnalysisError("C13.sem", "match-object method %s is not modelled" % name, node, module)
        if isinstance(recv, (Fin, Const)) and self.is_token(recv) and not (isinstance(recv, Const) and recv.v is None):
            if name == "clean_vector" and not args and not kwargs:
                if isinstance(recv, Const):
                    return Const(self.clean_vector_of(recv.v))
                return st.folder().fold(self.clean_vector_of, [recv])
            raise AnalysisError("C13.sem", "method %s of a CVSS object is not modelled here" % name, node, module)
        return None

    def clean_vector_of(self, tok):
        """C07: the defined metrics, once each, in the specification's order behind the prefix."""
        v = int(tok[0][-1])
        spec = self.ctx.vspec(v)
        got = dict(tok[2])
        return tok[1] + "/".join("%s:%s" % (k, got[k]) for k in spec["order"] if k in got)

    def builtin_hook(self, st, name, args, kwargs, node, module):
        if name == "type" and len(args) == 1 and self.is_token(args[0]):
            if isinstance(args[0], Const):
                return Const("<class %s>" % args[0].v[0])
            return st.folder().fold(lambda t: "<class %s>" % t[0], [args[0]])
        if name in ("hash", "id", "repr", "str") and args and self.is_token(args[0]):
            raise AnalysisError("C13.sem", "%s() of a CVSS object is not modelled" % name, node, module)
        return None

    def construct_hook(self, st, cls, args, kwargs, node, module):
        if cls.name not in ("CVSS2", "CVSS3", "CVSS4"):
            return None
        from .interp import mk_not
        from .terms import ERR

        v = int(cls.name[-1])
        self.ctor_sites.add((module.where(node), cls.name))
        if len(args) != 1 or kwargs:
            raise AnalysisError("C13.sem", "constructor call with other than one positional argument", node, module)
        arg = args[0]
        fo = st.folder()
        if isinstance(arg, Fin):
            arg = fo.restrict(arg)
        if not (isinstance(arg, (Fin, Const)) and (isinstance(arg, Const) or all(isinstance(x, str) for x in arg.table.values()))):
            self.arg_faults.append((module.where(node), short(node), "its argument is %s, not a candidate as matched" % type(arg).__name__))
            raise Dead()
        if v == 4:
            kinds = {}
        ctx = self.ctx

        def classify(s):
            if v == 4:
                return "malformed"
            return token_of(ctx, v, s)[0]

        def tok(s):
            if v == 4:
                return ERR
            k, t = token_of(ctx, v, s)
            return t if k == "valid" else ERR

        # the argument must be one of this row's candidates, untransformed
        cands = [Fin(("cand:%d" % i,), dict(((s,), s) for s in self.strings)) for i in range(self.K)]
        if isinstance(arg, Const):
            foreign = Const(not any(arg.v in c_ for c_ in self.strings))
        else:
            # "built from a substring of the text": a part of a candidate is one, a re-spelling is not
            foreign = fo.fold(lambda a, *cs: not any(a in c_ for c_ in cs), [arg] + cands)
        d = self.ev.decide(st, foreign)
        if d is not False:
            self.arg_faults.append((module.where(node), short(node), "it can receive a string that is not a substring of the matched text (a re-spelled match)"))
        for kind, exc in (("malformed", "CVSS%dMalformedError" % v), ("mandatory", "CVSS%dMandatoryError" % v)):
            if isinstance(arg, Const):
                cond = Const(classify(arg.v) == kind)
            else:
                cond = fo.fold(lambda a, kind=kind: classify(a) == kind, [arg])
            dd = self.ev.decide(st, cond)
            if dd is False:
                continue
            self.ev.hazard(st, exc, node, module, cond, "%s(candidate) for a %s candidate" % (cls.name, kind))
            if dd is True:
                raise Dead()
            self.ev.assume(st, mk_not(cond))
            fo = st.folder()
            arg = fo.restrict(arg) if isinstance(arg, Fin) else arg
        if isinstance(arg, Const):
            return Const(tok(arg.v))
        return fo.fold(tok, [arg])

    # -- ordering of objects ---------------------------------------------------------------------
    def is_token(self, v):
        return isinstance(v, (Fin, Const)) and all(
            isinstance(x, tuple) and len(x) == 3 and x[0] in ("CVSS2", "CVSS3") for x in (v.table.values() if isinstance(v, Fin) else [v.v])
        )

    def sort_hook(self, st, items, kwargs, node, module):
        """Sorting the objects: the order does not matter for the property, whether the comparison
        can raise does.  Without key the classes must define the ordering; with a key function, the
        function is interpreted on the post-construction object model of each class: a key (or a
        tuple position not preceded by a position that separates the cases) that is None for some
        valid vectors and a number for others raises TypeError as soon as two such objects meet."""
        from .interp import FuncVal, LambdaVal, mk_and, mk_or
        from .terms import TRUE

        if not items or not all(self.is_token(v) for _, v in items):
            return None
        if set(kwargs) - {"key", "reverse"}:
            raise AnalysisError("C13.sem", "sorted() with %s" % sorted(kwargs), node, module)
        pairs = [mk_and([items[i][0], items[j][0]]) for i in range(len(items)) for j in range(i + 1, len(items))]
        two = mk_or(pairs) if pairs else None
        if two is None:
            return list(items)
        classes = set()
        for _, v in items:
            for x in v.table.values() if isinstance(v, Fin) else [v.v]:
                classes.add(x[0])
        keyf = kwargs.get("key")
        if keyf is None or (isinstance(keyf, Const) and keyf.v is None):
            for cname in sorted(classes):
                cls = self.ctx.repo.cls("cvss%s" % cname[-1], cname)
                if "__lt__" not in cls.methods:
                    self.ev.hazard(st, "TypeError", node, module, two, "[ordering] %s objects are sorted but the class defines no ordering" % cname)
            return list(items)
        why = None
        for cname in sorted(classes):
            why = why or self.key_can_fail(int(cname[-1]), keyf, node, module)
        if why:
            self.ev.hazard(st, why[0], node, module, two if why[0] == "TypeError" else TRUE, "[ordering] " + why[1])
        return list(items)

    def key_can_fail(self, v, keyf, node, module):
        from .interp import EnvObj, FuncVal, LambdaVal, TupleVal, mk_not, same
        from .objmodel import ObjModel
        from .terms import App, BoolOp

        memo = self.ctx.memo.setdefault(("objmodel_for_keys", v), {})
        if "om" not in memo:
            memo["om"] = ObjModel(self.ctx, v)
        om = memo["om"]
        if not om.alive:
            raise AnalysisError("C13.sem", "object model of CVSS%d is not available" % v, node, module)
        st2 = om.st.copy()
        n0 = len(om.ev.events)
        try:
            if isinstance(keyf, LambdaVal):
                names = set(n.id for n in __import__("ast").walk(keyf.node.body) if isinstance(n, __import__("ast").Name))
                params = [a.arg for a in keyf.node.args.args]
                if len(params) != 1:
                    raise AnalysisError("C13.sem", "sort key with %d parameters" % len(params), node, module)
                e = om.ev.alloc(st2, EnvObj(None, keyf.module))
                st2.heap[e.id].vars[params[0]] = om.self_ref
                val = om.ev.eval(st2, e, keyf.node.body)
            elif isinstance(keyf, FuncVal):
                val = om.ev.inline(st2, keyf.func, None, [om.self_ref], {}, node, module)
            else:
                raise AnalysisError("C13.sem", "sort key %r is not a function of the package" % (keyf,), node, module)
        except Dead:
            return ("Exception", "the sort key raises for every CVSS%d object" % v)
        for e in om.ev.events[n0:]:
            if e.kind in ("hazard", "raise", "may_raise", "none_arith"):
                return (e.data.get("exc") or "Exception", "the sort key can raise %s for some CVSS%d objects (%s)" % (e.data.get("exc"), v, e.data.get("what") or e.kind))

        def none_cond(x):
            """condition under which x is None (FALSE-like None when never)"""
            if isinstance(x, Const):
                return Const(x.v is None)
            if isinstance(x, App) and x.op == "ite":
                c, a, b = x.args
                na, nb = none_cond(a), none_cond(b)
                ka = isinstance(na, Const)
                kb = isinstance(nb, Const)
                if ka and kb:
                    if na.v and nb.v:
                        return Const(True)
                    if not na.v and not nb.v:
                        return Const(False)
                    return c if na.v else mk_not(c)
                return BoolOp("or", (na, nb))  # mixed: some condition
            if isinstance(x, Fin):
                vals = list(x.table.values())
                if all(y is None for y in vals):
                    return Const(True)
                if any(y is None for y in vals):
                    return BoolOp("or", (x,))
                return Const(False)
            return Const(False)

        comps = list(val.items) if isinstance(val, TupleVal) else [val]
        for i, x in enumerate(comps):
            if isinstance(x, TupleVal):
                raise AnalysisError("C13.sem", "nested tuple sort key", node, module)
            nc = none_cond(x)
            if isinstance(nc, Const) and not nc.v:
                continue
            if isinstance(nc, Const) and nc.v:
                if i == 0 or True:
                    return ("TypeError", "position %d of the sort key is always None for CVSS%d objects: None cannot be ordered" % (i, v))
            separated = any(same(c, nc) or same(c, mk_not(nc)) or same(mk_not(c), nc) for c in comps[:i] if isinstance(c, Term))
            if not separated:
                return (
                    "TypeError",
                    "position %d of the sort key is None for some valid CVSS%d vectors and a number for others; two such objects "
                    "that agree on the earlier positions cannot be ordered" % (i, v),
                )
        return None

    # -- run -----------------------------------------------------------------------------------
    def run(self):
        from .interp_stmt import Evaluator

        ctx = self.ctx
        f = ctx.repo.function("parser", "parse_cvss_from_text")
        self.f = f
        self.space = Space()
        ev = Evaluator(ctx, self.space)
        self.ev = ev
        ev.ext_hook = self.ext_hook
        ev.method_hook = self.method_hook
        ev.construct_hook = self.construct_hook
        ev.sort_hook = self.sort_hook
        ev.builtin_hook = self.builtin_hook
        ev.unroll_while = 2 * self.K + 3
        self.searched = False
        st = ev.new_state()
        text = Opaque("text")
        try:
            self.val = ev.inline(st, f, None, [text], {}, f.node, f.module)
        except Dead:
            self.val = None
        self.st = st
        self.events = list(ev.events)

    # -- evaluation at one joint assignment -----------------------------------------------------
    def pinned(self, row, text_has=None):
        st2 = self.ev.new_state()
        for i, s in enumerate(row):
            st2.dom["cand:%d" % i] = (s,)
        for s, b in (text_has or {}).items():
            st2.dom["text_has:" + s] = (b,)
        return st2

    def text_predicates(self):
        """Substring tests on the text argument that the value graph mentions (a fast path in
        front of the search, a prefix test)."""
        from .pointeval import text_predicates_in

        roots = []
        for e in self.events:
            roots.extend(c for c in e.pc if isinstance(c, Term))
            if isinstance(e.data.get("cond"), Term):
                roots.append(e.data["cond"])
        if isinstance(self.val, Term):
            roots.append(self.val)
        for o in self.st.heap.values():
            if getattr(o, "kind", None) in ("list", "set"):
                for g, x in o.items:
                    roots.extend(t for t in (g, x) if isinstance(t, Term))
        roots.extend(c for c in getattr(self.st, "pc", []) if isinstance(c, Term))
        return text_predicates_in(roots)

    def text_assignments(self, row, preds):
        """Admissible truth values of the substring tests for a text whose candidates are `row`:
        a string that occurs in a candidate occurs in the text; otherwise the text may or may not
        contain it (somewhere outside the candidates)."""
        import itertools as it_

        if not preds:
            return [{}]
        forced = dict((s, True) for s in preds if any(s in c for c in row))
        free = [s for s in preds if s not in forced]
        out = []
        for bits in it_.product((False, True), repeat=len(free)):
            d = dict(forced)
            d.update(zip(free, bits))
            out.append(d)
        return out

    def value_at(self, st2, t):
        """Value of a term of the value graph at one full assignment of the candidates."""
        from .pointeval import value_at

        try:
            return value_at(dict((s_, d_[0]) for s_, d_ in st2.dom.items()), t)
        except AnalysisError as e:
            raise AnalysisError("C13.sem", e.message, self.f.node, self.f.module)

    def holds(self, st2, conds):
        for c in conds:
            if not isinstance(c, Term):
                continue
            try:
                v = self.value_at(st2, c)
            except Dead:
                return False
            if not v:
                return False
        return True

    def result_at(self, st2):
        """The returned collection for one assignment, as a list of tokens."""
        val = self.val
        if isinstance(val, Term) and not isinstance(val, Ref):
            val = self.value_at(st2, val)
            if isinstance(val, (list, tuple)):
                return list(val)
            raise AnalysisError("C13.sem", "the function returns %r, not a collection" % (val,), self.f.node, self.f.module)
        if not isinstance(val, Ref):
            raise AnalysisError("C13.sem", "the function returns %r, not a collection" % (val,), self.f.node, self.f.module)
        o = self.st.heap[val.id]
        if o.kind not in ("list", "set"):
            raise AnalysisError("C13.sem", "the function returns a %s, not a list or set" % o.kind, self.f.node, self.f.module)
        out = []
        for g, x in o.items:
            if self.value_at(st2, g):
                out.append(self.value_at(st2, x))
        if o.kind == "set":
            ded = []
            for x in out:
                if x not in ded:
                    ded.append(x)
            out = ded
        return out

    def expected_at(self, row):
        """(required, allowed): the tokens of the candidates that are valid vectors must be returned;
        an object built from a part of a candidate that is itself a valid vector may be returned
        (it is a valid substring of the text; completeness speaks about delimited vectors only)."""
        want = []
        allowed = []
        for s in row:
            for v in (2, 3):
                k, t = token_of(self.ctx, v, s)
                if k == "valid" and t not in want:
                    want.append(t)
            for t in self.valid_parts(s):
                if t not in allowed:
                    allowed.append(t)
        return want, allowed

    def valid_parts(self, s):
        memo = self.ctx.memo.setdefault(("c13_valid_parts",), {})
        if s not in memo:
            out = []
            for i in range(len(s)):
                for j in range(i + 11, len(s) + 1):
                    sub = s[i:j]
                    for v in (2, 3):
                        k, t = token_of(self.ctx, v, sub)
                        if k == "valid" and t not in out:
                            out.append(t)
            memo[s] = out
        return memo[s]


def check_text_semantics(ctx, led, rule="C13.sem"):
    """Returns (TextSemantics of the widest run, number of assignments decided)."""
    n = 0
    widest = None
    f = ctx.repo.function("parser", "parse_cvss_from_text")
    where = f.module.where(f.node)
    ck = "parser.parse_cvss_from_text"
    for K in (0, 1, 3):
        ts = TextSemantics(ctx, K)
        widest = ts
        if not ts.searched:
            raise AnalysisError("C13.regex", "no regex search of the text on the evaluated path of parse_cvss_from_text", f.node, f.module)
        for w, call, what in ts.arg_faults[:3]:
            led.violation(rule + ".arg", "%s::%s" % (ck, call), w, "the constructor must receive the matched text itself: %s" % what)
        if ts.arg_faults:
            continue
        escapes = [e for e in ts.events if e.kind in ("hazard", "raise", "may_raise", "none_arith") and not e.data.get("handled")]
        rows = list(itertools.product(ts.strings, repeat=K))
        bad = None
        esc = None
        preds = ts.text_predicates()
        if len(preds) > 4:
            raise AnalysisError("C13.sem", "more than four substring tests on the text", f.node, f.module)
        for row, th in ((r, th) for r in rows for th in ts.text_assignments(r, preds)):
            st2 = ts.pinned(row, th)
            n += 1
            hit = None
            for e in escapes:
                conds = list(e.pc)
                c = e.data.get("cond")
                if isinstance(c, Term):
                    conds.append(c)
                try:
                    if ts.holds(st2, conds):
                        hit = e
                        break
                except AnalysisError:
                    hit = e
                    break
            if hit is not None:
                if esc is None:
                    esc = (hit, row)
                continue
            if ts.val is None:
                continue
            got = ts.result_at(st2)
            want, allowed = ts.expected_at(row)
            if bad is None and (any(t not in got for t in want) or any(t not in allowed for t in got) or len(set(map(repr, got))) != len(got)):
                bad = (row, got, want, allowed, th)
        if esc is not None:
            e, row = esc
            what = e.data.get("what") or e.kind
            if what.startswith("[ordering] "):
                msg = "when the text holds two or more valid vectors, %s can leave parse_cvss_from_text: %s" % (e.data.get("exc"), what[11:])
            else:
                msg = "with the candidates %s in the text, %s leaves parse_cvss_from_text (%s)" % (list(row), e.data.get("exc"), what)
            led.violation(rule + ".total", "%s::%s" % (ck, short(e.node)), e.where(), msg)
        else:
            led.ok(rule + ".total", "%s::K=%d" % (ck, K), where, "no exception leaves the function for %d candidate sequences" % len(rows))
        if bad is not None:
            row, got, want, allowed, th = bad
            extra = [t for t in got if t not in allowed]
            missing = [t for t in want if t not in got]
            dup = [t for t in got if got.count(t) > 1]
            if missing:
                what = "the valid vector %s is not returned" % _show(missing[0])
            elif extra:
                what = "an object %s is returned that no part of a candidate is a valid vector of" % _show(extra[0])
            elif dup:
                what = "equal objects (%s) are returned twice" % _show(dup[0])
            else:
                what = "the result %r differs from the expected %r" % (got, want)
            note = ""
            if th:
                note = " (text in which %s)" % ", ".join("%r %s" % (s_, "occurs" if b_ else "does not occur") for s_, b_ in sorted(th.items()))
            led.violation(rule + ".result", "%s::result K=%d" % (ck, K), where, "with the candidates %s in the text%s: %s" % (list(row), note, what))
        elif esc is None or ts.val is not None:
            led.ok(rule + ".result", "%s::result K=%d" % (ck, K), where, "%d candidate sequences: exactly the valid candidates, each once" % len(rows))
    return widest, n


def _show(t):
    try:
        return "%s %s%s" % (t[0], t[1], "/".join("%s:%s" % kv for kv in t[2]))
    except Exception:
        return repr(t)
