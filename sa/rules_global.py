"""C19 rules: no shared mutable state, no ambient-state access, no hash-order flow."""

from __future__ import annotations

import ast

from .rules_access import get_effects
from .srcmodel import AnalysisError, norm_src, short

IO_MODULES = ("interactive", "cvss_calculator")
LIBRARY_MODULES = ("__init__", "constants2", "constants3", "constants4", "cvss2", "cvss3", "cvss4", "exceptions", "parser")


def is_main_guard(st):
    return (
        isinstance(st, ast.If)
        and isinstance(st.test, ast.Compare)
        and isinstance(st.test.left, ast.Name)
        and st.test.left.id == "__name__"
    )


def in_main_guard(module, node):
    for a in module.ancestors(node):
        if is_main_guard(a):
            return True
    return False


def name_read_in_functions(ctx, m, ident):
    """Is the module-level name read by any function of the package (in its own module, or
    imported elsewhere)?"""
    for mod in ctx.repo.modules.values():
        if mod is not m:
            imp = [k for k, v in mod.imports.items() if v[0] == "from" and v[3] == ident and v[2].split(".")[-1] == m.name]
            if imp:
                return True
            for n in ast.walk(mod.tree):
                if isinstance(n, ast.ImportFrom) and (n.module or "").split(".")[-1] == m.name and any(al.name in (ident, "*") for al in n.names):
                    return True
                if isinstance(n, ast.Attribute) and n.attr == ident and isinstance(n.value, ast.Name) and mod.imports.get(n.value.id, ("", "", "", ""))[-1] == m.name:
                    return True
            continue
        for f in mod.all_functions():
            for n in ast.walk(f.node):
                if isinstance(n, ast.Name) and n.id == ident and isinstance(n.ctx, ast.Load):
                    return True
    return False


def check_toplevel_lazy(ctx, led, m, st, owner, rule):
    """A one-shot iterator object (map/filter/zip result on Python 3, generator, iter, reversed,
    enumerate) that becomes part of module-level / class-level state is consumed by its first
    reader: later readers in the same process see it empty."""
    from .pycompat import stored_lazy

    for node, kind, how in stored_lazy(m, st.value if isinstance(st, (ast.Assign, ast.AnnAssign, ast.AugAssign, ast.Expr)) and st.value is not None else st):
        if how != "stored":
            continue
        if isinstance(st, ast.Assign) and st.value is node and len(st.targets) == 1 and isinstance(st.targets[0], ast.Name):
            if not name_read_in_functions(ctx, m, st.targets[0].id):
                continue  # a temporary of the module initialisation, consumed while importing
        led.violation(
            rule + ".lazy",
            "%s::%s" % (owner, short(st, 70)),
            m.where(node),
            "the %s object %s is kept in shared %s state: whoever reads it first exhausts it, so results depend on what ran "
            "earlier in the process (on Python 2.7 map/filter/zip return lists, on Python 3 one-shot iterators)"
            % (kind, short(node, 50), "module-level" if "." not in owner else "class-level"),
        )


def check_toplevel(ctx, led, rule="C19.toplevel"):
    """Module top level: imports, constant bindings, defs, classes, __main__ guard only."""
    n = 0
    for name, m in sorted(ctx.repo.modules.items()):
        for st in m.tree.body:
            n += 1
            ck = "%s::%s" % (name, short(st, 70))
            where = m.where(st)
            if not isinstance(st, (ast.Import, ast.ImportFrom, ast.FunctionDef, ast.ClassDef)) and not is_main_guard(st):
                check_toplevel_lazy(ctx, led, m, st, name, rule)
            if isinstance(st, (ast.Import, ast.ImportFrom, ast.FunctionDef, ast.ClassDef)):
                continue
            if isinstance(st, ast.Expr) and isinstance(st.value, ast.Constant):
                continue  # docstring
            if is_main_guard(st):
                continue
            if isinstance(st, ast.Try):
                ok = all(isinstance(x, (ast.Import, ast.ImportFrom, ast.Assign, ast.Pass)) for x in st.body) and all(
                    all(isinstance(x, (ast.Import, ast.ImportFrom, ast.Assign, ast.Pass)) for x in h.body)
                    and set(G_names(h)) <= {"ImportError", "NameError", "ModuleNotFoundError"}
                    for h in st.handlers
                )
                led.check(ok, rule, ck, where, "module-level try block does more than an import/name fallback")
                continue
            if isinstance(st, (ast.Assign, ast.AnnAssign)):
                targets = st.targets if isinstance(st, ast.Assign) else [st.target]
                val = st.value
                own_names = set(m.assigns)
                if all(isinstance(t, ast.Name) for t in targets):
                    # value: a literal table, or a pure expression over constants (computed table)
                    try:
                        ctx.ce.eval(m, val, rule)
                        continue
                    except AnalysisError as e:
                        if isinstance(val, ast.Name):
                            continue  # alias such as string_input = input
                        why = impure(ctx, m, val)
                        if why is None:
                            continue
                        led.violation(rule, ck, where, "module-level binding runs %s at import time" % why)
                        continue
                # initialisation of an object created in this very module (TABLE[k] = v)
                roots = []
                for t in targets:
                    b = t
                    while isinstance(b, (ast.Subscript, ast.Attribute)):
                        b = b.value
                    roots.append(b.id if isinstance(b, ast.Name) else None)
                if all(r in own_names for r in roots) and impure(ctx, m, val) is None:
                    continue
                led.violation(rule, ck, where, "module-level store into %s" % norm_src(targets[0]))
                continue
            why = pure_initialisation(ctx, m, st)
            if why is None:
                continue  # a loop / if / del that only builds this module's own tables from pure expressions
            led.violation(rule, ck, where, "module-level statement executes at import time: %s (%s)" % (type(st).__name__, why))
        for c in m.classes.values():
            for st in c.node.body:
                n += 1
                if isinstance(st, (ast.FunctionDef, ast.Pass)):
                    continue
                if isinstance(st, ast.Expr) and isinstance(st.value, ast.Constant):
                    continue
                ck = "%s.%s::%s" % (name, c.name, short(st, 70))
                check_toplevel_lazy(ctx, led, m, st, "%s.%s" % (name, c.name), rule)
                if isinstance(st, (ast.Assign, ast.AnnAssign)):
                    val = st.value
                    if isinstance(val, (ast.Dict, ast.List, ast.Set, ast.Call, ast.ListComp, ast.DictComp, ast.SetComp)):
                        # a class-level table is a constant like a module-level one unless some code
                        # of the package modifies it in place through self / cls / the class name
                        tname = st.targets[0].id if isinstance(st, ast.Assign) and isinstance(st.targets[0], ast.Name) else None
                        writer = class_attr_writer(ctx, c, tname) if tname else None
                        if writer is not None:
                            led.violation(
                                rule,
                                ck,
                                m.where(st),
                                "mutable class attribute shared by every instance and modified in place (%s): %s" % (writer, short(st)),
                            )
                        elif impure(ctx, m, val) is not None:
                            led.violation(rule, ck, m.where(st), "class attribute computed by an impure call at import time: %s" % short(st))
                        continue
                    continue
                led.violation(rule, ck, m.where(st), "class body statement %s" % type(st).__name__)
    return n


def pure_initialisation(ctx, m, st, depth=0):
    """None when the module-level compound statement only initialises objects of this very module
    with pure expressions (for / if / del / stores into own tables / in-place methods on own
    tables); otherwise a description of what else it does."""
    own = set(m.assigns)
    if depth > 4:
        return "nesting too deep"

    def root(t):
        b = t
        while isinstance(b, (ast.Subscript, ast.Attribute)):
            b = b.value
        return b.id if isinstance(b, ast.Name) else None

    def loop_names(s):
        out = set()
        for n in ast.walk(s):
            if isinstance(n, ast.Name) and isinstance(n.ctx, (ast.Store, ast.Del)):
                out.add(n.id)
        return out

    if isinstance(st, ast.Delete):
        if all(isinstance(t, ast.Name) for t in st.targets):
            return None
        return "del of a table entry"
    if isinstance(st, ast.Pass):
        return None
    if isinstance(st, (ast.For, ast.If, ast.While)):
        if isinstance(st, ast.While):
            return "while loop"
        head = st.iter if isinstance(st, ast.For) else st.test
        w = impure(ctx, m, head)
        if w is not None:
            return w
        for sub in list(st.body) + list(st.orelse):
            w = pure_initialisation(ctx, m, sub, depth + 1)
            if w is not None:
                return w
        return None
    if isinstance(st, (ast.Assign, ast.AugAssign, ast.AnnAssign)):
        targets = st.targets if isinstance(st, ast.Assign) else [st.target]
        locals_ = own | loop_names(m.tree)
        for t in targets:
            for x in ([t] if not isinstance(t, (ast.Tuple, ast.List)) else t.elts):
                if root(x) not in locals_:
                    return "store into %s" % norm_src(x)
        if st.value is not None:
            return impure(ctx, m, st.value)
        return None
    if isinstance(st, ast.Expr) and isinstance(st.value, ast.Call) and isinstance(st.value.func, ast.Attribute):
        c = st.value
        if root(c.func.value) in (own | loop_names(m.tree)) and c.func.attr in ("update", "append", "extend", "setdefault", "insert", "sort", "reverse", "move_to_end"):
            for a in list(c.args) + [k.value for k in c.keywords]:
                w = impure(ctx, m, a)
                if w is not None:
                    return w
            return None
        return "call of %s" % norm_src(c.func)
    if isinstance(st, ast.Expr) and isinstance(st.value, ast.Constant):
        return None
    return type(st).__name__


def class_attr_writer(ctx, c, name):
    """Description of a construct that modifies the class-level object `name` in place (reached as
    self.name / cls.name / Class.name without a preceding instance-level rebinding), or None."""
    from .effects import MUTATORS

    subs = [c] + [k for m_ in ctx.repo.modules.values() for k in m_.classes.values() if c in getattr(k, "bases", [])]
    for k in subs:
        rebinds = False
        init = k.methods.get("__init__")
        if init is not None:
            for n in ast.walk(init.node):
                if isinstance(n, ast.Attribute) and isinstance(n.ctx, ast.Store) and n.attr == name and isinstance(n.value, ast.Name) and n.value.id == (init.params[0] if init.params else "self"):
                    rebinds = True
        for f in k.methods.values():
            recv_names = set([f.params[0]] if f.params else []) | {k.name, c.name}
            for n in ast.walk(f.node):
                tgt = None
                if isinstance(n, ast.Call) and isinstance(n.func, ast.Attribute) and n.func.attr in MUTATORS:
                    tgt = n.func.value
                elif isinstance(n, ast.Subscript) and isinstance(n.ctx, (ast.Store, ast.Del)):
                    tgt = n.value
                elif isinstance(n, ast.AugAssign):
                    tgt = n.target
                if isinstance(tgt, ast.Attribute) and tgt.attr == name and isinstance(tgt.value, ast.Name) and tgt.value.id in recv_names:
                    if rebinds and tgt.value.id == (f.params[0] if f.params else None) and not f.is_classmethod:
                        continue
                    return "%s: %s" % (f.qualname, short(n))
    return None


PURE_CALLS = set(
    "dict list tuple set frozenset sorted len str int float min max sum zip enumerate range any all map filter "
    "OrderedDict D Decimal reversed abs bool repr".split()
)
PURE_METHODS = set(
    "upper lower replace format join items keys values get split strip lstrip rstrip startswith endswith title "
    "capitalize copy index count fromkeys rsplit partition rpartition splitlines zfill ljust rjust center swapcase "
    "casefold find rfind isdigit isalpha isalnum isupper islower isspace union intersection difference "
    "symmetric_difference issubset issuperset isdisjoint".split()
)
# standard modules whose functions build values and touch no process state, apart from the listed ones
PURE_MODULES = {"re", "operator", "functools", "itertools", "collections", "math", "string", "bisect", "copy", "fractions", "numbers", "textwrap"}
IMPURE_EXT = {"re.purge", "functools.lru_cache", "functools.cache", "functools.cached_property", "functools.singledispatch"}


PURE_EXT_CALLS = {
    "re.compile", "re.escape", "operator.itemgetter", "operator.attrgetter", "functools.partial", "itertools.product",
    "itertools.chain", "collections.namedtuple",
}


def impure(ctx, m, expr):
    """None when the expression only builds values from constants with pure builtins, str/dict
    methods and side-effect-free package functions; otherwise a description of the impure call."""
    E = get_effects(ctx)
    for n in ast.walk(expr):
        if isinstance(n, ast.Call):
            f = n.func
            if isinstance(f, ast.Name):
                if f.id in PURE_CALLS:
                    continue
                r = ctx.repo.resolve_global(m, f.id)
                if r is not None and r[0] == "func":
                    effs = E.effects_of([r[1].qualname], kinds=("self_write", "global_write", "ambient", "io", "cache", "global_stmt"))
                    if not effs:
                        continue
                    return "%s(), which has side effects (%s)" % (f.id, effs[0].what)
                if r is not None and r[0] == "ext" and r[1] in ("collections.OrderedDict", "ordereddict.OrderedDict", "decimal.Decimal"):
                    continue
                if r is not None and r[0] == "ext" and r[1].split(".")[0] in PURE_MODULES and r[1] not in IMPURE_EXT:
                    continue
                return "a call of %s" % f.id
            if isinstance(f, ast.Attribute):
                if f.attr in PURE_METHODS:
                    continue
                if isinstance(f.value, ast.Name):
                    # functions of standard modules that build a value and touch nothing the
                    # property names (a compiled pattern, a partial, an itemgetter)
                    r = ctx.repo.resolve_global(m, f.value.id)
                    dotted = None
                    if r is not None and r[0] == "ext":
                        dotted = "%s.%s" % (r[1], f.attr)
                    elif m.imports.get(f.value.id, (None,))[0] == "module":
                        dotted = "%s.%s" % (m.imports[f.value.id][1], f.attr)
                    if dotted in PURE_EXT_CALLS:
                        continue
                    if dotted is not None and dotted.split(".")[0] in PURE_MODULES and dotted not in IMPURE_EXT:
                        continue
                return "a call of .%s()" % f.attr
            return "a computed call"
        if isinstance(n, (ast.Yield, ast.YieldFrom, ast.Await, ast.NamedExpr)):
            return "a %s expression" % type(n).__name__
    return None


def G_names(h):
    if h.type is None:
        return ["*"]
    if isinstance(h.type, ast.Tuple):
        return [norm_src(e) for e in h.type.elts]
    return [norm_src(h.type)]


def check_global_writes(ctx, led, rule="C19.globals"):
    E = get_effects(ctx)
    n = len(E.infos)
    effs = E.all_effects(kinds=("global_write", "global_stmt", "cache"))
    for e in effs:
        led.violation(rule, e.key(), e.where(), "process-global state is written: %s" % e.what)
    if not effs:
        led.ok(rule, "package-wide write census", "cvss/", "%d functions analysed, no store/mutation on a module-level name" % n)
    return n


def written_definitions(ctx, e):
    """(defining module, name) pairs a global_write effect can refer to."""
    E = get_effects(ctx)
    tgt = (e.target or "")
    if not tgt.startswith("global:"):
        return set()
    name = tgt[len("global:") :].split("[")[0].split(".")[0]
    out = set()
    info = E.infos.get(e.func.qualname)
    f = e.func
    imps = []
    while f is not None:
        i_ = E.infos.get(f.qualname)
        if i_ is not None:
            imps += getattr(i_, "local_imports", {}).get(name, [])
        f = f.outer
    from .srcmodel import PKG

    for level, mod, attr, inode in imps:
        if not _arms_compatible(e.func.module, inode, e.node):
            continue
        target = None
        if level >= 1 and mod in ctx.repo.modules:
            target = mod
        elif level == 0 and mod.startswith(PKG + ".") and mod[len(PKG) + 1 :] in ctx.repo.modules:
            target = mod[len(PKG) + 1 :]
        if target is None:
            continue
        r = ctx.repo.resolve_global(ctx.repo.modules[target], attr)
        if r is not None and r[0] == "value":
            out.add((r[1].name, ctx.ce._defname(r[1], r[2])))
    if not imps:
        r = ctx.repo.resolve_global(e.func.module, name)
        if r is not None and r[0] == "value":
            out.add((r[1].name, ctx.ce._defname(r[1], r[2])))
    return out


def _arms_compatible(module, import_node, write_node):
    """Can the conditions dominating a function-local import and those dominating the write hold
    together?  Decided for conditions over one name compared with constants (the version switch of
    the interactive builder); anything else counts as compatible."""
    from . import guards as G
    from .rules_inter import eval_guard

    fi = G.dominating_facts(module, import_node)
    fw = G.dominating_facts(module, write_node)
    names = set(x.id for f in fi for x in ast.walk(f.expr) if isinstance(x, ast.Name))
    if len(names) != 1:
        return True
    (nm,) = names
    consts = set()
    for f in fi + fw:
        for x in ast.walk(f.expr):
            if isinstance(x, ast.Constant) and isinstance(x.value, (int, float)) and not isinstance(x.value, bool):
                consts.add(x.value)
    cands = set(consts)
    for c in list(consts):
        cands |= {c - 0.05, c + 0.05}
    for val in sorted(cands):
        ok = True
        for f in fi + fw:
            try:
                if bool(eval_guard(f.expr, {nm: val})) != f.pol:
                    ok = False
                    break
            except Exception:
                continue
        if ok:
            return True
    return False


def check_consulted_tables_frozen(ctx, led, prop):
    """The rules of a property read the package's constant tables from the source, i.e. as they are
    at import time.  That describes the running program only if no function of the package writes
    to those tables; a store or in-place mutation of a table this run consulted is reported against
    the property whose argument rests on it."""
    E = get_effects(ctx)
    consulted = set(ctx.ce.consulted)
    rule = "%s.tables.frozen" % prop
    hits = 0
    for e in E.all_effects(kinds=("global_write",)):
        defs = written_definitions(ctx, e)
        both = sorted(d for d in defs if d in consulted)
        if both:
            hits += 1
            led.violation(
                rule,
                e.key(),
                e.where(),
                "%s modifies the shared constant table %s at run time (%s); the rules of %s read that table as a constant, so "
                "what it decided no longer describes the process after this code has run"
                % (e.func.qualname, ", ".join("%s.%s" % d for d in both), e.what, prop),
            )
    if not hits:
        led.ok(rule, "constant tables consulted by this check", "cvss/", "%d consulted definitions, none written by any of %d functions" % (len(consulted), len(E.infos)))
    return hits


def check_ambient(ctx, led, rule="C19.ambient"):
    E = get_effects(ctx)
    n_prints = 0
    n = 0
    for q, info in sorted(E.infos.items()):
        mod = info.func.module.name
        for e in info.effects:
            if e.kind == "ambient":
                n += 1
                led.violation(rule, e.key(), e.where(), "ambient process state is touched: %s" % e.what)
            elif e.kind == "io":
                n += 1
                if mod in IO_MODULES:
                    n_prints += 1
                else:
                    led.violation(
                        rule + ".io",
                        e.key(),
                        e.where(),
                        "%s in library module cvss/%s.py (output/input is allowed only in the CLI and interactive entry points)"
                        % (e.what, mod),
                    )
    # imports of ambient modules in library modules
    for name in LIBRARY_MODULES:
        m = ctx.repo.module(name)
        for al, imp in sorted(m.imports.items()):
            dotted = imp[1] if imp[0] == "module" else (imp[2] + "." + imp[3] if imp[1] == 0 else None)
            if dotted is None:
                continue
            root = dotted.split(".")[0]
            n += 1
            if root in ("sys", "os", "warnings", "logging", "random", "time", "locale", "threading", "socket", "subprocess", "atexit", "signal"):
                led.violation(
                    rule + ".import",
                    "%s::import %s" % (name, dotted),
                    m.relpath,
                    "library module imports %s (ambient state): results may depend on or alter the process environment" % dotted,
                )
    led.ok(rule + ".control", "print/input calls in CLI modules", "cvss/interactive.py, cvss/cvss_calculator.py", "%d found" % n_prints)
    return n_prints


def check_quantize(ctx, led, rule="C19.rounding"):
    n = 0
    for name, m in sorted(ctx.repo.modules.items()):
        for node in ast.walk(m.tree):
            if isinstance(node, ast.Call) and isinstance(node.func, ast.Attribute) and node.func.attr == "quantize":
                n += 1
                explicit = any(kw.arg == "rounding" for kw in node.keywords) or len(node.args) >= 2
                fn = m.enclosing_function(node)
                led.check(
                    explicit,
                    rule,
                    "%s.%s::%s" % (name, fn.name if fn is not None and hasattr(fn, "name") else "?", short(node)),
                    m.where(node),
                    "quantize() without an explicit rounding mode uses the caller's decimal context",
                )
            if isinstance(node, ast.Call) and isinstance(node.func, ast.Name) and node.func.id == "round":
                n += 1
                led.violation(
                    rule,
                    "%s::%s" % (name, short(node)),
                    m.where(node),
                    "round() on a Decimal consults the ambient context / on a float rounds half-to-even",
                )
    return n


class SetFlow(ast.NodeVisitor):
    """Intraprocedural typestate 'hash-ordered': a set's iteration order must not reach a returned
    sequence, a string or printed output."""

    def __init__(self, module, func):
        self.module = module
        self.func = func
        self.sets = set()
        self.tainted = set()
        self.findings = []

    def is_set_expr(self, e):
        if isinstance(e, (ast.Set, ast.SetComp)):
            return True
        if isinstance(e, ast.Call) and isinstance(e.func, ast.Name) and e.func.id in ("set", "frozenset"):
            return True
        if isinstance(e, ast.Name) and e.id in self.sets:
            return True
        if isinstance(e, ast.BinOp) and isinstance(e.op, (ast.BitOr, ast.BitAnd, ast.Sub, ast.BitXor)):
            return self.is_set_expr(e.left) or self.is_set_expr(e.right)
        if isinstance(e, ast.Call) and isinstance(e.func, ast.Attribute) and e.func.attr in (
            "union", "intersection", "difference", "symmetric_difference", "copy"
        ):
            return self.is_set_expr(e.func.value)
        return False

    def is_tainted_expr(self, e):
        """Expression whose element order derives from a set's iteration order."""
        if isinstance(e, ast.Name) and e.id in self.tainted:
            return True
        if isinstance(e, ast.Call):
            f = e.func
            if isinstance(f, ast.Name) and f.id in ("list", "tuple", "iter", "enumerate", "reversed", "next") and e.args:
                return self.is_set_expr(e.args[0]) or self.is_tainted_expr(e.args[0])
            if isinstance(f, ast.Name) and f.id == "sorted":
                return False
            if isinstance(f, ast.Attribute) and f.attr == "join" and e.args:
                return self.is_set_expr(e.args[0]) or self.is_tainted_expr(e.args[0])
            if isinstance(f, ast.Attribute) and f.attr in ("pop",) and self.is_set_expr(f.value):
                return True
        if isinstance(e, (ast.ListComp, ast.GeneratorExp)):
            return any(self.is_set_expr(g.iter) or self.is_tainted_expr(g.iter) for g in e.generators)
        if isinstance(e, ast.Starred):
            return self.is_set_expr(e.value) or self.is_tainted_expr(e.value)
        if isinstance(e, (ast.Tuple, ast.List)):
            return any(self.is_tainted_expr(x) for x in e.elts)
        if isinstance(e, ast.BinOp):
            return self.is_tainted_expr(e.left) or self.is_tainted_expr(e.right)
        if isinstance(e, ast.Subscript):
            return self.is_tainted_expr(e.value)
        return False

    def run(self):
        for _ in range(3):
            for n in ast.walk(self.func.node):
                if isinstance(n, ast.Assign) and len(n.targets) == 1 and isinstance(n.targets[0], ast.Name):
                    if self.is_set_expr(n.value):
                        self.sets.add(n.targets[0].id)
                    if self.is_tainted_expr(n.value):
                        self.tainted.add(n.targets[0].id)
                if isinstance(n, ast.For) and (self.is_set_expr(n.iter) or self.is_tainted_expr(n.iter)):
                    # lists appended to inside the loop inherit the order
                    for x in ast.walk(n):
                        if (
                            isinstance(x, ast.Call)
                            and isinstance(x.func, ast.Attribute)
                            and x.func.attr in ("append", "extend", "insert")
                            and isinstance(x.func.value, ast.Name)
                        ):
                            self.tainted.add(x.func.value.id)
                        if isinstance(x, ast.Call) and isinstance(x.func, ast.Name) and x.func.id == "print":
                            self.findings.append((x, "prints while iterating over a set"))
                        if isinstance(x, (ast.Return, ast.Yield)):
                            self.findings.append((x, "returns/yields from inside an iteration over a set"))
        for n in ast.walk(self.func.node):
            if isinstance(n, ast.Return) and n.value is not None:
                if self.is_tainted_expr(n.value):
                    self.findings.append((n, "returns a sequence whose order is a set's iteration order"))
            if isinstance(n, ast.Call) and isinstance(n.func, ast.Name) and n.func.id == "print":
                if any(self.is_tainted_expr(a) or self.is_set_expr(a) for a in n.args):
                    self.findings.append((n, "prints in a set's iteration order"))
            if isinstance(n, ast.Raise) and n.exc is not None:
                for x in ast.walk(n.exc):
                    if isinstance(x, ast.Call) and isinstance(x.func, ast.Attribute) and x.func.attr in ("join", "format") and any(
                        self.is_tainted_expr(a) or self.is_set_expr(a) for a in x.args
                    ):
                        self.findings.append((n, "builds an exception message in a set's iteration order"))
                        break
            if isinstance(n, ast.Assign) and any(isinstance(t, ast.Attribute) for t in n.targets):
                if self.is_tainted_expr(n.value):
                    self.findings.append((n, "stores a sequence in a set's iteration order on the object"))
        return self.findings


def check_hashorder(ctx, led, rule="C19.hashorder"):
    n = 0
    nsets = 0
    for name, m in sorted(ctx.repo.modules.items()):
        for f in m.all_functions():
            n += 1
            sf = SetFlow(m, f)
            seen = set()
            for node, what in sf.run():
                if id(node) in seen:
                    continue
                seen.add(id(node))
                led.violation(
                    rule,
                    "%s::%s" % (f.qualname, short(node)),
                    m.where(node),
                    "%s: the result depends on PYTHONHASHSEED (elements hash by str)" % what,
                )
            nsets += len(sf.sets)
            if sf.sets and not seen:
                led.ok(rule, "%s sets %s" % (f.qualname, sorted(sf.sets)), m.where(f.node), "set order does not reach a result")
    return n, nsets


# ---------------------------------------------------------------------------------------------
# results kept in state that outlives the call (caches): the key must determine the value


def _name_is_read(ctx, table_src):
    """Is the container loaded anywhere in the package other than as the base of a subscript store?"""
    last = table_src.split(".")[-1].split("[")[0]
    for m in ctx.repo.modules.values():
        store_bases = set()
        for n in ast.walk(m.tree):
            if isinstance(n, (ast.Assign, ast.AugAssign)):
                tg = n.targets if isinstance(n, ast.Assign) else [n.target]
                for t in tg:
                    if isinstance(t, ast.Subscript):
                        store_bases.add(id(t.value))
                    elif isinstance(t, (ast.Name, ast.Attribute)):
                        store_bases.add(id(t))
        for n in ast.walk(m.tree):
            if id(n) in store_bases:
                continue
            if isinstance(n, ast.Attribute) and n.attr == last and isinstance(n.ctx, ast.Load):
                return True
            if isinstance(n, ast.Name) and n.id == last and isinstance(n.ctx, ast.Load):
                return True
    return False


def check_shared_memo(ctx, led, prop):
    """Every object model built in this run: a store into a class- or module-level table that the
    package also reads (a cache) makes what a later call computes depend on what an earlier call
    left behind - unless the key determines the stored value.  Decided on the value graph: the
    value may depend on metric slots / minor version only through the key (dependence), and the
    key must separate any two values of such a slot that the stored value separates (for every
    value of the other metrics).  A correctly keyed memo is silent."""
    from .interp import TupleVal
    from .interp_expr import deps_of
    from .rules_flow import pinned_canon
    from .rules_out import distinguishes
    from .terms import ABSENT, Term

    rule = "%s.state.memo" % prop
    n = 0
    for mk, om in list(ctx.memo.items()):
        if not (isinstance(mk, tuple) and mk and mk[0] == "objmodel") or isinstance(om, Exception):
            continue
        seen = set()
        for e in om.ev.events:
            if e.kind != "global_write" or "key" not in e.data:
                continue
            table = e.data.get("table") or "?"
            where = e.where()
            if (table, where) in seen:
                continue
            seen.add((table, where))
            if not _name_is_read(ctx, table):
                continue
            n += 1
            key, value = e.data["key"], e.data["value"]
            vals = list(value.items) if isinstance(value, TupleVal) else [value]
            vals = [x for x in vals if isinstance(x, Term)]
            kd = deps_of(key) if isinstance(key, (Term, TupleVal)) else set()
            vd = set()
            for x in vals:
                vd |= deps_of(x)
            slots = sorted(s for s in vd if s.startswith("m:") or s == "minor")
            fq = getattr(getattr(e, "func", None), "qualname", None) or "?"
            ck = "%s::%s" % (fq, table)
            missing = [s for s in slots if s not in kd]
            keys = list(key.items) if isinstance(key, TupleVal) else [key]
            # a slot the value does not really separate (absent vs Not Defined) need not be in the key
            bad = None
            st = om.st
            for s in slots:
                dom = list(st.folder().domain(s))
                for i in range(len(dom)):
                    for j in range(i + 1, len(dom)):
                        c1, c2 = dom[i], dom[j]
                        try:
                            a = pinned_canon(om, st, {s: (c1,)}, vals)
                            b = pinned_canon(om, st, {s: (c2,)}, vals)
                        except AnalysisError:
                            a = b = None
                        if a is not None and b is not None and all(x == y for x, y in zip(a, b)):
                            continue  # the stored value does not tell c1 from c2
                        if s in missing or not any(isinstance(k, Term) and distinguishes(om, st, k, s, c1, c2) for k in keys):
                            bad = (s, c1, c2)
                            break
                    if bad:
                        break
                if bad:
                    break
            if bad:
                s, c1, c2 = bad

                def show(c):
                    return "omitted" if c is ABSENT else str(c)

                what = "minor version %s / %s" % (c1, c2) if s == "minor" else "%s %s / %s" % (s[2:], show(c1), show(c2))
                led.violation(
                    rule,
                    ck,
                    where,
                    "a result is kept in the shared table %s, which the package consults again, under a key that does not determine it: "
                    "two inputs that differ in %s get the same key but different stored values, so what an object reports depends on "
                    "what was constructed earlier in the process" % (table, what),
                )
            else:
                led.ok(rule, ck, where, "shared table %s: the key determines the stored value (%d slots examined)" % (table, len(slots)))
    return n
