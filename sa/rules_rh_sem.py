"""C12 — semantic analysis of from_rh_vector over representative Red Hat strings.

from_rh_vector is interpreted abstractly (exceptions as control flow) for the symbolic input
`vector` ranging over a representative set: score texts (the exact score, other spellings of the
same number, another number, texts float() rejects, nan, blanks) x vector parts (a valid vector of
the version, with a '/' inside for the prefixed versions, an invalid one, nothing), and strings
without any '/'.  The class constructor is replaced by the grammar (a valid part yields an object
token, any other raises CVSSnMalformedError / CVSSnMandatoryError: C04 discharges that the real
constructor does exactly this) and scores() of the token by a fixed base score.  For every input the
outcome read off the value graph (returned object / raised class) must be the one the property
states.  The idiom rules of rules_rh.py remain as an informational cross-check.
"""

from __future__ import annotations

from .ctx import VERSIONS
from .interp import Dead, Ref
from .pointeval import first_event, value_at
from .srcmodel import AnalysisError, short
from .terms import Const, Fin, Opaque, Space, Term

BASE = "7.5"  # the base score the token's scores() reports
OTHER_SCORES = ["6.5", "8.1"]  # its temporal and environmental scores (v2, v3)


def rh_inputs(ctx, v):
    """(string, expected) with expected in ('ok', token) | ('malformed',) | ('mismatch',) |
    ('vector', kind) | ('malformed-or-vector', kind)"""
    from .rules_text_sem import token_of

    spec = ctx.vspec(v)
    legal = ctx.legal(v)
    body = "/".join("%s:%s" % (k, [x for x in legal[k] if x != spec["nd"]][0]) for k in spec["mandatory"])
    pre = sorted(p for p in spec["prefixes"])[-1]
    valid = pre + body
    opt = [k for k in spec["order"] if k not in spec["mandatory"]]
    valid2 = valid + "/%s:%s" % (opt[0], [x for x in legal[opt[0]] if x != spec["nd"]][0])
    invalid = pre + body[:-1] + "q"
    missing = pre + "/".join(body.split("/")[:-1])
    scores = [
        (BASE, "same"), ("7.50", "same"), (" 7.5", "same"), ("7.5 ", "same"), ("+7.5", "same"), ("07.5", "same"), ("75e-1", "same"), ("7.50000000000000000000001", "same"),
        ("7.4", "other"), ("7.6", "other"), ("6.5", "other"), ("8.1", "other"), ("8", "other"), ("0", "other"), ("-7.5", "other"), ("nan", "other"), ("inf", "other"), ("7.5000001", "other"),
        ("", "bad"), (" ", "bad"), ("abc", "bad"), ("7,5", "bad"), ("7.5.0", "bad"), ("7.5a", "bad"), ("CVSS", "bad"), ("0x7", "bad"), ("snan", "bad"), ("nan123", "bad"),
    ]
    out = []
    for stxt, skind in scores:
        for vec, vkind in ((valid, "valid"), (valid2, "valid"), (invalid, "malformed"), (missing, "mandatory"), ("", "malformed"), (body if pre else "CVSS:9.9/" + body, "valid" if not pre else "malformed"), (" " + valid, "malformed"), (valid + "\n", "malformed")):
            s = stxt + "/" + vec
            tok = token_of(ctx, v, vec)
            vk = tok[0]
            if skind == "bad":
                # the format of the notation is checked first: a missing or non-numeric score part is
                # the RH-malformed error whatever follows the '/'
                exp = ("malformed",)
            elif vk != "valid":
                exp = ("vector", vk)
            elif skind == "same":
                exp = ("ok", tok[1])
            else:
                exp = ("mismatch",)
            out.append((s, exp))
    for s in ("", BASE, "abc", valid.replace("/", "|"), BASE + valid.replace("/", ":")):
        if "/" not in s:
            out.append((s, ("malformed",)))
    seen = {}
    for s, e in out:
        seen.setdefault(s, e)
    return list(seen.items())


class RHSemantics(object):
    def __init__(self, ctx, v):
        from .interp import ClassVal
        from .interp_stmt import Evaluator

        self.ctx, self.v = ctx, v
        info = VERSIONS[v]
        self.cls = ctx.repo.cls(info["mod"], info["cls"])
        self.f = ctx.repo.method(info["mod"], info["cls"], "from_rh_vector")
        self.inputs = rh_inputs(ctx, v)
        self.strings = tuple(s for s, _ in self.inputs)
        self.space = Space()
        self.space.add("rh", self.strings)
        ev = Evaluator(ctx, self.space)
        self.ev = ev
        ev.construct_hook = self.construct_hook
        ev.event_dom = True
        ev.method_hook = self.method_hook
        ev.attr_hook = self.attr_hook
        ev.regex_on_tables = True
        self.faults = []
        st = ev.new_state()
        st.dom["rh"] = self.strings
        arg = Fin(("rh",), dict(((s,), s) for s in self.strings))
        self.st = st
        try:
            if self.f.is_classmethod:
                self.val = ev.inline(st, self.f, None, [ClassVal(self.cls), arg], {}, self.f.node, self.f.module)
            else:
                self.val = ev.inline(st, self.f, None, [arg], {}, self.f.node, self.f.module)
        except Dead:
            self.val = None
        self.events = list(ev.events)

    def is_token(self, x):
        return isinstance(x, (Fin, Const)) and all(isinstance(t, tuple) and len(t) == 3 and str(t[0]).startswith("CVSS") for t in (x.table.values() if isinstance(x, Fin) else [x.v]))

    def construct_hook(self, st, cls, args, kwargs, node, module):
        from .interp import mk_not
        from .rules_text_sem import token_of
        from .terms import ERR

        if cls.name not in ("CVSS2", "CVSS3", "CVSS4"):
            return None
        if cls.name != self.cls.name:
            self.faults.append((module.where(node), "%s is constructed by %s.from_rh_vector" % (cls.name, self.cls.name)))
            raise Dead()
        if len(args) != 1 or kwargs:
            raise AnalysisError("C12.sem", "constructor call with other than one positional argument", node, module)
        arg = args[0]
        fo = st.folder()
        if isinstance(arg, Fin):
            arg = fo.restrict(arg)
        if not isinstance(arg, (Fin, Const)) or not all(isinstance(x, str) for x in (arg.table.values() if isinstance(arg, Fin) else [arg.v])):
            raise AnalysisError("C12.sem", "the constructor argument %r is not a part of the input string" % (arg,), node, module)
        v = self.v

        def kind(s):
            return token_of(self.ctx, v, s)[0]

        def tok(s):
            k, t = token_of(self.ctx, v, s)
            return t if k == "valid" else ERR

        for kd, exc in (("malformed", "CVSS%dMalformedError" % v), ("mandatory", "CVSS%dMandatoryError" % v)):
            cond = Const(kind(arg.v) == kd) if isinstance(arg, Const) else fo.fold(lambda a, kd=kd: kind(a) == kd, [arg])
            d = self.ev.decide(st, cond)
            if d is False:
                continue
            self.ev.hazard(st, exc, node, module, cond, "%s(vector part) for a %s vector part" % (cls.name, kd))
            if d is True:
                raise Dead()
            self.ev.assume(st, mk_not(cond))
            fo = st.folder()
            arg = fo.restrict(arg) if isinstance(arg, Fin) else arg
        return Const(tok(arg.v)) if isinstance(arg, Const) else fo.fold(tok, [arg])

    def attr_hook(self, st, base, name, node, module):
        from fractions import Fraction

        from .consteval import Dec

        if not self.is_token(base) or (isinstance(base, Const) and base.v is None):
            return None
        if name == "base_score":
            return Const(Dec(Fraction(BASE), BASE))
        if name in ("temporal_score", "environmental_score") and self.v != 4:
            x = OTHER_SCORES[0 if name == "temporal_score" else 1]
            return Const(Dec(Fraction(x), x))
        if name in ("temporal_score", "environmental_score", "vector", "metrics", "original_metrics"):
            return Opaque("attr:" + name)
        return None

    def method_hook(self, st, recv, name, args, kwargs, node, module):
        from fractions import Fraction

        from .consteval import Flt
        from .interp import TupleVal

        if not self.is_token(recv) or (isinstance(recv, Const) and recv.v is None):
            return None
        if name == "scores" and not args and not kwargs:
            n = 1 if self.v == 4 else 3
            # temporal / environmental scores of the object: concrete numbers different from the base score
            return TupleVal([Const(Flt(Fraction(x), x)) for x in ([BASE] + OTHER_SCORES)[:n]])
        if name in ("base_score",):
            return None
        raise AnalysisError("C12.sem", "method %s of the constructed object is not modelled here" % name, node, module)

    def outcome(self, s):
        """('ok', token) | ('raise', class) | ('escape', class) | ('none',)"""
        pins = {"rh": s}
        e = first_event(pins, self.events)
        if e is not None:
            return ("raise" if e.kind == "raise" else "escape", str(e.data.get("exc")), e)
        if self.val is None:
            return ("none",)
        try:
            x = value_at(pins, self.val) if isinstance(self.val, Term) else self.val
        except Dead:
            return ("none",)
        return ("ok", x)


def check_rh_semantics(ctx, led, v, rule="C12.sem"):
    rs = RHSemantics(ctx, v)
    info = VERSIONS[v]
    ck = "%s.from_rh_vector" % info["cls"]
    where = rs.f.module.where(rs.f.node)
    malformed = "CVSS%dRHMalformedError" % v
    mismatch = "CVSS%dRHScoreDoesNotMatch" % v
    vec_err = {"malformed": "CVSS%dMalformedError" % v, "mandatory": "CVSS%dMandatoryError" % v}
    for w, what in rs.faults[:2]:
        led.violation(rule + ".class", ck, w, what)
    bad = None
    n = 0
    for s, exp in rs.inputs:
        got = rs.outcome(s)
        n += 1
        ok = False
        if exp[0] == "ok":
            ok = got[0] == "ok" and got[1] == exp[1]
            want = "return the object of the vector part"
        elif exp[0] == "malformed":
            ok = got[0] == "raise" and got[1] == malformed
            want = "raise %s" % malformed
        elif exp[0] == "mismatch":
            ok = got[0] == "raise" and got[1] == mismatch
            want = "raise %s" % mismatch
        elif exp[0] == "vector":
            ok = got[0] in ("raise", "escape") and got[1] == vec_err[exp[1]]
            want = "let the constructor's %s through" % vec_err[exp[1]]
        else:
            ok = got[0] in ("raise", "escape") and got[1] in (malformed, vec_err[exp[1]])
            want = "raise %s or %s" % (malformed, vec_err[exp[1]])
        if not ok and bad is None:
            desc = "returns %r" % (got[1],) if got[0] == "ok" else "returns nothing" if got[0] == "none" else "raises %s" % got[1]
            where_ = got[2].where() if len(got) > 2 else where
            bad = (s, want, desc, where_)
    if bad:
        s, want, desc, where_ = bad
        led.violation(rule, "%s::outcome" % ck, where_, "from_rh_vector(%r) must %s; it %s" % (s, want, desc))
    else:
        led.ok(rule, "%s::outcome" % ck, where, "%d representative strings: accepted / rejected with the class the property states" % n)
    return n
