"""C12 — semantic analysis of from_rh_vector over representative Red Hat strings.

from_rh_vector is interpreted abstractly (exceptions as control flow) for the symbolic input
`vector` ranging over a representative set: score texts (the exact score, other spellings of the
same number, another number, texts float() rejects, nan, blanks) x vector parts (a valid vector of
the version, with a '/' inside for the prefixed versions, an invalid one, nothing), and strings
without any '/'.  The class constructor is replaced by the grammar (a valid part yields an object
token, any other raises CVSSnMalformedError / CVSSnMandatoryError: C04 discharges that the real
constructor does exactly this) and scores() of the token by a fixed base score.  For every input the
outcome read off the value graph (returned object / raised class) must be the one the property
states.  The idiom rules of rules_rh.py remain as an informational cross-check.
"""

from __future__ import annotations

from .ctx import VERSIONS
from .interp import Dead, Ref
from .pointeval import first_event, value_at
from .srcmodel import AnalysisError, short
from .terms import Const, Fin, Opaque, Space, Term

BASE = "7.5"  # the base score the token's scores() reports
OTHER_SCORES = ["6.5", "8.1"]  # its temporal and environmental scores (v2, v3)


def rh_inputs(ctx, v):
    """(string, expected) with expected in ('ok', token) | ('malformed',) | ('mismatch',) |
    ('vector', kind) | ('malformed-or-vector', kind)"""
    from .rules_text_sem import token_of

    spec = ctx.vspec(v)
    legal = ctx.legal(v)
    body = "/".join("%s:%s" % (k, [x for x in legal[k] if x != spec["nd"]][0]) for k in spec["mandatory"])
    pre = sorted(p for p in spec["prefixes"])[-1]
    valid = pre + body
    opt = [k for k in spec["order"] if k not in spec["mandatory"]]
    valid2 = valid + "/%s:%s" % (opt[0], [x for x in legal[opt[0]] if x != spec["nd"]][0])
    invalid = pre + body[:-1] + "q"
    missing = pre + "/".join(body.split("/")[:-1])
    scores = [
        (BASE, "same"), ("7.50", "same"), (" 7.5", "same"), ("7.5 ", "same"), ("+7.5", "same"), ("07.5", "same"), ("75e-1", "same"), ("7.50000000000000000000001", "same"),
        ("7.4", "other"), ("7.6", "other"), ("6.5", "other"), ("8.1", "other"), ("8", "other"), ("0", "other"), ("-7.5", "other"), ("nan", "other"), ("inf", "other"), ("7.5000001", "other"),
        ("", "bad"), (" ", "bad"), ("abc", "bad"), ("7,5", "bad"), ("7.5.0", "bad"), ("7.5a", "bad"), ("CVSS", "bad"), ("0x7", "bad"), ("snan", "bad"), ("nan123", "bad"),
    ]
    out = []
    for stxt, skind in scores:
        for vec, vkind in ((valid, "valid"), (valid2, "valid"), (invalid, "malformed"), (missing, "mandatory"), ("", "malformed"), (body if pre else "CVSS:9.9/" + body, "valid" if not pre else "malformed"), (" " + valid, "malformed"), (valid + "\n", "malformed")):
            s = stxt + "/" + vec
            tok = token_of(ctx, v, vec)
            vk = tok[0]
            if skind == "bad":
                # the format of the notation is checked first: a missing or non-numeric score part is
                # the RH-malformed error whatever follows the '/'
                exp = ("malformed",)
            elif vk != "valid":
                exp = ("vector", vk)
            elif skind == "same":
                exp = ("ok", tok[1])
            else:
                exp = ("mismatch",)
            out.append((s, exp))
    for s in ("", BASE, "abc", valid.replace("/", "|"), BASE + valid.replace("/", ":")):
        if "/" not in s:
            out.append((s, ("malformed",)))
    seen = {}
    for s, e in out:
        seen.setdefault(s, e)
    return list(seen.items())


class RHSemantics(object):
    def __init__(self, ctx, v):
        from .interp import ClassVal
        from .interp_stmt import Evaluator

        self.ctx, self.v = ctx, v
        info = VERSIONS[v]
        self.cls = ctx.repo.cls(info["mod"], info["cls"])
        self.f = ctx.repo.method(info["mod"], info["cls"], "from_rh_vector")
        self.inputs = rh_inputs(ctx, v)
        self.strings = tuple(s for s, _ in self.inputs)
        self.space = Space()
        self.space.add("rh", self.strings)
        ev = Evaluator(ctx, self.space)
        self.ev = ev
        ev.construct_hook = self.construct_hook
        ev.event_dom = True
        ev.method_hook = self.method_hook
        ev.attr_hook = self.attr_hook
        ev.regex_on_tables = True
        self.faults = []
        st = ev.new_state()
        st.dom["rh"] = self.strings
        arg = Fin(("rh",), dict(((s,), s) for s in self.strings))
        self.st = st
        try:
            if self.f.is_classmethod:
                self.val = ev.inline(st, self.f, None, [ClassVal(self.cls), arg], {}, self.f.node, self.f.module)
            else:
                self.val = ev.inline(st, self.f, None, [arg], {}, self.f.node, self.f.module)
        except Dead:
            self.val = None
        self.events = list(ev.events)

    def is_token(self, x):
        return isinstance(x, (Fin, Const)) and all(isinstance(t, tuple) and len(t) == 3 and str(t[0]).startswith("CVSS") for t in (x.table.values() if isinstance(x, Fin) else [x.v]))

    def construct_hook(self, st, cls, args, kwargs, node, module):
        from .interp import mk_not
        from .rules_text_sem import token_of
        from .terms import ERR

        if cls.name not in ("CVSS2", "CVSS3", "CVSS4"):
            return None
        if cls.name != self.cls.name:
            self.faults.append((module.where(node), "%s is constructed by %s.from_rh_vector" % (cls.name, self.cls.name)))
            raise Dead()
        if len(args) != 1 or kwargs:
            raise AnalysisError("C12.sem", "constructor call with other than one positional argument", node, module)
        arg = args[0]
        fo = st.folder()
        if isinstance(arg, Fin):
            arg = fo.restrict(arg)
        if not isinstance(arg, (Fin, Const)) or not all(isinstance(x, str) for x in (arg.table.values() if isinstance(arg, Fin) else [arg.v])):
            raise AnalysisError("C12.sem", "the constructor argument %r is not a part of the input string" % (arg,), node, module)
        v = self.v

        def kind(s):
            return token_of(self.ctx, v, s)[0]

        def tok(s):
            k, t = token_of(self.ctx, v, s)
            return t if k == "valid" else ERR

        for kd, exc in (("malformed", "CVSS%dMalformedError" % v), ("mandatory", "CVSS%dMandatoryError" % v)):
            cond = Const(kind(arg.v) == kd) if isinstance(arg, Const) else fo.fold(lambda a, kd=kd: kind(a) == kd, [arg])
            d = self.ev.decide(st, cond)
            if d is False:
                continue
            self.ev.hazard(st, exc, node, module, cond, "%s(vector part) for a %s vector part" % (cls.name, kd))
            if d is True:
                raise Dead()
            self.ev.assume(st, mk_not(cond))
            fo = st.folder()
            arg = fo.restrict(arg) if isinstance(arg, Fin) else arg
        return Const(tok(arg.v)) if isinstance(arg, Const) else fo.fold(tok, [arg])

    def attr_hook(self, st, base, name, node, module):
        from fractions import Fraction

        from .consteval import Dec

        if not self.is_token(base) or (isinstance(base, Const) and base.v is None):
            return None
        if name == "base_score":
            return Const(Dec(Fraction(BASE), BASE))
        if name in ("temporal_score", "environmental_score") and self.v != 4:
            x = OTHER_SCORES[0 if name == "temporal_score" else 1]
            return Const(Dec(Fraction(x), x))
        if name in ("temporal_score", "environmental_score", "vector", "metrics", "original_metrics"):
            return Opaque("attr:" + name)
        return None

    def method_hook(self, st, recv, name, args, kwargs, node, module):
        from fractions import Fraction

        from .consteval import Flt
        from .interp import TupleVal

        if not self.is_token(recv) or (isinstance(recv, Const) and recv.v is None):
            return None
        if name == "scores" and not args and not kwargs:
            n = 1 if self.v == 4 else 3
            # temporal / environmental scores of the object: concrete numbers different from the base score
            return TupleVal([Const(Flt(Fraction(x), x)) for x in ([BASE] + OTHER_SCORES)[:n]])
        if name in ("base_score",):
            return None
        f_ = self.cls.methods.get(name)
        if f_ is not None and name.startswith("_") and not name.startswith("__") and not f_.is_classmethod and not f_.is_staticmethod and not getattr(f_, "is_property", False):
            # a private helper of the class called on the constructed object (the score check moved
            # into a method): interpreted with the object token as self
            return self.ev.inline(st, f_, None, [recv] + list(args), kwargs, node, module)
        raise AnalysisError("C12.sem", "method %s of the constructed object is not modelled here" % name, node, module)

    def outcome(self, s):
        """('ok', token) | ('raise', class) | ('escape', class) | ('none',)"""
        pins = {"rh": s}
        e = first_event(pins, self.events)
        if e is not None:
            return ("raise" if e.kind == "raise" else "escape", str(e.data.get("exc")), e)
        if self.val is None:
            return ("none",)
        try:
            x = value_at(pins, self.val) if isinstance(self.val, Term) else self.val
        except Dead:
            return ("none",)
        return ("ok", x)


def check_rh_semantics(ctx, led, v, rule="C12.sem"):
    rs = RHSemantics(ctx, v)
    info = VERSIONS[v]
    ck = "%s.from_rh_vector" % info["cls"]
    where = rs.f.module.where(rs.f.node)
    malformed = "CVSS%dRHMalformedError" % v
    mismatch = "CVSS%dRHScoreDoesNotMatch" % v
    vec_err = {"malformed": "CVSS%dMalformedError" % v, "mandatory": "CVSS%dMandatoryError" % v}
    for w, what in rs.faults[:2]:
        led.violation(rule + ".class", ck, w, what)
    bad = None
    n = 0
    for s, exp in rs.inputs:
        got = rs.outcome(s)
        n += 1
        ok = False
        if exp[0] == "ok":
            ok = got[0] == "ok" and got[1] == exp[1]
            want = "return the object of the vector part"
        elif exp[0] == "malformed":
            ok = got[0] == "raise" and got[1] == malformed
            want = "raise %s" % malformed
        elif exp[0] == "mismatch":
            ok = got[0] == "raise" and got[1] == mismatch
            want = "raise %s" % mismatch
        elif exp[0] == "vector":
            ok = got[0] in ("raise", "escape") and got[1] == vec_err[exp[1]]
            want = "let the constructor's %s through" % vec_err[exp[1]]
        else:
            ok = got[0] in ("raise", "escape") and got[1] in (malformed, vec_err[exp[1]])
            want = "raise %s or %s" % (malformed, vec_err[exp[1]])
        if not ok and bad is None:
            desc = "returns %r" % (got[1],) if got[0] == "ok" else "returns nothing" if got[0] == "none" else "raises %s" % got[1]
            where_ = got[2].where() if len(got) > 2 else where
            bad = (s, want, desc, where_)
    if bad:
        s, want, desc, where_ = bad
        led.violation(rule, "%s::outcome" % ck, where_, "from_rh_vector(%r) must %s; it %s" % (s, want, desc))
    else:
        led.ok(rule, "%s::outcome" % ck, where, "%d representative strings: accepted / rejected with the class the property states" % n)
    return n


def table_is_read(func, table_src):
    """Is the container named by `table_src` (e.g. 'cls._rh_checked') loaded in `func` other than
    as the target of a subscript store?  (The name of the last attribute / the bare name decides.)"""
    import ast

    last = table_src.split(".")[-1].split("[")[0]
    store_targets = set()
    for n in ast.walk(func.node):
        if isinstance(n, (ast.Assign, ast.AugAssign)):
            tg = n.targets if isinstance(n, ast.Assign) else [n.target]
            for t in tg:
                if isinstance(t, ast.Subscript):
                    store_targets.add(id(t.value))
    for n in ast.walk(func.node):
        if id(n) in store_targets:
            continue
        if isinstance(n, ast.Attribute) and n.attr == last and isinstance(n.ctx, ast.Load):
            # obj.table.setdefault(...) alone is a store as well, any other use reads
            return True
        if isinstance(n, ast.Name) and n.id == last and isinstance(n.ctx, ast.Load):
            return True
    return False


def check_rh_history(ctx, led, v, rule="C12.sem.history"):
    """from_rh_vector must decide every string on its own: when it keeps results in state that
    outlives the call (a class- or module-level table) and consults that state, the key under which
    a result is kept has to determine the outcome the property states.  Decided on the value graph:
    for the representative strings that reach the store, every other representative string with the
    same key value must have the same required outcome."""
    rs = RHSemantics(ctx, v)
    info = VERSIONS[v]
    ck = "%s.from_rh_vector" % info["cls"]
    expected = dict(rs.inputs)
    n = 0
    for e in rs.events:
        if e.kind != "global_write" or "key" not in e.data:
            continue
        n += 1
        table = e.data.get("table") or "?"
        if not table_is_read(rs.f, table):
            continue  # written, never consulted here: C19's matter
        key = e.data["key"]
        writers = list((e.data.get("dom") or {}).get("rh") or rs.strings)

        def key_at(s):
            try:
                x = value_at({"rh": s}, key) if isinstance(key, Term) else key
            except Exception:
                return None
            return x.v if isinstance(x, Const) else x

        by_key = {}
        for s in rs.strings:
            k = key_at(s)
            if k is not None:
                try:
                    by_key.setdefault(k, []).append(s)
                except TypeError:
                    pass
        bad = None
        for s1 in writers:
            k = key_at(s1)
            try:
                same = by_key.get(k, [])
            except TypeError:
                same = []
            for s2 in same:
                if s2 != s1 and expected.get(s2) != expected.get(s1):
                    bad = (s1, s2, k)
                    break
            if bad:
                break
        if bad:
            s1, s2, k = bad
            led.violation(
                rule,
                "%s::%s" % (ck, table),
                e.where(),
                "from_rh_vector keeps its result in %s under the key %r and consults that table: after from_rh_vector(%r) "
                "the call from_rh_vector(%r) finds the entry although the property requires %s for it (and %s for the first): "
                "the outcome depends on what was parsed earlier" % (table, k, s1, s2, expected.get(s2), expected.get(s1)),
            )
        else:
            led.ok(rule, "%s::%s" % (ck, table), e.where(), "the key determines the required outcome on all representative strings")
    return n
