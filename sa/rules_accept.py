"""C04: table agreement with the grammar, mandatory check, implicit-exception escape analysis."""

from __future__ import annotations

import ast

from . import guards as G
from .ctx import VERSIONS
from .rules_parse import call_of, is_self_attr, parse_summary, raise_class
from .rules_score import get_model
from .srcmodel import AnalysisError, norm_src, short
from .terms import ABSENT, Const, Fin

RAISING_BUILTINS = ("int", "float", "D", "Decimal", "ord", "chr")


def check_tables(ctx, led, v, rule="C04.tables"):
    summ = parse_summary(ctx, v)
    legal = ctx.legal(v)
    acc = summ["accepted"]
    modname = VERSIONS[v]["const"]
    kt, vt = summ["keys_table_name"], summ["vals_table_name"]
    where = "cvss/%s.py" % modname
    n = 0
    for k in sorted(set(acc) | set(legal)):
        n += 1
        ck = "%s.%s[%s]" % (modname, vt or "?", k)
        if k not in legal:
            led.violation(rule, ck, where, "the parser accepts metric %r, which is not a CVSS v%d metric" % (k, v))
            continue
        if k not in acc:
            led.violation(rule, ck, where, "metric %r of the grammar is rejected (missing from %s)" % (k, kt))
            continue
        if acc[k] is None:
            led.violation(
                "C04.escape",
                ck,
                where,
                "metric %r is accepted by the key test (%s) but has no row in %s: KeyError escapes the constructor" % (k, kt, vt),
            )
            continue
        got, want = set(acc[k]), set(legal[k])
        if got == want:
            led.ok(rule, ck, where, "legal values %s" % sorted(want))
        else:
            led.violation(
                rule,
                ck,
                where,
                "legal values of %s differ from the grammar: accepted-but-illegal %s, legal-but-rejected %s"
                % (k, sorted(got - want), sorted(want - got)),
                expected=sorted(want),
                found=sorted(got),
            )
    led.check("" not in acc, rule, "%s empty key" % modname, where, "the empty string is accepted as a metric key")
    return n


def mandatory_vectors(ctx, v):
    """Well-formed vectors (every field legal, no duplicate) for the mandatory phase: complete ones,
    one mandatory metric missing each, and - where an optional metric's name or a value contains a
    mandatory metric's name - that metric missing while the other is present (a test on the raw
    string would be fooled)."""
    spec = ctx.vspec(v)
    legal = ctx.legal(v)
    pre = spec["prefixes"][-1]
    mand = list(spec["mandatory"])
    opt = [k for k in spec["order"] if k not in mand]

    def fld(k, i=0):
        vals = [x for x in legal[k] if x != spec["nd"]] or list(legal[k])
        return "%s:%s" % (k, vals[i % len(vals)])

    out = []
    full = [fld(k) for k in mand]
    out.append((pre + "/".join(full), "valid"))
    out.append((pre + "/".join(full + [fld(k, 1) for k in opt]), "valid"))
    out.append((pre + "/".join(reversed(full)), "valid"))
    for k in mand:
        rest = [f for f in full if not f.startswith(k + ":")]
        out.append((pre + "/".join(rest), "mandatory"))
        out.append((pre + "/".join(rest + [fld(o) for o in opt[:2]]), "mandatory"))
        for o in opt:
            if k in o or any(k in x for x in legal[o]):
                for i in range(len(legal[o])):
                    f = "%s:%s" % (o, legal[o][i])
                    if k in f:
                        out.append((pre + "/".join(rest + [f]), "mandatory"))
                        break
        for m2 in mand:
            if m2 != k and any(k in x for x in legal[m2]):
                x = [x for x in legal[m2] if k in x][0]
                out.append((pre + "/".join([f for f in rest if not f.startswith(m2 + ":")] + ["%s:%s" % (m2, x)]), "mandatory"))
    out.append((pre + "/".join(fld(o) for o in opt[:3]), "mandatory"))
    seen = {}
    for s_, kind in out:
        seen.setdefault(s_, kind)
    return list(seen.items())


def check_mandatory_semantics(ctx, led, v, rule="C04.mandatory.sem"):
    """The mandatory phase interpreted on well-formed representative vectors: self.vector is the
    string, self.metrics the dict the grammar assigns to it (that the parse phase stores exactly
    that is C04.semantic); check_mandatory must raise CVSSnMandatoryError exactly when a mandatory
    metric is missing.  Decides implementations the abstract presence analysis cannot follow (a
    test on the raw string, a computed set difference)."""
    from .interp import Dead, Inst, MapObj
    from .interp_stmt import Evaluator
    from .rules_parse_sem import spec_class
    from .terms import TRUE, Space

    info = VERSIONS[v]
    cls = ctx.repo.cls(info["mod"], info["cls"])
    if "check_mandatory" not in cls.methods:
        raise AnalysisError("C04.anchor", "%s.check_mandatory vanished" % info["cls"], cls.node, cls.module)
    cm = cls.methods["check_mandatory"]
    where = cm.module.where(cm.node)
    spec = ctx.vspec(v)
    want_exc = "CVSS%dMandatoryError" % v
    n = 0
    bad = None
    for vec, kind in mandatory_vectors(ctx, v):
        pre = [p for p in spec["prefixes"] if p and vec.startswith(p)]
        body = vec[len(pre[0]) :] if pre else vec
        got = dict(f.split(":") for f in body.split("/")) if body else {}
        ev = Evaluator(ctx, Space())
        st = ev.new_state()
        ref = ev.alloc(st, Inst(cls))
        inst = st.heap[ref.id]
        m = MapObj(False, "dict")
        for k, x in got.items():
            m.set(k, TRUE, Const(x))
        inst.attrs["metrics"] = ev.alloc(st, m)
        inst.attrs["original_metrics"] = ev.alloc(st, m.copy())
        inst.attrs["vector"] = Const(vec)
        if v == 3:
            from fractions import Fraction

            inst.attrs["minor_version"] = Const(int(pre[0][7]) if pre else 0)
        try:
            ev.run_method(st, ref, cm)
            outcome = "passes"
        except Dead:
            rs = [e for e in ev.events if e.kind in ("raise", "hazard")]
            outcome = "raises %s" % (rs[-1].data.get("exc") if rs else "?")
        n += 1
        ok = (outcome == "passes") if kind == "valid" else (outcome == "raises %s" % want_exc)
        if not ok and bad is None:
            bad = (vec, kind, outcome)
    if bad:
        vec, kind, outcome = bad
        led.violation(
            rule,
            "%s.check_mandatory::outcome" % info["cls"],
            where,
            "for the %s vector %r check_mandatory %s; it must %s"
            % ("complete" if kind == "valid" else "well-formed but incomplete", vec, outcome, "pass" if kind == "valid" else "raise %s" % want_exc),
        )
    else:
        led.ok(rule, "%s.check_mandatory::outcome" % info["cls"], where, "%d well-formed representative vectors: rejected exactly when a mandatory metric is missing" % n)
    return n


def check_mandatory(ctx, led, v, rule="C04.mandatory"):
    """After check_mandatory the abstract state must exclude 'absent' exactly for the grammar's
    mandatory metrics, and must not have lost any legal value.  When the abstract presence
    analysis cannot follow the implementation, the interpretation on representative vectors
    (check_mandatory_semantics, always run) decides alone."""
    n_sem = check_mandatory_semantics(ctx, led, v, rule + ".sem")
    try:
        return _check_mandatory_abstract(ctx, led, v, rule)
    except AnalysisError as e:
        led.info(rule, "CVSS%d.check_mandatory" % v, "cvss/", "abstract presence analysis not applicable (%s): decided on %d representative vectors" % (e.message, n_sem))
        return n_sem


def _check_mandatory_abstract(ctx, led, v, rule="C04.mandatory"):
    om = get_model(ctx, v)
    spec = ctx.vspec(v)
    cm = ctx.repo.method(om.modname, om.clsname, "check_mandatory")
    where = om.module.where(cm.node)
    # re-run only parse model + check_mandatory on a fresh state to isolate its effect
    from .objmodel import ObjModel

    m2 = ObjModel(ctx, v, run_init=False)
    from .interp import Dead, Inst, MapObj

    st = m2.st
    ref = m2.ev.alloc(st, Inst(m2.cls))
    inst = st.heap[ref.id]
    inst.attrs["metrics"] = m2.ev.alloc(st, MapObj(False, "dict"))
    inst.attrs["vector"] = None
    m2._parse_model(m2.ev, st, [ref], {}, cm.node, om.module)
    try:
        m2.ev.run_method(st, ref, cm)
        alive = True
    except Dead:
        alive = False
    if not alive:
        led.violation(rule, "%s.check_mandatory::always raises" % om.clsname, where, "check_mandatory rejects every vector")
        return 0
    fo = st.folder()
    n = 0
    for k in om.accepted:
        s = "m:" + k
        dom = fo.domain(s)
        n += 1
        ck = "%s.check_mandatory[%s]" % (om.clsname, k)
        if k in spec["mandatory"]:
            led.check(
                ABSENT not in dom,
                rule,
                ck,
                where,
                "a vector lacking mandatory metric %s passes check_mandatory" % k,
            )
        else:
            led.check(
                ABSENT in dom,
                rule,
                ck,
                where,
                "optional metric %s is treated as mandatory (vectors without it are rejected)" % k,
            )
        lost = [x for x in om.space.dom[s] if x is not ABSENT and x not in dom]
        led.check(not lost, rule + ".values", ck, where, "check_mandatory rejects legal value(s) %s of %s" % (lost, k))
    plain = __import__("sa.terms", fromlist=["Folder"]).Folder(st.space, st.dom)
    for c in st.constraints:
        r = plain.restrict(c)
        led.check(
            isinstance(r, Const) and bool(r.v),
            rule + ".joint",
            "%s.check_mandatory::joint condition" % om.clsname,
            where,
            "check_mandatory rejects some combination of present metrics (joint condition on %s)" % (c.slots,),
        )
    for e in m2.ev.events:
        if e.kind == "raise":
            want = "CVSS%dMandatoryError" % v
            led.check(
                e.data.get("exc") == want,
                "C04.kinds",
                "%s.check_mandatory::raise %s" % (om.clsname, e.data.get("exc")),
                e.where(),
                "missing mandatory metrics must raise %s (found %s)" % (want, e.data.get("exc")),
            )
    return n


def check_escape_eval(ctx, led, v, rule="C04.escape"):
    """Implicit-exception sites met while abstractly interpreting __init__ after parsing."""
    om = get_model(ctx, v)
    n_sites = 0
    ok_exc = ("CVSS%dMalformedError" % v, "CVSS%dMandatoryError" % v)
    for e in om.events(init_only=True):
        if e.kind == "hazard":
            stmt = e.node
            mod = e.module
            while not isinstance(stmt, ast.stmt) and mod.parent(stmt) is not None:
                stmt = mod.parent(stmt)
            fn = e.func.qualname if e.func else "?"
            led.violation(
                rule,
                "%s::%s" % (fn, short(stmt)),
                e.where(),
                "%s can escape the constructor: %s" % (e.data["exc"], e.data["what"]),
            )
        elif e.kind == "none_arith":
            stmt = e.node
            mod = e.module
            while stmt is not None and not isinstance(stmt, ast.stmt) and mod.parent(stmt) is not None:
                stmt = mod.parent(stmt)
            fn = e.func.qualname if e.func else "?"
            led.violation(
                rule,
                "%s::%s" % (fn, short(stmt) if stmt is not None else "?"),
                e.where(),
                "TypeError can escape the constructor: a weight that may be None (%s) is used in arithmetic"
                % (e.data.get("bad"),),
            )
        elif e.kind == "raise":
            if e.data.get("exc") not in ok_exc:
                stmt = e.node
                fn = e.func.qualname if e.func else "?"
                led.violation(
                    "C04.kinds",
                    "%s::raise %s" % (fn, e.data.get("exc")),
                    e.where(),
                    "a reachable raise of %s (outside the CVSSError taxonomy for constructor faults)" % e.data.get("exc"),
                )
        elif e.kind == "may_raise":
            fn = e.func.qualname if e.func else "?"
            led.violation(rule, "%s::%s" % (fn, short(e.node)), e.where(), "%s may escape" % e.data.get("exc"))
    # count of discharged sites = subscript / lookup nodes in the functions that were inlined
    for q in sorted(om.ev.inline_log):
        f = None
        for fn in om.cls.methods.values():
            if fn.qualname == q:
                f = fn
        if f is None:
            continue
        for n in ast.walk(f.node):
            if isinstance(n, ast.Subscript) and isinstance(n.ctx, ast.Load):
                n_sites += 1
                led.ok(rule, "%s::%s" % (q, short(n)), om.module.where(n), "lookup discharged by abstract interpretation")
    return n_sites


def must_reach(stmts, target):
    """Every path through `stmts` that does not end in a raise executes `target`."""
    for i, st in enumerate(stmts):
        if st is target:
            return True, None
        contains = any(x is target for x in ast.walk(st))
        if contains:
            if isinstance(st, ast.If):
                if any(x is target for b in st.body for x in ast.walk(b)):
                    inner, why = must_reach(st.body, target)
                    other = st.orelse
                else:
                    inner, why = must_reach(st.orelse, target)
                    other = st.body
                if not inner:
                    return False, why
                if not (other and G.terminates(other) and G.exits_kind(other) <= {"raise"}):
                    # the other arm continues: it must itself reach a store later (not modelled)
                    return False, "the arm opposite to the store at line %d does not raise" % st.lineno
                return True, None
            if isinstance(st, ast.Try):
                return must_reach(st.body, target)
            return False, "store nested in %s" % type(st).__name__
        # a statement before the store: it must not leave the iteration without raising
        for x in ast.walk(st):
            if isinstance(x, (ast.Continue, ast.Break, ast.Return)):
                return False, "`%s` at line %d leaves the iteration before the store" % (type(x).__name__.lower(), x.lineno)
    return False, "store not found on the straight-line path"


def check_escape_parse(ctx, led, v, rule="C04.escape"):
    """Implicit-exception sites inside parse_vector: structural rules (a proof where they recognise
    the code).  When the semantic analysis of the parse phase is clean — it interprets the same
    sites on representative inputs and reports every exception that escapes — an unrecognised shape
    is information, not a violation."""
    from .rules_parse import semantic_verdict

    sem = semantic_verdict(ctx, v)
    clean = not isinstance(sem, AnalysisError) and not sem[2] and sem[1] * 10 <= sem[3]
    if not clean:
        return _check_escape_parse(ctx, led, v, rule)

    class _Arb(object):
        def __getattr__(self_, name):
            return getattr(led, name)

        def violation(self_, r, ck, where, what, **k):
            return led.info(r, ck, where, "shape not recognised (no escaping exception on the representative inputs of the semantic analysis): " + what)

        def check(self_, cond, r, ck, where, what, **k):
            if cond:
                return led.check(cond, r, ck, where, what, **k)
            self_.violation(r, ck, where, what)
            return cond

    try:
        n = _check_escape_parse(ctx, _Arb(), v, rule)
    except AnalysisError as e:
        led.info(rule, "%s.parse_vector" % VERSIONS[v]["cls"], "cvss/%s.py" % VERSIONS[v]["mod"], "structural escape rules not applicable (%s); decided by the semantic analysis" % e.message)
        n = 0
    from .rules_parse_sem import get_semantics

    ps = get_semantics(ctx, v)
    n_sites = len([e for r_ in ps.runs.values() for e in r_["events"] if e.kind in ("hazard", "raise")])
    led.ok(rule, "%s parse phase (semantic)" % VERSIONS[v]["cls"], "cvss/%s.py" % VERSIONS[v]["mod"], "%d raise/implicit-exception events interpreted on %d representative vectors x %d fields: none escapes" % (n_sites, len(ps.R), len(ps.F)))
    return max(n, 6)


def _check_escape_parse(ctx, led, v, rule="C04.escape"):
    summ = parse_summary(ctx, v)
    module = summ["module"]
    info = VERSIONS[v]
    pv = ctx.repo.method(info["mod"], info["cls"], "parse_vector")
    n_sites = 0
    kt = summ["keys_table"]
    for n in ast.walk(pv.node):
        if isinstance(n, ast.Subscript) and isinstance(n.ctx, ast.Load):
            stmt = n
            while not isinstance(stmt, ast.stmt):
                stmt = module.parent(stmt)
            ck = "%s.parse_vector::%s" % (info["cls"], short(n))
            if isinstance(n.slice, ast.Slice):
                n_sites += 1
                led.ok(rule, ck, module.where(n), "slice never raises")
                continue
            if isinstance(n.value, ast.Name) and isinstance(n.slice, ast.Constant):
                try:
                    table = ctx.ce.table(info["mod"], n.value.id, rule)
                except AnalysisError:
                    table = None
                if isinstance(table, (dict, list)):
                    n_sites += 1
                    try:
                        table[n.slice.value]
                        good = True
                    except (KeyError, IndexError, TypeError):
                        good = False
                    led.check(good, rule, ck, module.where(n), "constant lookup %s always fails" % short(n))
                    continue
            if isinstance(n.value, ast.Name) and isinstance(n.slice, ast.Name):
                try:
                    table = ctx.ce.table(info["mod"], n.value.id, rule)
                except AnalysisError:
                    table = None
                if isinstance(table, dict):
                    # need a dominating `idx in T'` with keys(T') subset of keys(table)
                    facts = G.dominating_facts(module, stmt)
                    # the test expression itself may contain the subscript: also use facts of the enclosing If test
                    good = False
                    for f in facts:
                        e = f.expr
                        if (
                            f.pol
                            and isinstance(e, ast.Compare)
                            and isinstance(e.ops[0], ast.In)
                            and isinstance(e.left, ast.Name)
                            and e.left.id == n.slice.id
                            and isinstance(e.comparators[0], ast.Name)
                        ):
                            try:
                                t2 = ctx.ce.table(info["mod"], e.comparators[0].id, rule)
                            except AnalysisError:
                                continue
                            if isinstance(t2, dict) and set(t2.keys()) <= set(table.keys()):
                                good = True
                    n_sites += 1
                    led.check(
                        good,
                        rule,
                        ck,
                        module.where(n),
                        "lookup %s is not dominated by a membership test in a table whose keys are all rows of %s: "
                        "KeyError escapes the constructor for some input" % (short(n), n.value.id),
                    )
                    continue
            raise AnalysisError(rule, "unrecognised subscript in parse_vector: %s" % short(n), n, module)
        if isinstance(n, ast.Call) and isinstance(n.func, ast.Name) and n.func.id in RAISING_BUILTINS:
            tries = G.enclosing_try_handlers(module, n)
            n_sites += 1
            ck = "%s.parse_vector::%s" % (info["cls"], short(n))
            good = any(
                any(x in ("ValueError", "Exception", "*") for x in G.handler_names(h, module)) for t in tries for h in t.handlers
            )
            if n.func.id in ("D", "Decimal") and n.args and isinstance(n.args[0], ast.Constant):
                good = True
            led.check(good, rule, ck, module.where(n), "%s() on an input component can raise outside the taxonomy" % n.func.id)
        if isinstance(n, ast.Assign) and isinstance(n.targets[0], (ast.Tuple, ast.List)):
            n_sites += 1  # discharged by C04.store.split
    # format templates must be constants: a template built from the input lets '{' / '}' in the
    # input raise ValueError/KeyError/IndexError from str.format
    for fn in [pv, ctx.repo.method(info["mod"], info["cls"], "check_mandatory")]:
        for n in ast.walk(fn.node):
            c = call_of(n, "format")
            if c is None:
                continue
            n_sites += 1
            recv, fargs = c
            ck = "%s.%s::%s" % (info["cls"], fn.name, short(n))
            try:
                tmpl = ctx.ce.eval(module, recv, rule)
            except AnalysisError:
                tmpl = None
            if not isinstance(tmpl, str):
                led.violation(
                    rule,
                    ck,
                    module.where(n),
                    "the str.format template is not a constant (it contains text derived from the input): braces in the "
                    "input make format() raise ValueError/KeyError/IndexError outside the CVSSError taxonomy",
                )
                continue
            import string as _string

            try:
                fields = [f for _, f, _, _ in _string.Formatter().parse(tmpl) if f is not None]
                idx = [int(f.split(".")[0].split("[")[0]) for f in fields if f.split(".")[0].split("[")[0].isdigit()]
                auto = len([f for f in fields if f == ""])
                good = (not idx or max(idx) < len(fargs)) and auto <= len(fargs) and all(f == "" or f.split(".")[0].split("[")[0].isdigit() or any(kw.arg == f for kw in n.keywords) for f in fields)
            except ValueError:
                good = False
            led.check(good, rule, ck, module.where(n), "format template %r does not fit its %d argument(s)" % (tmpl, len(fargs)))
    # every accepted field must be recorded: a non-raising path through the loop body that skips
    # the store makes the duplicate check blind for that field
    loop = summ.get("loop")
    if loop is not None:
        for store in summ["stores"]:
            stmt = store
            while not isinstance(stmt, ast.stmt):
                stmt = module.parent(stmt)
            ok, why = must_reach(loop.body, stmt)
            led.check(
                ok,
                "C04.store.every",
                "%s.parse_vector::%s recorded on every accepting path" % (info["cls"], short(stmt)),
                module.where(stmt),
                "some accepted field is not recorded in the metric map (%s): a later repetition of that metric passes the "
                "duplicate check" % why,
            )
    n_sites += check_overreject(ctx, led, v, summ, module, pv)
    return n_sites


def representative_vectors(ctx, v):
    """A finite family of *valid* vectors of version v (specification grammar), adequate for guards
    that test the whole vector's length, its head or tail, its number of fields, and single fields:
    shortest and longest vector, one vector per achievable length, and for every legal
    metric:value a vector that has it first and one that has it last; each with every prefix."""
    spec = ctx.vspec(v)
    legal = ctx.legal(v)
    order = list(spec["order"])
    mand = list(spec["mandatory"])
    prefixes = list(spec["prefixes"])
    short_v = dict((k, min(legal[k], key=len)) for k in order)
    long_v = dict((k, max(legal[k], key=len)) for k in order)
    bodies = []

    def body(metrics, vals, first=None, last=None):
        ms = [m for m in metrics if m != first and m != last]
        seq = ([first] if first else []) + ms + ([last] if last and last != first else [])
        return "/".join("%s:%s" % (m, vals[m]) for m in seq)

    bodies.append(body(mand, short_v))
    bodies.append(body(order, long_v))
    bodies.append(body(order, short_v))
    bodies.append(body(mand, long_v))
    # one witness per achievable length (subset-sum over the optional metrics and value lengths)
    reach = {0: []}
    for k in order:
        opts = sorted(set(len(x) for x in legal[k]))
        nxt = {}
        for tot, pick in reach.items():
            if k not in mand:
                nxt.setdefault(tot, pick)
            for L in opts:
                val = [x for x in legal[k] if len(x) == L][0]
                nxt.setdefault(tot + len(k) + 1 + L + (1 if pick else 0), pick + [(k, val)])
        reach = nxt
    for tot, pick in sorted(reach.items()):
        bodies.append("/".join("%s:%s" % kv for kv in pick))
    for k in order:
        for val in legal[k]:
            vals = dict(short_v)
            vals[k] = val
            ms = mand if k in mand else mand + [k]
            bodies.append(body(ms, vals, first=k))
            bodies.append(body(ms, vals, last=k))
    out = []
    seen = set()
    for p in prefixes:
        for b in bodies:
            if p + b not in seen:
                seen.add(p + b)
                out.append(p + b)
    return out


def check_overreject(ctx, led, v, summ, module, pv, rule="C04.overreject"):
    """No explicit raise of parse_vector may fire for a valid vector: the conjunction of the
    conditions that dominate the raise is evaluated (decision-table evaluation, sa/geval.py) for
    every representative valid vector and, inside the field loop, for every field of it."""
    from .geval import GuardEval, Raised, Undecidable

    info = VERSIONS[v]
    reps = representative_vectors(ctx, v)
    loop = summ.get("loop")
    sites = []
    for r in ast.walk(pv.node):
        if not isinstance(r, ast.Raise):
            continue
        facts = G.dominating_facts(module, r)
        handlers = [a for a in module.ancestors(r) if isinstance(a, ast.ExceptHandler)]
        site = {
            "node": r,
            "facts": facts,
            "handler": handlers[-1] if handlers else None,
            "in_loop": loop is not None and any(a is loop for a in module.ancestors(r)),
            "witness": None,
            "undecided": None,
            "evals": 0,
            "ck": "%s.parse_vector::raise under %s" % (info["cls"], "; ".join(repr(f) for f in facts)[:140] or "no condition"),
        }
        if site["handler"] is not None:
            h = site["handler"]
            tr = [a for a in module.ancestors(h) if isinstance(a, ast.Try)][-1]
            site["try"] = tr
            site["try_facts"] = G.dominating_facts(module, tr)
            hn = set()
            if h.type is not None:
                for t in ast.walk(h.type):
                    if isinstance(t, ast.Name):
                        hn.add(t.id)
            site["hnames"] = hn
        sites.append(site)
    tname = loop.target.id if loop is not None and isinstance(loop.target, ast.Name) else None

    def fires(site, ge):
        if site["handler"] is None:
            return all(bool(ge.ev(f.expr)) == f.pol for f in site["facts"])
        # raise inside `except X`: fires when the try body raises X for this input
        h, tr, hn = site["handler"], site["try"], site["hnames"]
        if not all(bool(ge.ev(f.expr)) == f.pol for f in site["try_facts"]):
            return False
        for st_ in tr.body:
            if isinstance(st_, (ast.Assign, ast.Expr)):
                try:
                    val = ge.ev(st_.value)
                    if isinstance(st_, ast.Assign):
                        t0 = st_.targets[0]
                        if isinstance(t0, (ast.Tuple, ast.List)) and len(list(val)) != len(t0.elts):
                            raise Raised(ValueError("unpack"))
                except Raised as x:
                    return h.type is None or type(x.exc).__name__ in hn or "Exception" in hn
            else:
                raise Undecidable("statement %s in a try body" % type(st_).__name__)
        return False

    def attempt(site, ge, vec, env):
        if site["witness"] or site["undecided"]:
            return
        site["evals"] += 1
        try:
            if fires(site, ge):
                site["witness"] = (vec, env, None)
        except Undecidable as x:
            site["undecided"] = str(x)
        except Raised as x:
            # evaluating the guard itself raises for a valid vector: an escape, C04.escape's matter
            site["undecided"] = "the guard raises %s for a valid vector" % x

    for vec in reps:
        if all(s_["witness"] or s_["undecided"] for s_ in sites):
            break
        ge = GuardEval(ctx, module, pv.node, {}, {"self.vector": vec, "self.metrics": {}})
        for site in sites:
            if not site["in_loop"]:
                attempt(site, ge, vec, {})
        loop_sites = [s_ for s_ in sites if s_["in_loop"]]
        if not loop_sites:
            continue
        if tname is None:
            for s_ in loop_sites:
                s_["undecided"] = "loop target is not a name"
            continue
        try:
            elems = list(ge.ev(loop.iter))
        except Raised as x:
            for s_ in loop_sites:
                s_["undecided"] = "the loop's sequence expression raises %s" % x
            continue
        except Undecidable as x:
            for s_ in loop_sites:
                s_["undecided"] = str(x)
            continue
        seen_metrics = {}
        for el in elems:
            ge2 = GuardEval(ctx, module, pv.node, {tname: el}, {"self.vector": vec, "self.metrics": dict(seen_metrics)})
            for site in loop_sites:
                attempt(site, ge2, vec, {tname: el})
            if isinstance(el, str) and ":" in el:
                seen_metrics[el.split(":")[0]] = el.split(":", 1)[1]
    for site in sites:
        r = site["node"]
        where = module.where(r)
        if site["witness"]:
            vec, env, why = site["witness"]
            led.violation(
                rule,
                site["ck"],
                where,
                "a valid vector is rejected: for %r%s the raise `%s` is reached"
                % (vec, (" (field %s)" % list(env.values())[0]) if env else "", short(r)),
            )
        elif site["undecided"]:
            led.undecided(
                rule,
                "raise at %s is guarded by a condition outside the decidable class (%s): cannot show it never rejects a valid vector"
                % (where, site["undecided"]),
            )
        else:
            led.ok(rule, site["ck"], where, "not reached for %d representative valid vectors (%d guard evaluations)" % (len(reps), site["evals"]))
    return len(sites)
