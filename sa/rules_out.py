"""Rules on emitted strings: clean_vector (C07/C08), sub-vectors (C15), rh_vector (C12), ==/hash."""

from __future__ import annotations

import ast

from . import terms as T
from .canon import Canon
from .ctx import VERSIONS
from .interp import Dead, Ref, TupleVal, mk_and
from .objmodel import metric_slot
from .rules_parse import parse_summary
from .rules_score import get_model
from .srcmodel import AnalysisError, short
from .terms import ABSENT, App, Const, Fin, Opaque, P, Term


def decompose_vector(val):
    """clean_vector-like result -> (prefix term or None, separator, [(guard, value)])."""
    prefix = None
    join = None
    if isinstance(val, App) and val.op == "join":
        join = val
    elif isinstance(val, App) and val.op == "cat":
        parts = list(val.args)
        if parts and isinstance(parts[-1], App) and parts[-1].op == "join":
            join = parts[-1]
            pre = parts[:-1]
            if len(pre) == 1:
                prefix = pre[0]
            elif len(pre) == 0:
                prefix = None
            else:
                prefix = App("cat", pre)
    if join is None:
        return None
    sep = join.args[0]
    items = []
    for it in join.args[1:]:
        if not (isinstance(it, App) and it.op == "item"):
            return None
        items.append((it.args[0], it.args[1]))
    return prefix, sep, items


def expected_field(fo, k, values):
    s = metric_slot(k)
    return fo.simplify(Fin((s,), dict(((x,), "%s:%s" % (k, x)) for x in values)))


def check_clean_vector(ctx, led, v, prefix_rule="C07"):
    """clean_vector(): one field per metric with a defined value, in a fixed table order, values as
    stored, behind the version prefix."""
    om = get_model(ctx, v)
    spec = ctx.vspec(v)
    nd = spec["nd"]
    f = ctx.repo.method(om.modname, om.clsname, "clean_vector")
    where = om.module.where(f.node)
    out = {}
    variants = [("default", {})]
    if v in (3, 4):
        variants.append(("noprefix", {"output_prefix": Const(False)}))
    for label, kw in variants:
        try:
            val, st, evs = om.call("clean_vector", [], kw)
        except Dead:
            led.violation(prefix_rule + ".emit", "%s.clean_vector::always raises" % om.clsname, where, "clean_vector raises")
            continue
        cn = Canon(om.ev, st)
        dec = decompose_vector(val)
        ck = "%s.clean_vector(%s)" % (om.clsname, label)
        if dec is None:
            raise AnalysisError(prefix_rule + ".emit", "clean_vector() result has an unrecognised shape: %r" % (val,), f.node, om.module)
        prefix, sep, items = dec
        led.check(
            isinstance(sep, Const) and sep.v == "/",
            prefix_rule + ".emit.sep",
            ck,
            where,
            "fields must be joined by '/', found %r" % (sep,),
        )
        # prefix
        if label == "default":
            if v == 2:
                exp_prefix = None
            elif v == 3:
                fo = st.folder()
                exp_prefix = fo.simplify(Fin(("minor",), dict(((m,), "CVSS:3.%s/" % m) for m in fo.domain("minor"))))
            else:
                exp_prefix = Const("CVSS:4.0/")
        else:
            exp_prefix = None
        got_prefix = cn(prefix) if prefix is not None else None
        if isinstance(got_prefix, Const) and got_prefix.v == "":
            got_prefix = None
        led.check(
            (got_prefix is None and exp_prefix is None) or (got_prefix is not None and exp_prefix is not None and got_prefix == exp_prefix),
            prefix_rule + ".emit.prefix",
            ck,
            where,
            "prefix of %s must be %s; found %r" % (ck, "empty" if exp_prefix is None else repr(exp_prefix), got_prefix),
        )
        # items
        fo = st.folder()
        seen = []
        for g, val_i in items:
            g = cn(g)
            if isinstance(g, Const) and not g.v:
                continue  # never emitted
            vi = cn(val_i)
            # which metric?  values look like "K:v"
            vals = set()
            if isinstance(vi, Const):
                vals = {vi.v}
            elif isinstance(vi, Fin):
                vals = set(vi.table.values())
            else:
                led.violation(prefix_rule + ".emit", ck + "::field", where, "emitted field is not a function of one metric: %r" % (vi,))
                continue
            keys = set(str(x).split(":")[0] for x in vals)
            if len(keys) != 1:
                led.violation(prefix_rule + ".emit", ck + "::field", where, "emitted field mixes metrics %s" % sorted(keys))
                continue
            k = keys.pop()
            seen.append(k)
            s = metric_slot(k)
            if s not in om.space.dom:
                led.violation(prefix_rule + ".emit", ck + "[%s]" % k, where, "emits %s, which the parser never stores" % k)
                continue
            dom = fo.domain(s)
            exp_g = fo.simplify(Fin((s,), dict(((x,), x is not ABSENT and x != nd) for x in dom)))
            led.check(
                g == exp_g,
                prefix_rule + ".emit.guard",
                ck + "[%s]" % k,
                where,
                "field %s must be emitted exactly when %s was given a defined value (not absent, not %s); found guard %s"
                % (k, k, nd, g.describe(8) if isinstance(g, Fin) else g),
            )
            defined = [x for x in dom if x is not ABSENT and x != nd]
            st2 = st.copy()
            st2.dom[s] = tuple(defined)
            if defined:
                cn2 = Canon(om.ev, st2)
                exp_v = st2.folder().simplify(Fin((s,), dict(((x,), "%s:%s" % (k, x)) for x in defined)))
                led.check(
                    cn2(val_i) == exp_v,
                    prefix_rule + ".emit.value",
                    ck + "[%s]" % k,
                    where,
                    "field for %s must be '%s:<stored value>'; found %s" % (k, k, cn2(val_i)),
                )
        dup = sorted(set(x for x in seen if seen.count(x) > 1))
        led.check(not dup, prefix_rule + ".emit.once", ck, where, "metric(s) %s can be emitted twice" % dup)
        missing = sorted(set(om.accepted) - set(seen))
        led.check(
            not missing,
            prefix_rule + ".emit.all",
            ck,
            where,
            "accepted metric(s) %s never appear in the cleaned vector: they silently vanish from the canonical form, "
            "equality and hash" % missing,
        )
        for e in evs:
            if e.kind == "input_order_iter":
                from .rules_flow import order_matters

                if not order_matters(ctx, v, "clean_vector")[0]:
                    continue
                led.violation(
                    prefix_rule + ".emit.order",
                    "%s::%s" % (e.func.qualname if e.func else "?", short(e.node)),
                    e.where(),
                    "the cleaned vector is built by iterating the parsed map: field order follows the input",
                )
        out[label] = (seen, val, st)
    return out


def check_reparse(ctx, led, v, emitted, rule="C07.reparse"):
    """Composition argument: the emitted string is accepted and parses back to the same map."""
    om = get_model(ctx, v)
    spec = ctx.vspec(v)
    nd = spec["nd"]
    summ = parse_summary(ctx, v)
    f = ctx.repo.method(om.modname, om.clsname, "clean_vector")
    where = om.module.where(f.node)
    if "default" not in emitted:
        return
    seen, val, st = emitted["default"]
    fo = st.folder()
    # mandatory metrics are always emitted: they are present and have no ND value
    for k in spec["mandatory"]:
        s = metric_slot(k)
        dom = fo.domain(s)
        led.check(
            ABSENT not in dom and nd not in dom and k in seen,
            rule + ".mandatory",
            "%s.clean_vector[%s]" % (om.clsname, k),
            where,
            "mandatory metric %s may be missing from the cleaned vector (absent or %s possible): re-parsing would fail" % (k, nd),
        )
    # prefix is one the parser accepts and selects the same minor version
    if v == 3:
        for minor in fo.domain("minor"):
            p = "CVSS:3.%s/" % minor
            led.check(
                summ["prefixes"].get(p) == minor,
                rule + ".prefix",
                "%s.clean_vector prefix %s" % (om.clsname, p),
                where,
                "emitted prefix %r is not accepted by the parser as minor version %r" % (p, minor),
            )
    elif v == 4:
        led.check("CVSS:4.0/" in summ["prefixes"], rule + ".prefix", "CVSS4.clean_vector prefix", where, "emitted prefix is not accepted")
    led.ok(rule, "%s.clean_vector reparse" % om.clsname, where, "emitted fields are stored (legal) pairs, each key once, mandatory keys present, accepted prefix")


def check_eq_hash(ctx, led, v, rule="C07.eq"):
    om = get_model(ctx, v)
    cls = om.cls
    where = om.module.where(cls.node)
    for m in ("__eq__", "__hash__"):
        if m not in cls.methods:
            led.violation(rule, "%s.%s missing" % (om.clsname, m), where, "%s defines no %s (== without hash makes objects unhashable)" % (om.clsname, m))
    if "__eq__" not in cls.methods or "__hash__" not in cls.methods:
        return
    for m in ("__ne__", "__lt__", "__le__", "__gt__", "__ge__", "__bool__", "__nonzero__", "__len__"):
        if m in cls.methods:
            led.violation(rule + ".override", "%s.%s" % (om.clsname, m), om.module.where(cls.methods[m].node), "%s overrides %s: may disagree with ==" % (om.clsname, m))
    cv, st0, _ = om.call("clean_vector")
    cn = Canon(om.ev, st0)
    key = cn(cv)
    hv, st1, _ = om.call("__hash__")
    hash_ok = isinstance(hv, App) and hv.op == "hash" and Canon(om.ev, st1)(hv.args[0]) == key
    hash_why = "found %s" % _brief(hv)
    if not hash_ok and isinstance(hv, App) and hv.op == "hash":
        # not literally hash(clean_vector()): accept any hash of a function of the canonical classes
        hash_ok, hash_why = semantic_hash_ok(ctx, om, v, hv.args[0], st1)
    led.check(
        hash_ok,
        rule + ".hash",
        "%s.__hash__" % om.clsname,
        om.module.where(cls.methods["__hash__"].node),
        "equal objects must have equal hashes: the hash must be computed from what == compares (version and defined metric "
        "values only); %s" % hash_why,
    )
    try:
        ev_, st2, _ = om.call("__eq__", [Opaque("other")])
    except AnalysisError as e:
        # == does not have the shape key(self) == key(other) with an opaque other: the analysis on
        # two constructed objects (below) and the foreign / reflexive cases decide
        led.info(rule + ".key", "%s.__eq__" % om.clsname, om.module.where(cls.methods["__eq__"].node), "== is not of the shape key(self) == key(other) (%s): decided on pairs of objects" % e.message)
        ev_ = None
    if ev_ is None:
        _eq_foreign_reflexive(ctx, led, om, cls, v, rule, key, where)
        check_eq_pairs(ctx, led, v, rule + ".pair")
        return
    ok = False
    detail = _brief(ev_)
    # expected: isinstance(other, OwnClass) and clean_vector() == other.clean_vector()
    conj = []
    if isinstance(ev_, T.BoolOp) and ev_.op == "and":
        conj = list(ev_.args)
    elif isinstance(ev_, App) and ev_.op == "ite":
        c, a, b = ev_.args
        cc = c.args[0] if isinstance(c, App) and c.op == "truth" else c
        if isinstance(b, Const) and b.v is False:
            conj = [c, a]
        elif isinstance(b, Term) and isinstance(cc, Term) and (b == cc or b == c):
            # `cond and key_equal` as one expression: the falsy condition itself is the result
            conj = [c, a]
        elif isinstance(a, Const) and a.v is False:
            conj = [T.BoolOp("not", (c,)), b]
    inst_ok = eq_ok = False
    for c in conj:
        x = c
        if isinstance(x, App) and x.op == "truth":
            x = x.args[0]
        if isinstance(x, App) and x.op == "isinstance":
            inst_ok = isinstance(x.args[0], Opaque) and x.args[0].tag == "other" and ("." + om.clsname + ">") in x.args[1].tag
        if isinstance(x, App) and x.op in ("streq", "eq"):
            sides = list(x.args)
            mine = [s for s in sides if not isinstance(s, Opaque)]
            theirs = [s for s in sides if isinstance(s, Opaque)]
            if len(mine) == 1 and len(theirs) == 1:
                eq_ok = Canon(om.ev, st2)(mine[0]) == key and theirs[0].tag == "meth:clean_vector()"
    led.check(
        inst_ok,
        rule + ".isinstance",
        "%s.__eq__" % om.clsname,
        om.module.where(cls.methods["__eq__"].node),
        "== must first require isinstance(other, %s): otherwise an object can equal a value of another type/version; found %s"
        % (om.clsname, detail),
    )
    if not eq_ok and inst_ok:
        # not the canonical idiom: decide semantically whether the compared key is equivalent to
        # "same version and same defined metric values"
        eq_ok, why = semantic_key_ok(ctx, om, v, conj, st2, hv, st1)
        detail = why or detail
    led.check(
        eq_ok,
        rule + ".key",
        "%s.__eq__" % om.clsname,
        om.module.where(cls.methods["__eq__"].node),
        "== must hold exactly for objects of the same version that define the same metric values (and agree with hash): %s" % detail,
    )
    _eq_foreign_reflexive(ctx, led, om, cls, v, rule, key, where)


def _eq_foreign_reflexive(ctx, led, om, cls, v, rule, key, where):
    for other, label in ((Const(None), "None"), (Const("text"), "str")):
        r, _, _ = om.call("__eq__", [other])
        led.check(
            isinstance(r, Const) and r.v is False,
            rule + ".foreign",
            "%s.__eq__(%s)" % (om.clsname, label),
            om.module.where(cls.methods["__eq__"].node),
            "comparison with a %s must be False; found %s" % (label, _brief(r)),
        )
    try:
        r, _, _ = om.call("__eq__", [om.self_ref])
    except AnalysisError as e:
        led.info(rule + ".reflexive", "%s.__eq__(self)" % om.clsname, om.module.where(cls.methods["__eq__"].node), "x == x not interpreted in general (%s): see the pair analysis" % e.message)
        return
    led.check(
        isinstance(r, Const) and r.v is True,
        rule + ".reflexive",
        "%s.__eq__(self)" % om.clsname,
        om.module.where(cls.methods["__eq__"].node),
        "x == x must be True; found %s" % _brief(r),
    )
    # the key discriminates the version
    if v == 3:
        deps = set()
        from .interp_expr import deps_of

        deps = deps_of(key)
        led.check("minor" in deps, rule + ".version", "CVSS3 key includes minor version", where, "3.0 and 3.1 objects with the same metrics compare equal")
    # == itself, on two objects that differ in one metric
    check_eq_pairs(ctx, led, v, rule + ".pair")


def flatten_conj(t):
    if isinstance(t, T.BoolOp) and t.op == "and":
        out = []
        for a in t.args:
            out.extend(flatten_conj(a))
        return out
    if isinstance(t, App) and t.op == "ite":
        c, a, b = t.args
        if isinstance(b, Const) and b.v is False:
            return flatten_conj(c) + flatten_conj(a)
    if isinstance(t, App) and t.op == "truth":
        return flatten_conj(t.args[0])
    return [t]


def distinguishes(om, st, t, slot, c1, c2):
    """Does term t take different values for slot=c1 and slot=c2 whatever the other metrics are?"""
    from .rules_flow import pinned_canon

    a = pinned_canon(om, st, {slot: (c1,)}, [t])
    b = pinned_canon(om, st, {slot: (c2,)}, [t])
    if a is None or b is None:
        return False
    return _differ_everywhere(om, st, a[0], b[0])


def _differ_everywhere(om, st, a, b):
    if isinstance(a, (Const, Fin)) and isinstance(b, (Const, Fin)):
        fo = st.folder()
        r = fo.fold(lambda x, y: x != y, [a, b])
        return isinstance(r, Const) and r.v is True
    da, db = decompose_vector(a), decompose_vector(b)
    if da is not None and db is not None and len(da[2]) == len(db[2]):
        # one differing field suffices when every other field is identical
        diff = 0
        for (g1, v1), (g2, v2) in zip(da[2], db[2]):
            same = g1 == g2 and (v1 == v2 or (isinstance(g1, Const) and g1.v is False))
            if same:
                continue
            both_on = isinstance(g1, Const) and isinstance(g2, Const) and g1.v is True and g2.v is True
            one_off = isinstance(g1, Const) and isinstance(g2, Const) and g1.v != g2.v
            if one_off or (both_on and _differ_everywhere(om, st, v1, v2)):
                diff += 1
            else:
                return False
        if diff == 0 and da[0] is not None and db[0] is not None and da[1] == db[1]:
            # identical fields behind prefixes that differ (3.0 / 3.1)
            return _differ_everywhere(om, st, da[0], db[0])
        return diff >= 1
    if isinstance(a, App) and isinstance(b, App) and a.op == b.op == "cat" and len(a.args) == len(b.args):
        return any(_differ_everywhere(om, st, x, y) for x, y in zip(a.args, b.args) if not (isinstance(x, Term) and isinstance(y, Term) and x == y))
    return False


def semantic_hash_ok(ctx, om, v, hterm, st):
    from .interp_expr import deps_of
    from .rules_flow import pinned_canon

    spec = ctx.vspec(v)
    nd = spec["nd"]
    terms = list(hterm.args) if isinstance(hterm, App) and hterm.op == "tuple" else [hterm]
    d = set()
    for t in terms:
        d |= deps_of(t)
    extra = sorted(x for x in d if not (x.startswith("m:") or x == "minor"))
    if extra:
        return False, "the hash depends on %s" % extra
    for k in om.accepted:
        s_ = metric_slot(k)
        dom = st.folder().domain(s_)
        if ABSENT in dom and nd in dom:
            a = pinned_canon(om, st, {s_: (ABSENT,)}, terms)
            b = pinned_canon(om, st, {s_: (nd,)}, terms)
            if a is None or b is None or any(x != y for x, y in zip(a, b)):
                return False, "the hash distinguishes an omitted %s from %s:%s although the objects compare equal" % (k, k, nd)
    return True, None


def semantic_key_ok(ctx, om, v, conj, st, hv, sth):
    from .interp_expr import deps_of
    from .rules_flow import pinned_canon

    spec = ctx.vspec(v)
    nd = spec["nd"]
    selfs = []
    for c in conj:
        x = c
        if isinstance(x, App) and x.op == "truth":
            x = x.args[0]
        if isinstance(x, App) and x.op == "isinstance":
            continue
        if isinstance(x, App) and x.op in ("eq", "streq") and len(x.args) == 2:
            mine = [s_ for s_ in x.args if "opaque:other" not in deps_of(s_) and not (isinstance(s_, Opaque))]
            theirs = [s_ for s_ in x.args if s_ not in mine]
            if len(mine) == 1 and len(theirs) == 1:
                selfs.append(mine[0])
                continue
        if isinstance(x, T.Cmp) and x.op == "==":
            mine_t = dict((m, c) for m, c in x.poly.terms.items() if not any("opaque:other" in deps_of(a) or (isinstance(a, Opaque)) for a, _ in m))
            theirs_t = dict((m, c) for m, c in x.poly.terms.items() if m not in mine_t)
            if mine_t and theirs_t:
                selfs.append(P(mine_t, x.poly.kind))
                continue
        raise AnalysisError("C07.eq", "== is not a conjunction of isinstance and equalities between self and other: %s" % _brief(x), om.cls.methods["__eq__"].node, om.module)
    if not selfs:
        return False, "== compares nothing"
    if v == 3 and not any("minor" in deps_of(t) for t in selfs):
        return False, "the compared key does not include the minor version: 3.0 and 3.1 objects can compare equal"
    hkey = hv.args[0] if isinstance(hv, App) and hv.op == "hash" else None
    for k in om.accepted:
        s_ = metric_slot(k)
        dom = [x for x in st.folder().domain(s_)]
        optional = ABSENT in dom
        if optional and nd in dom:
            a = pinned_canon(om, st, {s_: (ABSENT,)}, selfs)
            b = pinned_canon(om, st, {s_: (nd,)}, selfs)
            if a is None or b is None or any(x != y for x, y in zip(a, b)):
                return False, "the compared key distinguishes an omitted %s from %s:%s" % (k, k, nd)
            if hkey is not None:
                a = pinned_canon(om, sth, {s_: (ABSENT,)}, [hkey])
                b = pinned_canon(om, sth, {s_: (nd,)}, [hkey])
                if a is None or b is None or a[0] != b[0]:
                    return False, "equal objects can have different hashes: the hash distinguishes an omitted %s from %s:%s" % (k, k, nd)
        classes = [x for x in dom if x is not ABSENT and x != nd]
        if optional:
            classes = [ABSENT] + classes
        for i in range(len(classes)):
            for j in range(i + 1, len(classes)):
                if not any(distinguishes(om, st, t, s_, classes[i], classes[j]) for t in selfs):
                    c1 = "undefined" if classes[i] is ABSENT else classes[i]
                    return False, "objects that differ in %s (%s vs %s) can compare equal: no compared component separates them for every value of the other metrics" % (k, c1, classes[j])
                if hkey is not None and False:
                    pass
    # hash must be a function of what == compares: any two states with equal keys have equal hash.
    # With an injective key (shown above) and a hash invariant under absent/ND this holds iff the
    # hash depends on metric values and version only.
    if hkey is not None:
        d = set(x for x in deps_of(hkey) if not (x.startswith("m:") or x == "minor"))
        if d:
            return False, "the hash depends on %s, which == does not compare" % sorted(d)
    return True, None


def _brief(t, n=200):
    s = repr(t)
    return s if len(s) <= n else s[:n] + "..."


def check_subvectors(ctx, led, v, rule="C15.emit"):
    om = get_model(ctx, v)
    spec = ctx.vspec(v)
    nd = spec["nd"]
    modified_of = spec.get("modified_of", {})
    n = 0
    for meth, group in (("temporal_vector", "temporal"), ("environmental_vector", "environmental")):
        f = ctx.repo.method(om.modname, om.clsname, meth)
        where = om.module.where(f.node)
        try:
            val, st, evs = om.call(meth)
        except Dead:
            led.violation(rule, "%s.%s::raises" % (om.clsname, meth), where, "%s() raises" % meth)
            continue
        ck = "%s.%s" % (om.clsname, meth)
        if isinstance(val, App) and val.op == "ite":
            # several return paths: every arm must be the faithful sub-vector under its own condition
            arms = []

            def split(t, conds):
                if isinstance(t, App) and t.op == "ite":
                    split(t.args[1], conds + [t.args[0]])
                    from .interp import mk_not as _not

                    split(t.args[2], conds + [_not(t.args[0])])
                else:
                    arms.append((conds, t))

            split(val, [])
            bad_arm = None
            for conds, t in arms:
                st_a = st.copy()
                try:
                    for c in conds:
                        om.ev.assume(st_a, c)
                except Dead:
                    continue
                got_a = flatten_join(om, st_a, Canon(om.ev, st_a)(t))
                exp_fields = [expected_subvector_field(om, st_a, spec, k) for k in spec["groups"][group]]
                cn_a = Canon(om.ev, st_a)
                if got_a is None or got_a[0] != "/" or len(got_a[1]) != len(exp_fields) or any(
                    cn_a(x) != e for x, e in zip(got_a[1], exp_fields)
                ):
                    bad_arm = (conds, t)
                    break
            n += len(arms)
            led.check(
                bad_arm is None,
                rule + ".value",
                ck + " (conditional result)",
                where,
                "on some path %s() returns %s although the group's metrics can have other values on that path"
                % (meth, _brief(bad_arm[1]) if bad_arm else ""),
            )
            continue
        cn = Canon(om.ev, st)
        fo = st.folder()
        want = spec["groups"][group]
        # the evaluator joins short literal lists into a concatenation; normalise both shapes
        got = flatten_join(om, st, val)
        if got is None:
            raise AnalysisError(rule, "%s() result has an unrecognised shape: %r" % (meth, val), f.node, om.module)
        sep, fields = got
        led.check(sep == "/", rule + ".sep", ck, where, "fields must be joined by '/', found %r" % (sep,))
        keys = []
        for fld in fields:
            fld = cn(fld)
            vals = {fld.v} if isinstance(fld, Const) else set(fld.table.values()) if isinstance(fld, Fin) else None
            if vals is None:
                led.violation(rule, ck + "::field", where, "field is not a function of metric values: %r" % (fld,))
                continue
            ks = set(str(x).split(":")[0] for x in vals)
            if len(ks) != 1:
                led.violation(rule, ck + "::field", where, "field mixes metrics %s" % sorted(ks))
                continue
            k = ks.pop()
            keys.append(k)
            if k not in om.accepted:
                led.violation(rule, ck + "[%s]" % k, where, "lists %s, not a metric" % k)
                continue
            n += 1
            s = metric_slot(k)
            if k in modified_of:
                b = modified_of[k]
                sb_ = metric_slot(b)
                sl, rows = fo.rows(tuple(sorted([s, sb_])))
                tab = {}
                for r in rows:
                    vk, vb = r[sl.index(s)], r[sl.index(sb_)]
                    tab[r] = "%s:%s" % (k, vb if vk in (ABSENT, nd) else vk)
                exp = fo.simplify(Fin(sl, tab))
                msg = "the given value, or the base metric %s's value when omitted/%s" % (b, nd)
            else:
                exp = fo.simplify(Fin((s,), dict(((x,), "%s:%s" % (k, nd if x is ABSENT else x)) for x in fo.domain(s))))
                msg = "the given value, or %s when omitted" % nd
            led.check(
                fld == exp,
                rule + ".value",
                ck + "[%s]" % k,
                where,
                "%s must show %s; found %s" % (k, msg, fld.describe(8) if isinstance(fld, Fin) else fld),
            )
        led.check(
            keys == list(want),
            rule + ".order",
            ck,
            where,
            "%s() must list %s in specification order; found %s" % (meth, want, keys),
            expected=want,
            found=keys,
        )
        for e in evs:
            if e.kind == "input_order_iter":
                from .rules_flow import order_matters

                if not order_matters(ctx, v, meth)[0]:
                    continue
                led.violation(rule + ".order", ck + "::iteration", e.where(), "iterates the parsed map: order follows the input")
    return n


def expected_subvector_field(om, st, spec, k):
    nd = spec["nd"]
    modified_of = spec.get("modified_of", {})
    fo = st.folder()
    s = metric_slot(k)
    if k in modified_of:
        b = modified_of[k]
        sb_ = metric_slot(b)
        sl, rows = fo.rows(tuple(sorted([s, sb_])))
        tab = {}
        for r in rows:
            vk, vb = r[sl.index(s)], r[sl.index(sb_)]
            tab[r] = "%s:%s" % (k, vb if vk in (ABSENT, nd) else vk)
        return fo.simplify(Fin(sl, tab))
    return fo.simplify(Fin((s,), dict(((x,), "%s:%s" % (k, nd if x is ABSENT else x)) for x in fo.domain(s))))


def flatten_join(om, st, val):
    """Normalise join(sep, items) / cat(field, sep, field, ...) into (sep, [field terms])."""
    if isinstance(val, App) and val.op == "join":
        sep = val.args[0]
        items = []
        for it in val.args[1:]:
            if not (isinstance(it, App) and it.op == "item" and isinstance(it.args[0], Const) and it.args[0].v):
                return None
            items.append(it.args[1])
        return (sep.v if isinstance(sep, Const) else None), items
    parts = list(val.args) if isinstance(val, App) and val.op == "cat" else [val]
    # pieces are tables of the form "K:v" possibly already merged with separators: split on '/'
    fields = []
    fo = st.folder()
    for p in parts:
        vals = {p.v} if isinstance(p, Const) else set(p.table.values()) if isinstance(p, Fin) else None
        if vals is None:
            return None
        counts = set(str(x).count("/") for x in vals)
        if len(counts) != 1:
            return None
        n = counts.pop()
        for i in range(n + 1):
            piece = fo.fold(lambda s_, i=i: s_.split("/")[i], [p]) if isinstance(p, Fin) else Const(p.v.split("/")[i])
            fields.append(piece)
    # adjacent fragments that belong to one field ("E:" + "X") cannot occur: each fragment holds whole fields
    merged = []
    for fpiece in fields:
        if isinstance(fpiece, Const) and fpiece.v == "":
            continue
        merged.append(fpiece)
    return "/", merged


def check_rh_emit(ctx, led, v, rule="C12.emit"):
    """rh_vector() = str(float base score) + '/' + clean_vector()."""
    om = get_model(ctx, v)
    f = ctx.repo.method(om.modname, om.clsname, "rh_vector")
    where = om.module.where(f.node)
    val, st, evs = om.call("rh_vector")
    cv, st2, _ = om.call("clean_vector")
    sc, st3, _ = om.call("scores")
    cn = Canon(om.ev, st)
    ok = False
    what = _brief(val)
    if isinstance(val, App) and val.op == "cat" and len(val.args) >= 3:
        head = val.args[0]
        rest = list(val.args[1:])
        # rest = "/" + clean_vector pieces (a leading constant may have been merged with the prefix)
        exp_rest = om.ev.cat(st, [Const("/"), cv])
        got_rest = om.ev.cat(st, rest)
        score0 = sc.items[0] if isinstance(sc, TupleVal) else None
        if v == 4:
            score0 = om.attr("base_score")
        head_ok = isinstance(head, App) and head.op == "str" and score0 is not None and cn(head.args[0]) == cn(
            score0 if isinstance(score0, P) else om.ev.to_poly(st, score0, None)
        )
        if not head_ok and isinstance(head, App) and head.op == "str" and score0 is not None:
            # str() of the Decimal base score itself prints the same text as str(float(...)) when the
            # Decimal is quantised to one decimal (C09.quantised): "7.5", "10.0", "0.0"
            from .rules_sev import prints_one_decimal

            s0 = cn(score0 if isinstance(score0, P) else om.ev.to_poly(st, score0, None))
            inner = None
            if isinstance(s0, P) and len(s0.terms) == 1:
                (mono, coef), = s0.terms.items()
                if coef == 1 and len(mono) == 1 and mono[0][1] == 1 and isinstance(mono[0][0], App) and mono[0][0].op == "float":
                    inner = mono[0][0].args[0]
            got = cn(head.args[0]) if isinstance(head.args[0], Term) else None
            if inner is not None and got is not None and cn(inner) == got and prints_one_decimal(head.args[0]):  # on the value graph as built: spellings of literals are still attached
                head_ok = True
        ok = head_ok and cn(got_rest) == cn(exp_rest)
        if not head_ok:
            what = "score part is %s" % _brief(head)
    led.check(
        ok,
        rule,
        "%s.rh_vector" % om.clsname,
        where,
        "rh_vector() must be str(scores()[0]) + '/' + clean_vector() with default arguments; found %s" % what,
    )


def check_eq_ordered_maps(ctx, led, v, rule):
    """An == that compares two OrderedDicts whose order is the order in which the fields were
    written is order-sensitive (OrderedDict.__eq__ compares in order): two objects that differ in
    the order of their fields only compare unequal.  The pair analysis cannot see it (both objects
    of a pair are built in one field order), the interpreter records the comparison."""
    om = get_model(ctx, v)
    seen = set()
    for e in om.ev.events:
        if e.kind != "ordered_map_eq":
            continue
        ck = "%s::%s" % (e.func.qualname if e.func else "?", short(e.node))
        if ck in seen:
            continue
        seen.add(ck)
        led.violation(
            rule + ".order",
            ck,
            e.where(),
            "%s: OrderedDict equality also compares the order of the entries, so objects that define the same metric values in "
            "another field order compare unequal" % e.data.get("what"),
        )


def check_eq_pairs(ctx, led, v, rule="C07.eq.pair"):
    try:
        _check_eq_pairs(ctx, led, v, rule)
    finally:
        check_eq_ordered_maps(ctx, led, v, rule[: -len(".pair")] if rule.endswith(".pair") else rule)


def _check_eq_pairs(ctx, led, v, rule="C07.eq.pair"):
    """== on two objects that differ in one metric only.  A second object is constructed in the
    same abstract state with metric k a fresh symbol (everything else shared); `x == y` is
    interpreted and must be, as a table over the two values of k, exactly "both give k the same
    defined value (absent and Not Defined alike count as none)".  Decides implementations of ==
    that do not have the shape `key(self) == key(other)` (pairwise zip over generated fields, early
    exits); versions 2 and 3 (the v4 scoring summaries are keyed on the first object's slots)."""
    from .interp import Dead
    from .objmodel import metric_slot
    from .terms import ABSENT, Fin

    if v == 4:
        return 0
    om = get_model(ctx, v)
    cls = om.cls
    if "__eq__" not in cls.methods:
        return 0
    f = cls.methods["__eq__"]
    where = om.module.where(f.node)
    spec = ctx.vspec(v)
    nd = spec["nd"]
    n = 0
    bad = None
    undecided = None
    optional = [x for x in om.accepted if x not in spec["mandatory"]]
    work = [(k, None, "") for k in om.accepted]
    general = True
    i_ = 0
    while i_ < len(work):
        k, pins, label = work[i_]
        i_ += 1
        second = om.second_instance(k, pins)
        if second is None:
            continue
        st, ref = second
        om.ev.join_eq = True
        try:
            r = om.ev.run_method(st, om.self_ref, f, [ref])
        except Dead:
            bad = bad or (k, "x == y raises for objects that differ in %s only" % k)
            continue
        except AnalysisError as e:
            if general:
                # == walks the two objects element by element: too many optional fields to align in
                # general.  Decide it with the other optional metrics all omitted, and all defined.
                general = False
                del work[:]
                i_ = 0
                for k2 in om.accepted:
                    for lab, pick in (("others omitted", lambda dom: (ABSENT,)), ("others defined", lambda dom: tuple([x for x in dom if x is not ABSENT and x != nd][:1]))):
                        pins2 = dict((metric_slot(o_), pick(om.space.dom[metric_slot(o_)])) for o_ in optional if o_ != k2)
                        work.append((k2, pins2, lab))
                continue
            undecided = undecided or "== could not be interpreted on two objects (%s)" % e.message
            break
        finally:
            om.ev.join_eq = False
        s1, s2 = metric_slot(k), "o:" + k
        fo = st.folder()
        t = om.ev.truth(st, r, None) if not isinstance(r, (Const, Fin)) else r
        if isinstance(t, T.BoolOp):
            t = om.ev.try_fold_bool(st, t)
        if isinstance(t, Fin):
            t = fo.restrict(t)
        if isinstance(t, Const):
            table = None
            const = bool(t.v)
        elif isinstance(t, Fin) and set(t.slots) <= {s1, s2}:
            table, const = t, None
        else:
            undecided = undecided or "x == y for objects that differ in %s depends on more than the two values of %s: %s" % (k, k, _brief(t))
            continue

        def dv(x):
            return None if (x is ABSENT or x == nd) else x

        for a in fo.domain(s1):
            for b in fo.domain(s2):
                n += 1
                want = dv(a) == dv(b)
                if table is None:
                    got = const
                else:
                    key = tuple(a if s_ == s1 else b for s_ in table.slots)
                    if key not in table.table:
                        continue
                    got = bool(table.table[key])
                if got != want and bad is None:
                    sa_ = "no %s" % k if a is ABSENT else "%s:%s" % (k, a)
                    sb_ = "no %s" % k if b is ABSENT else "%s:%s" % (k, b)
                    bad = (k, "two objects that agree on every other metric, one with %s and one with %s, compare %s" % (sa_, sb_, "equal" if got else "unequal"))
    if bad:
        led.violation(rule, "%s.__eq__ [%s]" % (om.clsname, bad[0]), where, "== must hold exactly for objects that define the same metric values: %s" % bad[1])
    elif undecided:
        led.undecided(rule, undecided)
    else:
        led.ok(rule, "%s.__eq__" % om.clsname, where, "%d value pairs over %d metrics: equal exactly when both objects give the metric the same defined value" % (n, len(om.accepted)))
    return n
