"""E10 — obligations ledger, evidence, VIOLATION / KNOWN-FINDING / ANALYSIS-ERROR lines."""

from __future__ import annotations

import json
import os
import re
import sys
import time

VERIF = os.path.dirname(os.path.dirname(os.path.abspath(__file__)))
EVIDENCE_DIR = os.environ.get("VERIF_EVIDENCE_DIR", os.path.join(VERIF, "evidence"))
KNOWN_FILE = os.path.join(VERIF, "known_findings.json")


def load_known():
    if not os.path.exists(KNOWN_FILE):
        return []
    with open(KNOWN_FILE) as f:
        return json.load(f).get("findings", [])


def slug(s):
    return re.sub(r"[^A-Za-z0-9_.-]+", "_", s)[:60]


class Obligation(object):
    __slots__ = ("rule", "construct", "where", "status", "detail")

    def __init__(self, rule, construct, where, status, detail):
        self.rule = rule
        self.construct = construct
        self.where = where
        self.status = status  # ok | violation | known | undecided | info
        self.detail = detail

    def as_dict(self):
        d = {"rule": self.rule, "construct": self.construct, "where": self.where, "verdict": self.status}
        if self.detail:
            d["detail"] = self.detail
        return d


class Ledger(object):
    def __init__(self, prop, tier, level, seed=0, quiet=False):
        self.prop = prop
        self.tier = tier
        self.level = level
        self.seed = seed
        self.quiet = quiet
        self.t0 = time.time()
        self.obs = []
        self.violations = []
        self.known_hits = []
        self.undecided_list = []
        self.notes = []
        self.analysed = {}
        self.assumptions = []
        self.trusted = []
        self.explanation = ""
        self.known = [k for k in load_known() if k.get("property") == prop]
        self.extra = {}
        self.rules_seen = {}
        self.floor_failures = []
        self.analysis_notes = []

    # ------------------------------------------------------------------
    def ok(self, rule, construct, where="", detail=None):
        self.obs.append(Obligation(rule, construct, where, "ok", detail))
        self.rules_seen[rule] = self.rules_seen.get(rule, 0) + 1

    def info(self, rule, construct, where="", detail=None):
        self.obs.append(Obligation(rule, construct, where, "info", detail))

    def undecided(self, rule, what, where=""):
        self.obs.append(Obligation(rule, what, where, "undecided", None))
        self.undecided_list.append({"rule": rule, "what": what, "where": where})

    def violation(self, rule, construct_key, where, what, expected=None, found=None):
        """A positively established offending construct.

        construct_key identifies the construct independent of line numbers (function +
        normalised statement); it is what known_findings.json is matched on."""
        self.rules_seen[rule] = self.rules_seen.get(rule, 0) + 1
        for k in self.known:
            if k.get("rule") == rule and k.get("construct_key") == construct_key and k.get("status") == "known":
                self.obs.append(Obligation(rule, construct_key, where, "known", what))
                self.known_hits.append({"rule": rule, "construct_key": construct_key, "where": where, "what": what})
                return
        self.obs.append(Obligation(rule, construct_key, where, "violation", what))
        self.violations.append(
            {
                "rule": rule,
                "construct_key": construct_key,
                "where": where,
                "what": what,
                "expected": expected,
                "found": found,
            }
        )

    def check(self, cond, rule, construct_key, where, what, expected=None, found=None, detail=None):
        if cond:
            self.ok(rule, construct_key, where, detail)
        else:
            self.violation(rule, construct_key, where, what, expected, found)
        return cond

    def count(self, key, n=1):
        self.analysed[key] = self.analysed.get(key, 0) + n

    def require_min(self, rule, found, floor, what):
        """Anti-vacuity: fewer instances than confirmed by hand means the analysis is broken."""
        from .srcmodel import AnalysisError

        self.extra.setdefault("instance_floors", {})[rule] = {"found": found, "floor": floor, "what": what}
        if found < floor:
            self.floor_failures.append("%s: only %d %s found, expected at least %d (vacuous rule)" % (rule, found, what, floor))

    # ------------------------------------------------------------------
    def finish(self, digest=None):
        wall = time.time() - self.t0
        os.makedirs(EVIDENCE_DIR, exist_ok=True)
        replay_paths = []
        if self.violations:
            rdir = os.path.join(EVIDENCE_DIR, "replay")
            os.makedirs(rdir, exist_ok=True)
            for i, v in enumerate(self.violations):
                p = os.path.join(rdir, "%s-%s-%d.json" % (self.prop, slug(v["rule"]), i))
                with open(p, "w") as f:
                    json.dump(dict(v, property=self.prop), f, indent=1, default=str)
                replay_paths.append(p)
        n_ob = len([o for o in self.obs if o.status in ("ok", "violation", "known")])
        n_ok = len([o for o in self.obs if o.status == "ok"])
        distinct = len(set((o.rule, o.construct) for o in self.obs if o.status in ("ok", "violation", "known")))
        samples = []
        seen_rules = set()
        for o in self.obs:
            if o.status in ("violation", "known"):
                samples.append(o.as_dict())
        for o in self.obs:
            if o.status == "ok" and o.rule not in seen_rules:
                seen_rules.add(o.rule)
                samples.append(o.as_dict())
        samples = samples[:60]
        coverage = {
            "evaluations": max(n_ob, 1),
            "distinct_nontrivial": distinct,
            "rule": "one evaluation = one static obligation (rule instance on a resolved construct of "
            "/repo's current source); distinct = distinct (rule, construct) pairs; an obligation is "
            "non-trivial because every rule carries an instance floor confirmed by hand",
            "samples": samples,
            "obligations": n_ob,
            "discharged": n_ok,
            "checker_cmd": "./vcheck %s --tier %s" % (self.prop, self.tier),
            "trusted_base": self.trusted
            or ["CPython ast parser", "/verif/sa engines", "/verif/spec transcription of the standards"],
            "explanation": self.explanation,
            "exhaustive": True,
            "analysed": self.analysed,
            "rules": self.rules_seen,
            "undecided": self.undecided_list,
            "known_findings_matched": self.known_hits,
            "source_digest": digest,
        }
        coverage.update(self.extra)
        ev = {
            "property_id": self.prop,
            "tier": self.tier,
            "seed": self.seed,
            "level": self.level,
            "coverage": coverage,
            "assumptions": self.assumptions,
            "wall_s": round(wall, 3),
            "violations": len(self.violations),
        }
        with open(os.path.join(EVIDENCE_DIR, "%s.json" % self.prop), "w") as f:
            json.dump(ev, f, indent=1, default=str)
            f.write("\n")
        out = sys.stdout
        if not self.quiet:
            out.write(
                "%s tier=%s obligations=%d discharged=%d distinct=%d undecided=%d known=%d violations=%d wall=%.2fs\n"
                % (
                    self.prop,
                    self.tier,
                    n_ob,
                    n_ok,
                    distinct,
                    len(self.undecided_list),
                    len(self.known_hits),
                    len(self.violations),
                    wall,
                )
            )
            for r in sorted(self.rules_seen):
                out.write("  rule %-28s instances=%d\n" % (r, self.rules_seen[r]))
            for u in self.undecided_list:
                out.write("  UNDECIDED %s: %s\n" % (u["rule"], u["what"]))
        for k in self.known_hits:
            out.write(
                "KNOWN-FINDING: property=%s %s %s: %s (%s)\n"
                % (self.prop, k["rule"], k["construct_key"], k["what"], k["where"])
            )
        for v, p in zip(self.violations, replay_paths):
            out.write("  violated %s at %s [%s]: %s\n" % (v["rule"], v["where"], v["construct_key"], v["what"]))
            if v.get("expected") is not None or v.get("found") is not None:
                out.write("    expected: %s\n    found:    %s\n" % (v.get("expected"), v.get("found")))
            out.write("VIOLATION property=%s replay=%s\n" % (self.prop, p))
        for nmsg in self.analysis_notes:
            out.write("  note: analysis stopped early after the violation(s) above: %s\n" % nmsg)
        if not self.violations and self.floor_failures:
            for m in self.floor_failures:
                out.write("ANALYSIS-ERROR property=%s %s\n" % (self.prop, m))
            out.flush()
            return 2
        out.flush()
        return 1 if self.violations else 0
