"""C12.parse — structural rules on from_rh_vector (E3)."""

from __future__ import annotations

import ast

from . import guards as G
from .ctx import VERSIONS
from .rules_parse import call_of, raise_class
from .srcmodel import AnalysisError, norm_src, short


def check_from_rh(ctx, led, v, rule="C12.parse"):
    info = VERSIONS[v]
    f = ctx.repo.method(info["mod"], info["cls"], "from_rh_vector")
    module = f.module
    where = module.where(f.node)
    ck0 = "%s.from_rh_vector" % info["cls"]
    malformed = "CVSS%dRHMalformedError" % v
    mismatch = "CVSS%dRHScoreDoesNotMatch" % v
    led.check(f.is_classmethod, rule + ".classmethod", ck0, where, "from_rh_vector must be a classmethod")
    params = f.params
    if len(params) < 2:
        raise AnalysisError(rule, "from_rh_vector has no vector parameter", f.node, module)
    clsname, vec = params[0], params[1]

    def protected(node, exc_names=("ValueError",)):
        """node is inside a try whose handler for ValueError terminates by raising RHMalformed."""
        for t in G.enclosing_try_handlers(module, node):
            for h in t.handlers:
                names = G.handler_names(h, module)
                if any(n in names for n in exc_names) or names == ["*"] or "Exception" in names:
                    raises = [x for x in ast.walk(h) if isinstance(x, ast.Raise)]
                    if G.terminates(h.body) and raises and all(raise_class(ctx, module, r) == malformed for r in raises):
                        return True, None
                    return False, "the ValueError handler does not raise %s" % malformed
        return False, "not inside try/except ValueError"

    # (a) split on the first '/'
    split_assign = None
    for n in ast.walk(f.node):
        if isinstance(n, ast.Assign) and isinstance(n.targets[0], (ast.Tuple, ast.List)) and call_of(n.value, "split"):
            recv, args = call_of(n.value, "split")
            if isinstance(recv, ast.Name) and recv.id == vec:
                split_assign = n
    if split_assign is None:
        led.violation(rule + ".split", ck0 + "::split", where, "the score and vector parts are not obtained by a two-target unpack of %s.split('/', 1)" % vec)
        return
    recv, args = call_of(split_assign.value, "split")
    ck = ck0 + "::" + short(split_assign)
    two = len(split_assign.targets[0].elts) == 2 and all(isinstance(e, ast.Name) for e in split_assign.targets[0].elts)
    lim = (
        len(args) == 2
        and isinstance(args[0], ast.Constant)
        and args[0].value == "/"
        and isinstance(args[1], ast.Constant)
        and args[1].value == 1
    ) or (
        len(args) == 1
        and isinstance(args[0], ast.Constant)
        and args[0].value == "/"
        and any(kw.arg == "maxsplit" and isinstance(kw.value, ast.Constant) and kw.value.value == 1 for kw in split_assign.value.keywords)
    )
    led.check(
        two and lim,
        rule + ".split",
        ck,
        module.where(split_assign),
        "the string must be split on the first '/' only (split('/', 1)) into exactly (score, vector): otherwise every "
        "vector with more than one field is rejected or mis-split",
    )
    if not two:
        return
    score_name, vec_name = [e.id for e in split_assign.targets[0].elts]
    okp, why = protected(split_assign)
    led.check(okp, rule + ".split.error", ck, module.where(split_assign), "a string without '/' must raise %s: %s" % (malformed, why))
    # (b) float(score)
    fl = None
    for n in ast.walk(f.node):
        if (
            isinstance(n, ast.Call)
            and isinstance(n.func, ast.Name)
            and n.func.id == "float"
            and len(n.args) == 1
            and isinstance(n.args[0], ast.Name)
            and n.args[0].id == score_name
        ):
            fl = n
    if fl is None:
        led.violation(rule + ".number", ck0 + "::float", where, "the score part is not parsed with float(%s)" % score_name)
        return
    okp, why = protected(fl)
    led.check(okp, rule + ".number.error", ck0 + "::" + short(fl), module.where(fl), "a non-numeric score must raise %s: %s" % (malformed, why))
    fstmt = fl
    while not isinstance(fstmt, ast.stmt):
        fstmt = module.parent(fstmt)
    num_name = None
    if isinstance(fstmt, ast.Assign) and isinstance(fstmt.targets[0], ast.Name) and fstmt.value is fl:
        num_name = fstmt.targets[0].id
    # (c) constructor call on the vector part, outside any handler
    ctor = None
    for n in ast.walk(f.node):
        if isinstance(n, ast.Call) and isinstance(n.func, ast.Name) and n.func.id in (clsname, info["cls"]):
            ctor = n
    if ctor is None:
        led.violation(rule + ".ctor", ck0 + "::constructor", where, "no object is constructed from the vector part")
        return
    ck = ck0 + "::" + short(ctor)
    led.check(
        len(ctor.args) == 1 and isinstance(ctor.args[0], ast.Name) and ctor.args[0].id == vec_name and not ctor.keywords,
        rule + ".ctor",
        ck,
        module.where(ctor),
        "the object must be built from the part after the first '/' (%s), untransformed" % vec_name,
    )
    tries = [t for t in G.enclosing_try_handlers(module, ctor) if t.handlers]
    led.check(
        not tries,
        rule + ".ctor.errors",
        ck,
        module.where(ctor),
        "the constructor call is inside a try/except: an invalid vector part must raise the ordinary vector errors unchanged",
    )
    cstmt = ctor
    while not isinstance(cstmt, ast.stmt):
        cstmt = module.parent(cstmt)
    # format errors take precedence: both format checks complete before the vector is parsed
    def top_index(node):
        for i, st_ in enumerate(f.node.body):
            if st_ is node or any(x is node for x in ast.walk(st_)):
                return i
        return -1

    led.check(
        top_index(split_assign) < top_index(ctor) and top_index(fl) < top_index(ctor),
        rule + ".order",
        ck + " after the format checks",
        module.where(ctor),
        "the vector part is parsed before the score part has been checked: a string with a non-numeric score and an invalid "
        "vector raises the vector error instead of %s" % malformed,
    )
    obj_name = cstmt.targets[0].id if isinstance(cstmt, ast.Assign) and isinstance(cstmt.targets[0], ast.Name) else None
    # (d) exact comparison of scores()[0] with the parsed number
    def is_score0(e):
        return (
            isinstance(e, ast.Subscript)
            and isinstance(e.slice, ast.Constant)
            and e.slice.value == 0
            and call_of(e.value, "scores")
            and isinstance(call_of(e.value, "scores")[0], ast.Name)
            and call_of(e.value, "scores")[0].id == obj_name
            and not e.value.args
        ) or (
            v == 4
            and isinstance(e, ast.Attribute)
            and e.attr == "base_score"
            and isinstance(e.value, ast.Name)
            and e.value.id == obj_name
        )

    def is_num(e):
        return (isinstance(e, ast.Name) and e.id == num_name) or (
            isinstance(e, ast.Call) and isinstance(e.func, ast.Name) and e.func.id == "float" and e.args and isinstance(e.args[0], ast.Name) and e.args[0].id == score_name
        )

    test_if = None
    for n in ast.walk(f.node):
        if isinstance(n, ast.If):
            t = n.test
            if isinstance(t, ast.Compare) and len(t.ops) == 1:
                a, b = t.left, t.comparators[0]
                if (is_score0(a) and is_num(b)) or (is_score0(b) and is_num(a)):
                    test_if = n
    if test_if is None:
        ifs = [n for n in ast.walk(f.node) if isinstance(n, ast.If)]
        led.violation(
            rule + ".compare",
            ck0 + "::" + (short(ifs[-1].test) if ifs else "comparison"),
            module.where(ifs[-1]) if ifs else where,
            "acceptance must test scores()[0] of the constructed object == the parsed number (no tolerance, no rounding, "
            "index 0); found %s" % (short(ifs[-1].test) if ifs else "no test"),
        )
        return
    op = test_if.test.ops[0]
    ck = ck0 + "::" + short(test_if.test)
    pos_body, neg_body = test_if.body, test_if.orelse
    if isinstance(op, ast.NotEq):
        pos_body, neg_body = neg_body, pos_body
    led.check(isinstance(op, (ast.Eq, ast.NotEq)), rule + ".compare", ck, module.where(test_if), "the comparison must be exact equality, found %s" % type(op).__name__)
    rets = [x for b in pos_body for x in ast.walk(b) if isinstance(x, ast.Return)]
    led.check(
        bool(rets) and all(isinstance(r.value, ast.Name) and r.value.id == obj_name for r in rets) and G.terminates(pos_body),
        rule + ".accept",
        ck,
        module.where(test_if),
        "when the scores match the constructed object must be returned",
    )
    # the mismatch arm: either the else body or the statements after the if
    if not neg_body:
        parent = module.parent(test_if)
        body = getattr(parent, "body", [])
        idx = body.index(test_if) if test_if in body else -1
        neg_body = body[idx + 1 :] if idx >= 0 else []
    raises = [x for b in neg_body for x in ast.walk(b) if isinstance(x, ast.Raise)]
    led.check(
        G.terminates(neg_body) and raises and all(raise_class(ctx, module, r) == mismatch for r in raises),
        rule + ".mismatch",
        ck,
        module.where(test_if),
        "a differing score must raise %s" % mismatch,
    )
    # every return returns the constructed object
    for r in [x for x in ast.walk(f.node) if isinstance(x, ast.Return)]:
        led.check(
            isinstance(r.value, ast.Name) and r.value.id == obj_name,
            rule + ".return",
            ck0 + "::" + short(r),
            module.where(r),
            "from_rh_vector must return the object it constructed",
        )
    # raw components: names bound once
    for nm in (score_name, vec_name, num_name, obj_name):
        if nm is None:
            continue
        cnt = len([x for x in ast.walk(f.node) if isinstance(x, ast.Name) and x.id == nm and isinstance(x.ctx, ast.Store)])
        led.check(cnt == 1, rule + ".raw", ck0 + "::" + nm, where, "name %r is re-bound: the tested value is not the parsed component" % nm)
