"""E8 — abstract numeric domains on value graphs: interval / multilinear-vertex bounds, decimal
digit bounds (exactness of Decimal operations at a given precision), sign of dependence."""

from __future__ import annotations

import itertools
from fractions import Fraction

from . import terms as T
from .consteval import NAN, is_num, qof
from .terms import App, BoolOp, Cmp, Const, Fin, Opaque, P, Term

MAX_VERTEX_ATOMS = 14


def q_round(q, exp, mode):
    """Apply quantize(exp, mode) to a rational (monotone)."""
    exp = Fraction(exp)
    x = q / exp
    fl = x.numerator // x.denominator
    frac = x - fl
    if mode.endswith("ROUND_CEILING"):
        n = fl if frac == 0 else fl + 1
    elif mode.endswith("ROUND_FLOOR"):
        n = fl
    elif mode.endswith("ROUND_HALF_UP"):
        # half away from zero
        if x >= 0:
            n = fl + (1 if frac >= Fraction(1, 2) else 0)
        else:
            n = fl + (1 if frac > Fraction(1, 2) else 0)
    elif mode.endswith("ROUND_HALF_EVEN"):
        if frac > Fraction(1, 2) or (frac == Fraction(1, 2) and fl % 2 == 1):
            n = fl + 1
        else:
            n = fl
    elif mode.endswith("ROUND_DOWN"):
        n = fl if x >= 0 or frac == 0 else fl + 1
    elif mode.endswith("ROUND_UP"):
        n = (fl + 1 if frac != 0 else fl) if x >= 0 else fl
    else:
        return None
    return n * exp


class Bounds(object):
    def __init__(self, ev, st):
        self.ev = ev
        self.st = st
        self.memo = {}

    def fin_range(self, f):
        r = self.st.folder().restrict(f)
        vals = [r.v] if isinstance(r, Const) else list(r.table.values())
        qs = []
        for v in vals:
            if v is NAN or not is_num(v):
                return None
            qs.append(qof(v))
        if not qs:
            return None
        return (min(qs), max(qs))

    def atom(self, a, facts=()):
        k = (a.sortkey(), tuple(f.sortkey() for f in facts))
        if k in self.memo:
            return self.memo[k]
        r = self._atom(a, facts)
        self.memo[k] = r
        return r

    def _atom(self, a, facts):
        if isinstance(a, Fin):
            return self.fin_range(a)
        if isinstance(a, Opaque) and a.tag in getattr(self.ev, "opaque_bounds", {}):
            return self.ev.opaque_bounds[a.tag]
        if isinstance(a, Const):
            if is_num(a.v):
                return (qof(a.v), qof(a.v))
            return None
        if isinstance(a, App):
            op = a.op
            if op in ("min", "max"):
                bs = [self.term(x, facts) for x in a.args]
                if any(b is None for b in bs):
                    # min(x, c) is still bounded above by c
                    known = [b for b in bs if b is not None]
                    if not known:
                        return None
                    if op == "min":
                        return (None, min(b[1] for b in known))
                    return (max(b[0] for b in known), None)
                los = [b[0] for b in bs]
                his = [b[1] for b in bs]
                if op == "min":
                    return (None if any(x is None for x in los) else min(los), min(x for x in his if x is not None) if any(x is not None for x in his) else None)
                return (max(x for x in los if x is not None) if any(x is not None for x in los) else None, None if any(x is None for x in his) else max(his))
            if op == "quant":
                b = self.term(a.args[0], facts)
                if b is None:
                    return None
                exp, mode = a.attrs
                lo = q_round(b[0], exp, mode) if b[0] is not None else None
                hi = q_round(b[1], exp, mode) if b[1] is not None else None
                if (b[0] is not None and lo is None) or (b[1] is not None and hi is None):
                    return None
                return (lo, hi)
            if op in ("float", "Decimal"):
                return self.term(a.args[0], facts)
            if op == "ind":
                return (Fraction(0), Fraction(1))
            if op == "ite":
                c, x, y = a.args
                bx = self.term(x, facts + (c,))
                by = self.term(y, facts + (negate(c),))
                if bx is None or by is None:
                    return None
                lo = None if bx[0] is None or by[0] is None else min(bx[0], by[0])
                hi = None if bx[1] is None or by[1] is None else max(bx[1], by[1])
                return (lo, hi)
            if op == "pow":
                b = self.term(a.args[0], facts)
                if b is None or b[0] is None or b[1] is None:
                    return None
                n = a.attrs[0]
                cands = [b[0] ** n, b[1] ** n]
                if n % 2 == 0 and b[0] < 0 < b[1]:
                    cands.append(Fraction(0))
                return (min(cands), max(cands))
            if op == "div":
                bn = self.term(a.args[0], facts)
                bd = self.term(a.args[1], facts)
                if bn is None or bd is None or None in bn or None in bd:
                    return None
                if bd[0] <= 0 <= bd[1]:
                    return None
                cands = [bn[0] / bd[0], bn[0] / bd[1], bn[1] / bd[0], bn[1] / bd[1]]
                return (min(cands), max(cands))
            if op == "abs":
                b = self.term(a.args[0], facts)
                if b is None or None in b:
                    return None
                hi = max(abs(b[0]), abs(b[1]))
                lo = Fraction(0) if b[0] <= 0 <= b[1] else min(abs(b[0]), abs(b[1]))
                return (lo, hi)
        return None

    def term(self, t, facts=()):
        """(lo, hi) with None for an unknown side, or None when nothing is known."""
        if isinstance(t, Const):
            return self.atom(t, facts)
        if isinstance(t, (Fin, App)):
            return self.atom(t, facts)
        if not isinstance(t, P):
            return None
        if t.is_const():
            c = t.const_value()
            return (c, c)
        base = self.poly(t, facts)
        # use facts of the form p > 0 / p >= 0 : q = k*p + r  ==>  q >= lower(r)
        best_lo, best_hi = (base if base is not None else (None, None))
        for f in facts:
            if isinstance(f, Cmp) and f.op in (">", ">=", "<", "<="):
                p = f.poly
                sign = 1 if f.op in (">", ">=") else -1  # sign*p >= 0
                for m, cp in p.terms.items():
                    if m == () or m not in t.terms:
                        continue
                    k = t.terms[m] / cp
                    r = T.p_add(t, P(dict((mm, k * cc) for mm, cc in p.terms.items()), t.kind), -1)
                    br = self.poly(r, ())
                    if br is None:
                        continue
                    # t = k*p + r ; sign*p >= 0
                    if k * sign > 0 and br[0] is not None:
                        best_lo = br[0] if best_lo is None else max(best_lo, br[0])
                    if k * sign < 0 and br[1] is not None:
                        best_hi = br[1] if best_hi is None else min(best_hi, br[1])
                    break
        if best_lo is None and best_hi is None:
            return None
        return (best_lo, best_hi)

    def poly(self, t, facts):
        atoms = sorted(t.atoms(), key=lambda a: a.sortkey())
        ranges = {}
        for a in atoms:
            b = self.atom(a, facts)
            if b is None or b[0] is None or b[1] is None:
                return self.poly_partial(t, atoms, facts)
            ranges[a] = b
        multilinear = all(e == 1 for m in t.terms for _, e in m)
        if multilinear and len(atoms) <= MAX_VERTEX_ATOMS:
            lo = hi = None
            idx = dict((a, i) for i, a in enumerate(atoms))
            for corner in itertools.product((0, 1), repeat=len(atoms)):
                v = Fraction(0)
                for m, c in t.terms.items():
                    x = c
                    for a, _ in m:
                        x *= ranges[a][corner[idx[a]]]
                    v += x
                lo = v if lo is None or v < lo else lo
                hi = v if hi is None or v > hi else hi
            return (lo, hi)
        lo = hi = Fraction(0)
        for m, c in t.terms.items():
            mlo, mhi = Fraction(1), Fraction(1)
            for a, e in m:
                alo, ahi = ranges[a]
                cands = [alo ** e, ahi ** e]
                if e % 2 == 0 and alo < 0 < ahi:
                    cands.append(Fraction(0))
                plo, phi = min(cands), max(cands)
                prods = [mlo * plo, mlo * phi, mhi * plo, mhi * phi]
                mlo, mhi = min(prods), max(prods)
            if c >= 0:
                lo += c * mlo
                hi += c * mhi
            else:
                lo += c * mhi
                hi += c * mlo
        return (lo, hi)

    def poly_partial(self, t, atoms, facts):
        """Some atom is only bounded on one side: single-atom polynomials c*a + d still work."""
        if len(t.terms) <= 2 and len(atoms) == 1:
            a = atoms[0]
            b = self.atom(a, facts)
            if b is None:
                return None
            c = d = Fraction(0)
            for m, cc in t.terms.items():
                if m == ():
                    d = cc
                elif len(m) == 1 and m[0][1] == 1:
                    c = cc
                else:
                    return None
            lo, hi = b
            if c >= 0:
                return (None if lo is None else c * lo + d, None if hi is None else c * hi + d)
            return (None if hi is None else c * hi + d, None if lo is None else c * lo + d)
        return None


def negate(c):
    from .interp import mk_not

    return mk_not(c)


# ---------------------------------------------------------------------------------------------
# decimal digit bounds: is every Decimal operation in a graph exact at precision `prec`?


def frac_digits(q):
    """Number of fractional decimal digits of a rational with finite decimal expansion."""
    d = q.denominator
    n = 0
    while d % 10 == 0:
        d //= 10
        n += 1
    twos = fives = 0
    while d % 2 == 0:
        d //= 2
        twos += 1
    while d % 5 == 0:
        d //= 5
        fives += 1
    if d != 1:
        return None
    return n + max(twos, fives)


class Digits(object):
    """For each sub-term: (max integer digits, max fractional digits) of any attainable value.
    Decimal +,-,* are exact when int+frac digits <= prec; quantize to 0.1 resets frac digits to 1."""

    def __init__(self, bounds):
        self.b = bounds
        self.inexact = []
        self.worst = 0
        self.memo = {}

    def int_digits(self, t, facts=()):
        r = self.b.term(t, facts)
        if r is None or r[0] is None or r[1] is None:
            return None
        m = max(abs(r[0]), abs(r[1]))
        n = 1
        while m >= 10:
            m /= 10
            n += 1
        return n

    def frac(self, t):
        k = t.sortkey()
        if k in self.memo:
            return self.memo[k]
        r = self._frac(t)
        self.memo[k] = r
        return r

    def _frac(self, t):
        if isinstance(t, Const):
            return frac_digits(qof(t.v)) if is_num(t.v) else 0
        if isinstance(t, Fin):
            r = self.b.st.folder().restrict(t)
            vals = [r.v] if isinstance(r, Const) else list(r.table.values())
            ds = []
            for v in vals:
                if not is_num(v):
                    return None
                d = frac_digits(qof(v))
                if d is None:
                    return None
                ds.append(d)
            return max(ds) if ds else 0
        if isinstance(t, App):
            if t.op == "quant":
                self.frac(t.args[0])
                d = frac_digits(Fraction(t.attrs[0]))
                return d
            if t.op in ("min", "max"):
                ds = [self.frac(a) for a in t.args]
                return None if any(d is None for d in ds) else max(ds)
            if t.op == "ite":
                ds = [self.frac(a) for a in t.args[1:]]
                if isinstance(t.args[0], Cmp):
                    self.frac(t.args[0].poly)
                return None if any(d is None for d in ds) else max(ds)
            if t.op == "ind":
                if isinstance(t.args[0], Cmp):
                    self.frac(t.args[0].poly)
                return 0
            if t.op == "pow":
                d = self.frac(t.args[0])
                n = t.attrs[0]
                total = None if d is None else d * n
                self.inexact.append(("pow", n, total))
                return None
            if t.op in ("float", "Decimal"):
                return self.frac(t.args[0])
            return None
        if isinstance(t, P):
            worst = 0
            for m, c in t.terms.items():
                d = frac_digits(c)
                if d is None:
                    return None
                for a, e in m:
                    da = self.frac(a)
                    if da is None:
                        return None
                    d += da * e
                worst = max(worst, d)
            idg = self.int_digits(t)
            if idg is not None:
                self.worst = max(self.worst, idg + worst)
            return worst
        return None
