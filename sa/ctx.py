"""Shared context for one check run."""

from __future__ import annotations

import json
import os
from fractions import Fraction

from .consteval import ConstEval
from .report import VERIF, Ledger
from .srcmodel import Repo

SPEC_DIR = os.path.join(VERIF, "spec")

VERSIONS = {
    2: {"cls": "CVSS2", "mod": "cvss2", "const": "constants2", "spec": "v2.json"},
    3: {"cls": "CVSS3", "mod": "cvss3", "const": "constants3", "spec": "v3.json"},
    4: {"cls": "CVSS4", "mod": "cvss4", "const": "constants4", "spec": "v4.json"},
}


class Ctx(object):
    def __init__(self, prop, tier, level, seed=0, root=None):
        self.repo = Repo(root)
        self.ce = ConstEval(self.repo)
        self.ledger = Ledger(prop, tier, level, seed)
        self.tier = tier
        self.prop = prop
        self._spec = {}
        self.memo = {}
        self.ce.abstract_hook = self._abstract_table

    # -- computed module-level tables ----------------------------------------------------
    def _abstract_table(self, defmod, defname, node):
        """Value of a module-level binding that is not a literal: abstract interpretation of the
        module's top-level statements (no execution), reified when every key, guard and value
        folded to a constant.  None when it did not."""
        from .consteval import Dec, Flt, ODict, TDict, TList, TTuple
        from .interp import Ref
        from .interp_stmt import Evaluator
        from .terms import Const, P, Space

        if defname is None:
            return None
        key = ("abstract_module", defmod.name)
        if key not in self.memo:
            ev = Evaluator(self, Space())
            st = ev.new_state()
            env = ev.module_env(st, defmod)
            self.memo[key] = (ev, st, env)
        ev, st, env = self.memo[key]
        v = st.heap[env.id].vars.get(defname)

        def truth(g):
            return isinstance(g, Const) and g.v is True

        def reify(x):
            if isinstance(x, Const):
                return x.v
            if isinstance(x, P) and x.is_const():
                q = x.const_value()
                if x.kind in (None, "int") and q.denominator == 1:
                    return int(q)
                if x.kind == "dec":
                    return Dec(q)
                if x.kind == "flt":
                    return Flt(q)
                raise ValueError("constant of mixed kind")
            if isinstance(x, Ref) and x.id in st.heap:
                o = st.heap[x.id]
                if o.kind == "map":
                    d = ODict() if o.ordered else TDict()
                    d.node = node
                    d.module = defmod
                    for k in o.order:
                        present, val = o.entries[k]
                        if not truth(present):
                            raise ValueError("conditional entry")
                        kk = k.v if isinstance(k, Const) else k
                        d[kk] = reify(val)
                        d.key_nodes[kk] = node
                        d.val_nodes[kk] = node
                    return d
                if o.kind == "list":
                    items = []
                    for g, val in o.items:
                        if not truth(g):
                            raise ValueError("conditional element")
                        items.append(reify(val))
                    l = TList(items)
                    l.node = node
                    l.module = defmod
                    l.elt_nodes = [node] * len(items)
                    return l
            if type(x).__name__ == "TupleVal":
                return TTuple(reify(e) for e in x.items)
            raise ValueError("not constant: %r" % (x,))

        if v is None:
            return None
        try:
            return reify(v)
        except ValueError:
            return None

    def spec(self, name):
        if name not in self._spec:
            with open(os.path.join(SPEC_DIR, name)) as f:
                self._spec[name] = json.load(f)
        return self._spec[name]

    def vspec(self, v):
        return self.spec(VERSIONS[v]["spec"])

    def legal(self, v):
        """Specification grammar: metric -> list of legal values."""
        s = self.vspec(v)
        if "legal" in s:
            return s["legal"]
        return dict((k, list(s["weights"][k].keys())) for k in s["order"])

    def schema(self, name):
        with open(os.path.join(SPEC_DIR, "schemas", name)) as f:
            return json.load(f)


def frac(s):
    return Fraction(str(s))
