"""Shared context for one check run."""

from __future__ import annotations

import json
import os
from fractions import Fraction

from .consteval import ConstEval
from .report import VERIF, Ledger
from .srcmodel import Repo

SPEC_DIR = os.path.join(VERIF, "spec")

VERSIONS = {
    2: {"cls": "CVSS2", "mod": "cvss2", "const": "constants2", "spec": "v2.json"},
    3: {"cls": "CVSS3", "mod": "cvss3", "const": "constants3", "spec": "v3.json"},
    4: {"cls": "CVSS4", "mod": "cvss4", "const": "constants4", "spec": "v4.json"},
}


class Ctx(object):
    def __init__(self, prop, tier, level, seed=0, root=None):
        self.repo = Repo(root)
        self.ce = ConstEval(self.repo)
        self.ledger = Ledger(prop, tier, level, seed)
        self.tier = tier
        self.prop = prop
        self._spec = {}
        self.memo = {}

    def spec(self, name):
        if name not in self._spec:
            with open(os.path.join(SPEC_DIR, name)) as f:
                self._spec[name] = json.load(f)
        return self._spec[name]

    def vspec(self, v):
        return self.spec(VERSIONS[v]["spec"])

    def legal(self, v):
        """Specification grammar: metric -> list of legal values."""
        s = self.vspec(v)
        if "legal" in s:
            return s["legal"]
        return dict((k, list(s["weights"][k].keys())) for k in s["order"])

    def schema(self, name):
        with open(os.path.join(SPEC_DIR, "schemas", name)) as f:
            return json.load(f)


def frac(s):
    return Fraction(str(s))
