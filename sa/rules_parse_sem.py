"""Semantic analysis of the parse phase (C04): abstract interpretation with representative inputs.

The statements of `__init__` up to and including the (transitive) call of `parse_vector` are
interpreted with the constructor argument replaced by a symbol over a finite set R of representative
whole vectors (valid ones built from the specification plus one-edit neighbours and prefix variants).
The loop over the fields — a loop over a sequence derived from the input — is summarised by ONE
symbolic iteration in which the loop variable ranges over a finite set F of representative fields
(every '/'-segment of every vector in R, plus all legal and many illegal fields), once with an empty
metric map and once with a map that already holds every metric.  The results are decision tables:

    vector level   r in R  ->  raises Class | escapes Exc | passes with fields(r), minor version
    field level    f in F, metric already present?  ->  stores (K, v) | raises Class | escapes Exc | nothing

Composed over the segments of each r and followed by the mandatory check (C04.mandatory, decided
separately), they give the class the constructor assigns to r, which is compared with the class the
specification's grammar assigns to it.  All representatives are carried at once as tables; no line of
the package is run.  The decision does not depend on the idiom the parser is written in (nested ifs,
guard clauses, helper methods, try/except as control flow, table lookups).

It is a decision on representatives, not a proof over all strings: rules_parse keeps the structural
(idiom) rules as the proof where they apply; this module arbitrates when they do not recognise the
code, so that a behaviour-preserving rewrite is not reported and a behaviour-changing one is reported
with a witness vector.
"""

from __future__ import annotations

import ast

from .ctx import VERSIONS
from .interp import Dead, Inst, MapObj, Ref
from .interp_stmt import Evaluator
from .srcmodel import AnalysisError, short
from .terms import ABSENT, FALSE, TRUE, App, Const, Fin, Opaque, Space, Term


# ---------------------------------------------------------------------------------------------
# representatives and the specification's verdict


def spec_class(ctx, v, s):
    """('valid', metrics) | ('malformed', None) | ('mandatory', None) by the grammar of version v."""
    spec = ctx.vspec(v)
    legal = ctx.legal(v)
    prefixes = spec["prefixes"]
    pre = None
    for p in prefixes:
        if p == "" or s.startswith(p):
            if pre is None or len(p) > len(pre):
                pre = p
    if pre is None:
        return "malformed", None
    body = s[len(pre) :]
    if body == "":
        return "malformed", None
    got = {}
    for f in body.split("/"):
        if f.count(":") != 1:
            return "malformed", None
        k, val = f.split(":")
        if k not in legal or val not in legal[k] or k in got:
            return "malformed", None
        got[k] = val
    if any(k not in got for k in spec["mandatory"]):
        return "mandatory", None
    return "valid", got


def representative_inputs(ctx, v):
    from .rules_accept import representative_vectors

    spec = ctx.vspec(v)
    legal = ctx.legal(v)
    valid = representative_vectors(ctx, v)
    R = []

    def add(x):
        if x not in R:
            R.append(x)

    for x in valid:
        add(x)
    bases = [valid[0], valid[1]] + valid[4:7]
    pre = spec["prefixes"][0]
    for b in bases[:4]:
        body = b[len(pre) :] if b.startswith(pre) else b
        fields = body.split("/")
        # one-edit neighbours: structure
        add(b + "/")
        add(pre + "/" + body)
        add(pre + body.replace("/", "//", 1))
        add(pre + "/".join(fields[1:]))  # drop first (mandatory) field
        add(pre + "/".join(fields[:-1]))
        add(pre + "/".join(fields + [fields[0]]))  # duplicate at the end
        add(pre + "/".join([fields[0]] + fields))  # adjacent duplicate
        add(pre + "/".join(fields[:2] + [fields[0]] + fields[2:]))  # non-adjacent duplicate
        add(pre + "/".join(reversed(fields)))
        add(pre + "/".join(fields[1:] + fields[:1]))
        add(b.lower())
        add(b.upper())
        add(" " + b)
        add(b + " ")
        add(b + "\n")
        add(pre + body.replace(":", "::", 1))
        add(pre + body.replace(":", "", 1))
        add(pre + body.replace(":", ";", 1))
        add(pre + body.replace(":", ": ", 1))
        add(pre + body.replace("/", "/ ", 1))
        add(pre + fields[0] + ":X/" + "/".join(fields[1:]))
        add(pre + fields[0].split(":")[0] + ":ZZ/" + "/".join(fields[1:]))
        add(pre + "ZZ:" + fields[0].split(":")[1] + "/" + "/".join(fields[1:]))
        add(pre + fields[0].split(":")[0] + ":/" + "/".join(fields[1:]))
        add(pre + ":" + fields[0].split(":")[1] + "/" + "/".join(fields[1:]))
        add(pre + fields[0].lower() + "/" + "/".join(fields[1:]))
        k0, v0 = fields[0].split(":")
        for kk, vv in ((k0.lower(), v0), (k0, v0.lower()), (k0.title(), v0), (k0 + " ", v0), (" " + k0, v0), (k0, " " + v0), (k0, v0 + " "), (k0, v0 + v0)):
            add(pre + kk + ":" + vv + "/" + "/".join(fields[1:]))
        last = fields[-1].split(":")
        add(pre + "/".join(fields[:-1]) + "/" + last[0].lower() + ":" + last[1])
        add(pre + "/".join(fields[:-1]) + "/" + last[0] + ":" + last[1].lower())
        add(pre + fields[0] + "/" + fields[0].split(":")[0] + ":" + [x for x in legal[fields[0].split(":")[0]] if x != fields[0].split(":")[1]][0] + "/" + "/".join(fields[1:]))
        # prefix variants
        for p2 in ("CVSS:2.0/", "CVSS:3.0/", "CVSS:3.1/", "CVSS:3.2/", "CVSS:3.10/", "CVSS:3./", "CVSS:3/", "CVSS:4.0/", "CVSS:4.1/", "CVSS:4/", "cvss:3.1/", "cvss:4.0/", "CVSS:3.1", "CVSS:4.0", "CVSS3.1/", "XCVSS:3.1/", "CVSS:3.1:", "CVSS:3.١/", "CVSS:3.1 /"):
            add(p2 + body)
        add(body)
        if pre:
            add(pre)
            add(pre[:-1])
            add(pre + pre + body)
    # cross-version fields, values legal for another metric, optional-only values on mandatory metrics
    f0 = valid[0][len(pre) :].split("/") if valid[0].startswith(pre) else valid[0].split("/")
    other = {2: ("PR:N", "S:U", "MAV:N"), 3: ("Au:N", "AT:N", "VC:H", "CDP:H"), 4: ("Au:N", "S:U", "C:H", "RL:O", "MS:C")}[v]
    for o in other:
        add(pre + "/".join(f0 + [o]))
    for k in list(legal)[:6]:
        for k2 in list(legal)[:6]:
            for val in legal[k2]:
                if val not in legal[k]:
                    add(pre + "/".join([x for x in f0 if not x.startswith(k + ":")] + ["%s:%s" % (k, val)]))
                    break
    # text that is special for str.format / %-formatting, should the input reach a template
    b0 = valid[0]
    body0 = b0[len(pre) :] if b0.startswith(pre) else b0
    for x in ("{0}", "{}", "{", "}", "{1}", "{x}", "%s", "%d", "%"):
        add(pre + body0 + "/" + x)
        add(pre + body0 + "/AV:" + x)
        add(pre + x + "/" + body0)
    # repeated Not Defined fields and a defined value after a Not Defined one
    nd = spec["nd"]
    opt = [k for k in legal if k not in spec["mandatory"] and nd in legal[k]]
    for k in opt[:3] + opt[-2:]:
        other = [x for x in legal[k] if x != nd][0]
        add(pre + body0 + "/%s:%s/%s:%s" % (k, nd, k, nd))
        add(pre + body0 + "/%s:%s/%s:%s" % (k, nd, k, other))
        add(pre + body0 + "/%s:%s/%s:%s" % (k, other, k, nd))
        add(pre + "%s:%s/" % (k, nd) + body0 + "/%s:%s" % (k, other))
    add("")
    add("/")
    add(":")
    return R


def representative_fields(ctx, v, R):
    legal = ctx.legal(v)
    F = []

    def add(x):
        if x not in F:
            F.append(x)

    for k, vals in legal.items():
        for val in vals:
            add("%s:%s" % (k, val))
    for r in R:
        for seg in r.split("/"):
            add(seg)
    for k in list(legal)[:4] + list(legal)[-3:]:
        val = legal[k][0]
        for f in (k, k + ":", ":" + val, k + ":" + val + ":" + val, k.lower() + ":" + val, k + ":" + val.lower(), " " + k + ":" + val, k + ":" + val + " ", k + " :" + val, k + ": " + val, k + ";" + val, k + ":ZZ", k + ":" + val + val, k + k + ":" + val, k + ":X", k + ":ND", "M" + k + ":" + val):
            add(f)
    for f in ("", " ", ":", "::", "ZZ:N", "ZZ", "AV", "N", "AV=N", "CVSS:3.1", "CVSS:4.0", "{0}:{1}", "AV:{0}", "%s:%s"):
        add(f)
    return F


# ---------------------------------------------------------------------------------------------
# interpretation


OTHER_VALUE = "\x00earlier"  # stands for "a value given earlier that differs from the current one"


class ParseSemantics(object):
    def __init__(self, ctx, v):
        self.ctx = ctx
        self.v = v
        info = VERSIONS[v]
        self.modname, self.clsname = info["mod"], info["cls"]
        self.cls = ctx.repo.cls(self.modname, self.clsname)
        self.module = self.cls.module
        self.R = representative_inputs(ctx, v)
        self.F = representative_fields(ctx, v, self.R)
        self.legal = ctx.legal(v)
        self.runs = {}
        for prior in ("empty", "full"):
            self.runs[prior] = self.run(prior)
        self.vector_table = self.extract_vector_level(self.runs["empty"])
        self.field_table = {"empty": self.extract_field_level(self.runs["empty"]), "full": self.extract_field_level(self.runs["full"])}

    def ensure_run(self, prior):
        if prior not in self.runs:
            self.runs[prior] = self.run(prior)
            self.field_table[prior] = self.extract_field_level(self.runs[prior])

    # -- one interpretation ------------------------------------------------------------------
    def parse_prefix_of_init(self):
        """Statements of __init__ up to and including the one that reaches parse_vector (or, if
        there is no such method any more, the first loop over the input)."""
        init = self.cls.methods.get("__init__")
        if init is None:
            raise AnalysisError("C04.semantic", "%s has no __init__" % self.clsname, self.cls.node, self.module)
        body = list(init.node.body)
        last = None
        for i, st in enumerate(body):
            for n in ast.walk(st):
                if isinstance(n, ast.Call) and isinstance(n.func, ast.Attribute) and n.func.attr == "parse_vector":
                    last = i
        if last is None:
            raise AnalysisError("C04.semantic", "__init__ does not call parse_vector", init.node, self.module)
        return init, body[: last + 1]

    def run(self, prior):
        ctx = self.ctx
        space = Space()
        ev = Evaluator(ctx, space)
        ev.regex_on_tables = True  # a regex applied to the representative strings is evaluated row by row
        space.add("vec", tuple(self.R))
        space.add("field", tuple(self.F))
        st = ev.new_state()
        init, stmts = self.parse_prefix_of_init()
        inst_ref = ev.alloc(st, Inst(self.cls))
        from .interp import EnvObj

        env = ev.alloc(st, EnvObj(None, self.module, init))
        params = init.params
        if len(params) < 2:
            raise AnalysisError("C04.semantic", "__init__ takes no vector argument", init.node, self.module)
        st.heap[env.id].vars[params[0]] = inst_ref
        st.heap[env.id].vars[params[1]] = Fin(("vec",), dict(((r,), r) for r in self.R))
        for extra in params[2:]:
            raise AnalysisError("C04.semantic", "__init__ takes further arguments", init.node, self.module)
        result = {"ev": ev, "st_before_loop": None, "loop": None, "iter": None, "loop_events": None, "after": None, "before_map": None, "inst": inst_ref}
        legal = self.legal

        def hook(s, st_, env_, module_, it):
            if result["loop"] is not None:
                raise AnalysisError("C04.semantic", "a second loop over an input-derived sequence", s, module_)
            result["loop"] = s
            result["iter"] = it
            result["st_before_loop"] = st_.copy()
            result["n_events_before"] = len(ev.events)
            # prior content of the metric map
            inst = st_.heap[inst_ref.id]
            mref = inst.attrs.get("metrics")
            if isinstance(mref, Ref) and st_.heap[mref.id].kind == "map":
                mobj = st_.heap[mref.id]
                if prior == "full":
                    for k in legal:
                        mobj.set(k, TRUE, Opaque("prior:" + k))
                elif prior == "same":
                    # every metric already holds the very value the current field gives it
                    for k in legal:
                        tab = {}
                        for f_ in self.F:
                            parts_ = f_.split(":")
                            tab[(f_,)] = parts_[1] if len(parts_) == 2 and parts_[0] == k else OTHER_VALUE
                        mobj.set(k, TRUE, Fin(("field",), tab))
                elif prior == "other":
                    # every metric already holds a value different from any the field can give it
                    for k in legal:
                        mobj.set(k, TRUE, Const(OTHER_VALUE))
                result["map_id"] = mref.id
                result["before_map"] = mobj.copy()
            else:
                result["map_id"] = None
            field = Fin(("field",), dict(((f,), f) for f in self.F))
            st_.dom["field"] = tuple(self.F)
            ev.bind(st_, env_, s.target, field, s, module_)
            try:
                outs = ev.exec_block(s.body, st_, env_)
            except Dead:
                outs = []
            result["after"] = [(o.status, o.state) for o in outs]
            from .interp import Outcome

            # nothing after the loop is analysed: every path ends here
            return [Outcome("normal", o.state) for o in outs if o.status in ("normal", "continue", "break")] or []

        ev.input_loop_hook = hook
        self_func = init
        saved = ev.current_func
        ev.current_func = self_func
        try:
            try:
                outs = ev.exec_block(stmts, st, env)
            except Dead:
                outs = []
        finally:
            ev.current_func = saved
        result["final"] = outs
        result["events"] = list(ev.events)
        if result["loop"] is None:
            raise AnalysisError("C04.semantic", "the parse phase contains no loop over the fields of the input", init.node, self.module)
        return result

    # -- tables ------------------------------------------------------------------------------
    def _cond_true(self, ev, st, conds, pins):
        """Does the conjunction of path conditions hold for these pins?  Evaluated in a fresh state
        (only the pins; the facts of whichever path `st` came from must not leak in)."""
        from .canon import Canon

        st2 = ev.new_state()
        for s in ("vec", "field"):
            if s in ev.space.dom:
                st2.dom[s] = ev.space.dom[s]
        for s, val in pins.items():
            st2.dom[s] = (val,)
        cn = None
        from .interp_expr import deps_of

        for c in conds:
            if not isinstance(c, Term):
                continue
            if "field" in pins and "vec" not in pins and "field" not in deps_of(c):
                continue  # a condition of the vector level: holds for every vector that reaches the loop
            try:
                d = ev.decide(st2, c)
                if d is None:
                    cn = cn or Canon(ev, st2)
                    x = cn(c)
                    if isinstance(x, Const):
                        d = bool(x.v)
                    else:
                        d = ev.decide(st2, x)
            except Dead:
                return False
            except AnalysisError:
                d = None
            if d is False:
                return False
            if d is None:
                return None
        return True

    def _raised(self, run, events, pins):
        """First raise / unhandled hazard among `events` that happens for these pins."""
        ev = run["ev"]
        st0 = run["st_before_loop"] if run["st_before_loop"] is not None else ev.new_state()
        for e in events:
            if e.kind not in ("raise", "hazard", "may_raise", "none_arith"):
                continue
            conds = list(e.pc)
            if e.kind == "hazard" and isinstance(e.data.get("cond"), Term):
                conds.append(e.data["cond"])
            r = self._cond_true(ev, st0, conds, pins)
            if r is True:
                if e.kind == "raise":
                    return ("raise", e.data.get("exc"), e)
                return ("escape", e.data.get("exc") or e.kind, e)
            if r is None:
                return ("unknown", None, e)
        return None

    def extract_vector_level(self, run):
        ev = run["ev"]
        n0 = run.get("n_events_before", len(run["events"]))
        pre_events = run["events"][:n0]
        st0 = run["st_before_loop"]
        table = {}
        fo_it = run["iter"]
        for r in self.R:
            out = self._raised(run, pre_events, {"vec": r})
            if out is not None:
                table[r] = out
                continue
            # reaches the loop?  (the state before the loop must admit r)
            if st0 is None or r not in st0.folder().domain("vec"):
                table[r] = ("unknown", None, None)
                continue
            st2 = st0.copy()
            st2.dom["vec"] = (r,)
            fields = None
            it = fo_it
            if isinstance(it, Fin):
                x = st2.folder().restrict(it)
                if isinstance(x, Const):
                    fields = tuple(x.v) if isinstance(x.v, (tuple, list)) else None
            elif isinstance(it, Const) and isinstance(it.v, (tuple, list)):
                fields = tuple(it.v)
            minor = None
            inst = st2.heap[run["inst"].id]
            mv = inst.attrs.get("minor_version")
            if isinstance(mv, Fin):
                x = st2.folder().restrict(mv)
                minor = x.v if isinstance(x, Const) else "?"
            elif isinstance(mv, Const):
                minor = mv.v
            elif isinstance(mv, Term):
                try:
                    from .canon import Canon

                    x = Canon(ev, st2)(mv)
                    minor = x.v if isinstance(x, Const) else "?"
                except Exception:
                    minor = "?"
            table[r] = ("pass", fields, minor)
        return table

    def joint_events(self, run):
        """Events inside the loop summary whose conditions also depend on the whole vector (a
        message template built from it, a length computed from it): the field-level table cannot
        carry them, they are evaluated per (vector, field) when composing."""
        from .interp_expr import deps_of

        n0 = run.get("n_events_before", 0)
        out = []
        for e in run["events"][n0:]:
            if e.kind not in ("raise", "hazard", "may_raise", "none_arith"):
                continue
            conds = list(e.pc) + ([e.data["cond"]] if isinstance(e.data.get("cond"), Term) else [])
            n_before = len(run["st_before_loop"].pc) if run["st_before_loop"] is not None else 0
            for c in conds[n_before:]:
                if isinstance(c, Term) and "vec" in deps_of(c):
                    out.append(e)
                    break
        return out

    def field_outcome(self, prior, seg, r):
        """Outcome of one iteration for the segment `seg` of the vector `r`."""
        run = self.runs[prior]
        key = ("joint", prior)
        if key not in self.__dict__:
            self.__dict__[key] = self.joint_events(run)
        if not self.__dict__[key]:
            return self.field_table[prior].get(seg)
        n0 = run.get("n_events_before", 0)
        out = self._raised(run, run["events"][n0:], {"field": seg, "vec": r})
        if out is not None:
            return out
        return self.field_table[prior].get(seg)

    def extract_field_level(self, run):
        ev = run["ev"]
        n0 = run.get("n_events_before", 0)
        loop_events = run["events"][n0:]
        table = {}
        after = run["after"] or []
        before = run["before_map"]
        for f in self.F:
            out = self._raised(run, loop_events, {"field": f})
            if out is not None:
                table[f] = out[:2] + (out[2],)
                continue
            stored = None
            alive = False
            for status, st_a in after:
                if f not in st_a.folder().domain("field"):
                    continue
                st2 = st_a.copy()
                st2.dom["field"] = (f,)
                ok = self._cond_true(ev, st2, st_a.pc, {"field": f})
                if ok is False:
                    continue
                alive = True
                if run["map_id"] is None or run["map_id"] not in st2.heap:
                    continue
                m = st2.heap[run["map_id"]]
                fo = st2.folder()
                for k in m.order:
                    p, val = m.entries[k]
                    if before is not None and k in before.entries and before.entries[k][1] is val and before.entries[k][0] is p:
                        continue
                    pres = fo.restrict(p) if isinstance(p, Fin) else p
                    if isinstance(pres, Fin):
                        pres = fo.simplify(pres)
                    try:
                        d = ev.decide(st2, pres) if isinstance(pres, Term) else bool(pres)
                    except Dead:
                        d = False
                    if d is not True:
                        continue
                    if before is not None and k in before.entries and isinstance(val, Opaque) and val.tag.startswith("prior:"):
                        continue
                    x = fo.restrict(val) if isinstance(val, Fin) else val
                    if isinstance(x, Fin):
                        x = fo.simplify(x)
                    if isinstance(x, App) and x.op == "ite":
                        try:
                            from .canon import Canon

                            x = Canon(ev, st2)(x)
                        except Exception:
                            pass
                    if isinstance(x, Opaque) and x.tag.startswith("prior:"):
                        continue
                    stored = (k, x.v if isinstance(x, Const) else repr(x))
            if stored is not None:
                table[f] = ("store", stored, None)
            elif alive:
                table[f] = ("nothing", None, None)
            else:
                table[f] = ("unknown", None, None)
        return table

    # -- composition ---------------------------------------------------------------------------
    def predict(self, r):
        """('valid', metrics, minor) | ('raise', Class) | ('escape', Exc) | ('unknown', why)"""
        vt = self.vector_table.get(r)
        if vt is None or vt[0] == "unknown":
            return ("unknown", "vector level")
        if vt[0] in ("raise", "escape"):
            return (vt[0], vt[1])
        _, fields, minor = vt
        if fields is None:
            return ("unknown", "field list not constant")
        present = {}
        for seg in fields:
            if seg not in self.field_table["empty"]:
                return ("unknown", "segment %r not a representative" % seg)
            out = self.field_outcome("empty", seg, r)
            if out[0] == "store" and out[1][0] in present:
                k_dup, v_dup = out[1]
                out = self.field_outcome("full", seg, r) or ("unknown", None, None)
                if out[0] == "unknown":
                    # the reaction to a repeated metric depends on the value stored earlier
                    # (setdefault(metric, value) != value, a comparison with the old value, ...)
                    which = "same" if present[k_dup] == v_dup else "other"
                    self.ensure_run(which)
                    out = self.field_outcome(which, seg, r) or ("unknown", None, None)
                    if out[0] == "nothing" or (out[0] == "store" and which == "same"):
                        # accepted a second time: the metric keeps / takes a value
                        if out[0] == "store":
                            present[out[1][0]] = out[1][1]
                        continue
                if out[0] == "store":
                    # stored although the metric is already present: the last occurrence wins
                    present[out[1][0]] = out[1][1]
                    continue
            if out[0] == "store":
                present[out[1][0]] = out[1][1]
                continue
            if out[0] == "nothing":
                continue
            if out[0] in ("raise", "escape"):
                return (out[0], out[1])
            return ("unknown", "field %r" % seg)
        return ("parsed", present, minor)


def get_semantics(ctx, v):
    key = ("parse_semantics", v)
    if key not in ctx.memo:
        try:
            ctx.memo[key] = ParseSemantics(ctx, v)
        except AnalysisError as e:
            ctx.memo[key] = e
    r = ctx.memo[key]
    if isinstance(r, AnalysisError):
        raise r
    return r


def check_semantics(ctx, led, v, rule="C04.semantic"):
    """Compares the composed decision tables with the grammar on every representative vector.
    Returns (n decided, n unknown, first discrepancies)."""
    ps = get_semantics(ctx, v)
    spec = ctx.vspec(v)
    info = VERSIONS[v]
    malformed = "CVSS%dMalformedError" % v
    where = "cvss/%s.py" % info["mod"]
    minor_of = spec.get("minor_of_prefix", {})
    n = unknown = 0
    bad = []
    for r in ps.R:
        want, got_metrics = spec_class(ctx, v, r)
        pred = ps.predict(r)
        if pred[0] == "unknown":
            unknown += 1
            continue
        n += 1
        if pred[0] == "escape":
            bad.append(("escape", r, "an exception outside the CVSSError hierarchy (%s) escapes the constructor" % pred[1]))
            continue
        if pred[0] == "raise":
            if want == "valid" or want == "mandatory":
                bad.append(("overreject", r, "the %s vector is rejected with %s" % ("valid" if want == "valid" else "well-formed (mandatory metric missing)", pred[1])))
            elif pred[1] != malformed:
                bad.append(("kinds", r, "the malformed string raises %s instead of %s" % (pred[1], malformed)))
            continue
        _, present, minor = pred
        if want == "malformed":
            bad.append(("overaccept", r, "the malformed string passes the parse phase (metrics %s)" % sorted(present.items())[:4]))
            continue
        # well-formed: stored pairs must be the raw pairs
        wf = dict(f.split(":") for f in r[len([p for p in spec["prefixes"] if r.startswith(p)][0]) :].split("/"))
        if present != wf:
            diff = sorted(set(present.items()) ^ set(wf.items()))[:3]
            bad.append(("store", r, "the metric map after parsing is not the vector's own fields: differs in %s" % diff))
            continue
        if v == 3:
            pfx = [p for p in spec["prefixes"] if r.startswith(p)][0]
            if minor != minor_of.get(pfx):
                bad.append(("minor", r, "minor version %r is recorded for the prefix %r" % (minor, pfx)))
    return n, unknown, bad
