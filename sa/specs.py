"""The standards' equations written in the term language (transcribed from the specifications;
weights come from /verif/spec/*.json, never from the analysed code)."""

from __future__ import annotations

from fractions import Fraction

from .objmodel import metric_slot
from .terms import ABSENT, Const, Fin

CEIL = "decimal.ROUND_CEILING"
HALF_UP = "decimal.ROUND_HALF_UP"


def v3_terms(sb, spec, minor, scope, mscope_eff):
    """FIRST CVSS v3.0/3.1 section 7.  scope / mscope_eff are the concrete (effective) scopes."""
    W = spec["weights"]
    nd = spec["nd"]
    modified_of = spec["modified_of"]

    def w(k, table=None):
        table = table or W[k]
        return sb.leaf([metric_slot(k)], lambda v: table[nd if v is ABSENT else v])

    def wm(mk, table=None):
        b = modified_of[mk]
        table = table or W[b]

        def f(vb, vm):
            eff = vb if vm in (ABSENT, nd) else vm
            return table[eff]

        slots = sorted([metric_slot(b), metric_slot(mk)])
        if slots[0] == metric_slot(b):
            return sb.leaf(slots, f)
        return sb.leaf(slots, lambda vm, vb: f(vb, vm))

    pr_u, pr_c = W["PR"], spec["pr_changed"]
    one = sb.num("1")
    roundup = lambda x: sb.quant(x, "0.1", CEIL)

    iss = one - (one - w("C")) * (one - w("I")) * (one - w("A"))
    if scope == "U":
        impact = sb.num("6.42") * iss
    else:
        impact = sb.num("7.52") * (iss - sb.num("0.029")) - sb.num("3.25") * (iss - sb.num("0.02")) ** 15
    expl = sb.num("8.22") * w("AV") * w("AC") * w("PR", pr_c if scope == "C" else pr_u) * w("UI")
    if scope == "U":
        base_pos = roundup(sb.min(impact + expl, sb.num("10")))
    else:
        base_pos = roundup(sb.min(sb.num("1.08") * (impact + expl), sb.num("10")))
    base = sb.ite(sb.cmp("<=", impact, sb.num("0")), sb.num("0"), base_pos)
    temporal = roundup(base * w("E") * w("RL") * w("RC"))

    miss = sb.min(
        one
        - (one - wm("MC") * w("CR")) * (one - wm("MI") * w("IR")) * (one - wm("MA") * w("AR")),
        sb.num("0.915"),
    )
    if mscope_eff == "U":
        mimpact = sb.num("6.42") * miss
    elif minor == 0:
        mimpact = sb.num("7.52") * (miss - sb.num("0.029")) - sb.num("3.25") * (miss - sb.num("0.02")) ** 15
    else:
        mimpact = sb.num("7.52") * (miss - sb.num("0.029")) - sb.num("3.25") * (
            miss * sb.num("0.9731") - sb.num("0.02")
        ) ** 13
    mexpl = sb.num("8.22") * wm("MAV") * wm("MAC") * wm("MPR", pr_c if mscope_eff == "C" else pr_u) * wm("MUI")
    if mscope_eff == "U":
        inner = roundup(sb.min(mimpact + mexpl, sb.num("10")))
    else:
        inner = roundup(sb.min(sb.num("1.08") * (mimpact + mexpl), sb.num("10")))
    env_pos = roundup(inner * w("E") * w("RL") * w("RC"))
    env = sb.ite(sb.cmp("<=", mimpact, sb.num("0")), sb.num("0"), env_pos)
    return {"base_score": base.t, "temporal_score": temporal.t, "environmental_score": env.t}


def v2_terms(sb, spec):
    """CVSS v2 guide section 3.2."""
    W = spec["weights"]
    nd = spec["nd"]

    def w(k):
        return sb.leaf([metric_slot(k)], lambda v: W[k][nd if v is ABSENT else v])

    def all_nd(group):
        from .interp import mk_and

        fo = sb.st.folder()
        cs = []
        for k in group:
            s = metric_slot(k)
            cs.append(fo.simplify(Fin((s,), dict(((x,), x in (ABSENT, nd)) for x in fo.domain(s)))))
        c = mk_and(cs)
        return sb.ev.try_fold_bool(sb.st, c) if not isinstance(c, (Fin, Const)) else c

    one = sb.num("1")
    r1 = lambda x: sb.quant(x, "0.1", HALF_UP)
    zero = sb.num("0")

    def base_eq(impact):
        expl = sb.num("20") * w("AV") * w("AC") * w("Au")
        f = sb.ite(sb.cmp("==", impact, zero), zero, sb.num("1.176"))
        return r1(((sb.num("0.6") * impact) + (sb.num("0.4") * expl) - sb.num("1.5")) * f)

    impact = sb.num("10.41") * (one - (one - w("C")) * (one - w("I")) * (one - w("A")))
    adj_impact = sb.min(
        sb.num("10"),
        sb.num("10.41")
        * (one - (one - w("C") * w("CR")) * (one - w("I") * w("IR")) * (one - w("A") * w("AR"))),
    )
    base = sb.max(zero, base_eq(impact))
    temporal_num = sb.max(zero, r1(base * w("E") * w("RL") * w("RC")))
    adj_temporal = r1(base_eq(adj_impact) * w("E") * w("RL") * w("RC"))
    env_num = sb.max(zero, r1((adj_temporal + (sb.num("10") - adj_temporal) * w("CDP")) * w("TD")))
    none = sb.wrap(Const(None))
    temporal = sb.ite(all_nd(spec["groups"]["temporal"]), none, temporal_num)
    env = sb.ite(all_nd(spec["groups"]["environmental"]), none, env_num)
    return {"base_score": base.t, "temporal_score": temporal.t, "environmental_score": env.t}
