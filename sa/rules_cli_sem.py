"""C17 — semantic analysis of cvss_calculator.main over symbolic command lines.

main() is interpreted abstractly (exceptions as control flow) with

  * argparse replaced by its specification for the options the property lists: every add_argument
    call (on the parser or a plain argument group, wherever it is written) is recorded, and
    parse_args() returns a namespace whose attributes are symbolic: -2/-3/-4/-a/-n/-j range over
    {absent, given}, -v over {absent, "", a valid vector, an invalid one}; anything argparse could
    use to reject or re-read such a command line (required=, choices=, type=, nargs=, mutually
    exclusive groups, sub-parsers, fromfile_prefix_chars, parser.error/exit) is a finding;
  * the CVSSn constructors replaced by tokens (the -v vector is valid for the version the flags
    select, the builder's string for the version it was asked for; anything else raises
    CVSSnMalformedError), the accessors of the constructed object by opaque API tokens,
    ask_interactively by a stub that records its arguments and may end with EOFError /
    KeyboardInterrupt, json.dumps / print / sys.exit by recorders.

For each of the 768 command lines x input endings, read off the value graph: no exception leaves
main() and no non-zero exit is requested; the class constructed (and the version asked
interactively) is one the flags select, v3 without flags; -a reaches the builder; for a valid
vector every score slot the class reports is printed verbatim, with its rating for v3/v4, then
clean_vector() and rh_vector() with default arguments, and the JSON of as_json(sort=True,
minimal=True) exactly when -j is given; for an invalid one the library's exception is printed and
nothing else of the API.  The idiom rules of rules_cli.py remain as an informational cross-check.
"""

from __future__ import annotations

import ast
import itertools

from .interp import Dead, Ref, TupleVal, truth_const
from .pointeval import first_event, holds, value_at
from .srcmodel import AnalysisError, short
from .terms import App, BoolOp, Const, Fin, Opaque, Space, Term

LISTED = {"-2": "store_true", "-3": "store_true", "-4": "store_true", "-a": "store_true", "-n": "store_true", "-j": "store_true", "-v": "store"}
VEC = (None, "", "<valid>", "<invalid>", " <valid> ")  # the last one: a valid vector with blanks around it, which the library rejects
FAMILY = {"CVSS2": (2,), "CVSS3": (3, 3.0, 3.1), "CVSS4": (4, 4.0)}


class _NS(object):
    """stand-in class of the argparse namespace"""

    name = "Namespace"
    qualname = "argparse.Namespace"
    methods = {}
    own_methods = {}
    class_assigns = {}
    bases = []
    node = None
    module = None
    order = []

    @staticmethod
    def dict_of(ev, st, o):
        """vars(args) / args.__dict__: a plain dict in the order the options were declared
        (insertion order from CPython 3.6 on; arbitrary on 2.7, which the interpreter records as a
        plain_dict_iter event when the dict is iterated)"""
        from .interp import MapObj
        from .terms import TRUE

        m = MapObj(False, "dict")
        for d in _NS.order:
            if d in o.attrs:
                m.set(d, TRUE, o.attrs[d])
        return ev.alloc(st, m)


def allowed_classes(f2, f3, f4):
    sel = [c for c, f in (("CVSS2", f2), ("CVSS3", f3), ("CVSS4", f4)) if f]
    return sel or ["CVSS3"]


class CliSemantics(object):
    def __init__(self, ctx):
        from .interp_stmt import Evaluator

        self.ctx = ctx
        self.f = ctx.repo.function("cvss_calculator", "main")
        self.module = self.f.module
        self.space = Space()
        ev = Evaluator(ctx, self.space)
        self.ev = ev
        self.options = []  # (option strings, dest, action, keywords, node)
        self.findings = []  # (rule suffix, where, construct, what)
        self.parsed = False
        self.asked = []  # (pc, version, all, no_colors, node)
        self.ctors = []  # (pc, class name, node)
        self.prints = []  # (pc, args, kwargs, node)
        self.exits = []  # (pc, code, node)
        ev.ext_hook = self.ext_hook
        ev.method_hook = self.method_hook
        ev.construct_hook = self.construct_hook
        ev.builtin_hook = self.builtin_hook
        ev.split_unjoinable = True
        ev.recorders = [self.asked, self.ctors, self.prints, self.exits]
        ev.event_dom = True
        ev.fold_numeric_compare = True
        ask = ctx.repo.function("interactive", "ask_interactively")
        ev.models[ask.node] = self.ask_model
        for s_, dom in (("eof", ("no", "eof", "kbd")),):
            self.space.add(s_, dom)
        self.nscores = {}
        from .rules_score import get_model

        for n in (2, 3, 4):
            om = get_model(ctx, n)
            try:
                val, _, _ = om.call("scores", [])
            except Dead:
                raise AnalysisError("C17.sem", "scores() of CVSS%d is not available" % n, self.f.node, self.module)
            if not isinstance(val, TupleVal):
                raise AnalysisError("C17.sem", "scores() of CVSS%d is not a tuple" % n, self.f.node, self.module)
            self.nscores[n] = len(val.items)
        st = ev.new_state()
        self.st = st
        self.ret = None
        try:
            self.ret = ev.inline(st, self.f, None, [], {}, self.f.node, self.module)
        except Dead:
            pass
        self.events = list(ev.events)
    def snap(self, st):
        """what identifies the rows that reach this point: path conditions, the domains the
        assumptions narrowed, the joint constraints"""
        return (list(st.pc), dict(st.dom), list(st.constraints))

    # ---- argparse ----------------------------------------------------------------------------
    def is_parser(self, x):
        return isinstance(x, Opaque) and getattr(x, "argparse_role", None) is not None

    def ext_hook(self, st, dotted, args, kwargs, node, module):
        if dotted == "argparse.ArgumentParser":
            for k, v in kwargs.items():
                plain = isinstance(v, Const) and (v.v is None or (k == "prefix_chars" and v.v == "-") or (k in ("add_help", "allow_abbrev", "exit_on_error") and v.v is True))
                if k in ("fromfile_prefix_chars", "prefix_chars", "argument_default", "parents", "exit_on_error", "conflict_handler") and not plain:
                    self.findings.append(("parser", module.where(node), short(node, 60), "ArgumentParser(%s=...) changes how the listed command lines are read (e.g. a VECTOR starting with the prefix character is replaced by the contents of a file)" % k))
            o = Opaque("argparser")
            o.argparse_role = "parser"
            return o
        if dotted in ("json.dumps",):
            o = Opaque("api:json.dumps")
            o.api = ("json.dumps", tuple(args), dict(kwargs))
            return o
        if dotted in ("sys.exit", "os._exit", "exit", "quit"):
            self.exits.append((self.snap(st), args[0] if args else Const(0), node))
            raise Dead()
        return None

    def dest_of(self, names, kwargs):
        if "dest" in kwargs and isinstance(kwargs["dest"], Const):
            return kwargs["dest"].v
        longs = [n for n in names if n.startswith("--")]
        if longs:
            return longs[0][2:].replace("-", "_")
        shorts = [n for n in names if n.startswith("-")]
        if shorts:
            return shorts[0].lstrip("-")
        return names[0] if names else None

    def method_hook(self, st, recv, name, args, kwargs, node, module):
        if self.is_parser(recv):
            role = recv.argparse_role
            if name == "add_argument":
                names = [a.v for a in args if isinstance(a, Const) and isinstance(a.v, str)]
                if len(names) != len(args):
                    raise AnalysisError("C17.sem", "add_argument with a computed option string", node, module)
                action = kwargs.get("action")
                action = action.v if isinstance(action, Const) else ("store" if action is None else "?")
                self.options.append((names, self.dest_of(names, kwargs), action, dict(kwargs), node, role))
                return Opaque("argparse-action")
            if name in ("add_argument_group",):
                o = Opaque("arggroup")
                o.argparse_role = role
                return o
            if name == "add_mutually_exclusive_group":
                o = Opaque("argmutex")
                o.argparse_role = "mutex"
                return o
            if name == "add_subparsers":
                self.findings.append(("exit", module.where(node), short(node, 60), "sub-parsers make argparse reject command lines built from the listed flags alone (exit status 2)"))
                return Opaque("subparsers")
            if name in ("error", "exit"):
                self.findings.append(("exit", module.where(node), short(node, 60), "parser.%s() ends the program with a non-zero status" % name))
                raise Dead()
            if name == "set_defaults":
                raise AnalysisError("C17.sem", "parser.set_defaults is not modelled", node, module)
            if name in ("parse_args", "parse_known_args"):
                if args and not (isinstance(args[0], Const) and args[0].v is None):
                    raise AnalysisError("C17.sem", "parse_args() on an explicit argument list", node, module)
                ns = self.namespace(st, node, module)
                return ns if name == "parse_args" else TupleVal([ns, Const(())])
            if name in ("print_help", "print_usage", "format_help", "format_usage"):
                return Opaque("argparse-text")
            raise AnalysisError("C17.sem", "ArgumentParser.%s is not modelled" % name, node, module)
        if isinstance(recv, (Const, Fin)) and all(isinstance(x, tuple) and x and x[0] == "obj" for x in (recv.table.values() if isinstance(recv, Fin) else [recv.v])):
            if isinstance(recv, Fin):
                recv = st.folder().restrict(recv)
            return self.api_call(st, recv, name, args, kwargs, node, module)
        return None

    def namespace(self, st, node, module):
        from .interp import Inst

        if self.parsed:
            raise AnalysisError("C17.sem", "parse_args() is called more than once", node, module)
        self.parsed = True
        inst = Inst(_NS)
        seen = {}
        for names, dest, action, kw, anode, role in self.options:
            listed = [n for n in names if n in LISTED or {"--all": "-a", "--vector": "-v", "--no-colors": "-n", "--json": "-j"}.get(n) in LISTED]
            key = None
            for n in names:
                key = key or (n if n in LISTED else {"--all": "-a", "--vector": "-v", "--no-colors": "-n", "--json": "-j"}.get(n))
            where = module.where(anode)
            if key is None:
                # an option the property's command lines never give: it keeps its default
                dflt = kw.get("default")
                if action in ("store_true", "store_false") and dflt is None:
                    dflt = Const(action == "store_false")
                inst.attrs[dest] = dflt if dflt is not None else Const(None)
                if isinstance(kw.get("required"), Const) and kw["required"].v:
                    self.findings.append(("flags.restrict", where, short(anode, 60), "the new option %s is required: every command line built from the listed flags alone is rejected with exit status 2" % names))
                continue
            seen[key] = (dest, action)
            if action != LISTED[key]:
                self.findings.append(("flags", where, short(anode, 60), "option %s is declared with action %r (the command lines of the property use it as %s)" % (key, action, LISTED[key])))
                raise Dead()
            bad = [k for k in kw if k in ("required", "choices", "type", "nargs", "const") and not (isinstance(kw[k], Const) and kw[k].v in (None, False))]
            if bad:
                self.findings.append(("flags.restrict", where, short(anode, 60), "option %s is declared with %s: argparse may now reject (exit status 2) or transform command lines the property covers" % (key, bad)))
            if role == "mutex":
                self.findings.append(("flags.parser", where, short(anode, 60), "option %s sits in a mutually exclusive group: command lines that combine its options are rejected with exit status 2" % key))
            slot = "opt:" + key
            if action == "store_true":
                dflt = kw.get("default")
                if dflt is not None and not (isinstance(dflt, Const) and dflt.v in (False, None)):
                    self.findings.append(("flags", where, short(anode, 60), "option %s has the default %r: the flag is on without being given" % (key, dflt)))
                self.space.add(slot, (False, True))
                st.dom[slot] = (False, True)
                inst.attrs[dest] = Fin((slot,), {(False,): False if dflt is None else dflt.v, (True,): True})
            else:
                dflt = kw.get("default")
                dv = dflt.v if isinstance(dflt, Const) else None
                if dflt is not None and not isinstance(dflt, Const):
                    raise AnalysisError("C17.sem", "computed default of %s" % key, anode, module)
                self.space.add(slot, VEC)
                st.dom[slot] = VEC
                inst.attrs[dest] = Fin((slot,), dict(((x,), (dv if x is None else x)) for x in VEC))
        for key in LISTED:
            if key not in seen:
                self.findings.append(("flags", module.where(node), "option %s" % key, "option %s is not registered: argparse rejects every command line that uses it (exit status 2)" % key))
                # keep going with the flag permanently off
        self.dests = seen
        self.ns_order = [d for _, d, _, _, _, _ in self.options]
        _NS.order = list(self.ns_order)
        return self.ev.alloc(st, inst)

    # ---- builtins ------------------------------------------------------------------------------
    def builtin_hook(self, st, name, args, kwargs, node, module):
        from .interp import MapObj
        from .terms import TRUE

        if name == "print":
            self.prints.append((self.snap(st), list(args), dict(kwargs), node))
            return Const(None)
        if name == "vars" and len(args) == 1 and isinstance(args[0], Ref) and st.heap[args[0].id].kind == "inst" and st.heap[args[0].id].cls is _NS:
            return _NS.dict_of(self.ev, st, st.heap[args[0].id])
        if name in ("exit", "quit"):
            self.exits.append((self.snap(st), args[0] if args else Const(0), node))
            raise Dead()
        return None

    # ---- the library ---------------------------------------------------------------------------
    def ask_model(self, ev, st, args, kwargs, node, module):
        from .interp import mk_not

        params = ["version", "all_metrics", "no_colors"]
        vals = dict(zip(params, args))
        vals.update(kwargs)
        self.asked.append((self.snap(st), vals.get("version"), vals.get("all_metrics", Const(False)), vals.get("no_colors", Const(False)), node))
        eof = Fin(("eof",), {("no",): "no", ("eof",): "eof", ("kbd",): "kbd"})
        st.dom.setdefault("eof", ("no", "eof", "kbd"))
        for tag, exc in (("eof", "EOFError"), ("kbd", "KeyboardInterrupt")):
            cond = st.folder().fold(lambda x, tag=tag: x == tag, [st.folder().restrict(eof)]) if not isinstance(st.folder().restrict(eof), Const) else Const(st.folder().restrict(eof).v == tag)
            d = ev.decide(st, cond)
            if d is False:
                continue
            ev.hazard(st, exc, node, module, cond, "end of input / Ctrl-C while a question is asked")
            if d is True:
                raise Dead()
            ev.assume(st, mk_not(cond))
        ver = vals.get("version")
        if isinstance(ver, Fin):
            ver = st.folder().restrict(ver)
        if isinstance(ver, Const):
            return Const(("asked", _num(ver.v)))
        if isinstance(ver, Fin):
            return st.folder().fold(lambda x: ("asked", _num(x)), [ver])
        raise AnalysisError("C17.sem", "the version passed to ask_interactively is %r" % (ver,), node, module)

    def construct_hook(self, st, cls, args, kwargs, node, module):
        from .interp import mk_not

        if cls.name not in FAMILY:
            return None
        if len(args) != 1 or kwargs:
            raise AnalysisError("C17.sem", "constructor call with other than one positional argument", node, module)
        arg = args[0]
        fo = st.folder()
        if isinstance(arg, Fin):
            arg = fo.restrict(arg)
        if not isinstance(arg, (Fin, Const)):
            self.findings.append(("vector", module.where(node), short(node, 60), "%s is not given the -v vector / the builder's string itself but %s" % (cls.name, type(arg).__name__)))
            raise Dead()
        self.ctors.append((self.snap(st), cls.name, node))
        flags = []
        for k in ("-2", "-3", "-4"):
            s_ = "opt:" + k
            flags.append(Fin((s_,), {(False,): False, (True,): True}) if s_ in self.space.dom else Const(False))

        def invalid(a, f2, f3, f4):
            if a == "<valid>":
                return cls.name not in allowed_classes(f2, f3, f4)
            if isinstance(a, tuple) and a and a[0] == "asked":
                return a[1] not in FAMILY[cls.name]
            return True  # None, "", "<invalid>", anything else

        cond = fo.fold(invalid, [arg] + flags) if any(isinstance(x, Fin) for x in [arg] + flags) else Const(invalid(arg.v, *[f.v for f in flags]))
        d = self.ev.decide(st, cond)
        if d is not False:
            self.ev.hazard(st, "%sMalformedError" % cls.name, node, module, cond, "%s(vector) for a string that is not a valid vector of that version" % cls.name)
            if d is True:
                raise Dead()
            self.ev.assume(st, mk_not(cond))
        return Const(("obj", int(cls.name[-1])))

    def api_call(self, st, recv, name, args, kwargs, node, module):
        """recv: Const / Fin of object tokens (the class may depend on the flags)."""
        from .interp import ListObj

        sig = ",".join([_show(a) for a in args] + ["%s=%s" % (k, _show(v)) for k, v in sorted(kwargs.items())])
        if name in ("scores", "severities") and not args and not kwargs:
            # as many slots as the object's class reports: slot i exists under the condition that
            # the class has more than i scores
            items = []
            for i in range(max(self.nscores.values())):
                if isinstance(recv, Const):
                    g = Const(self.nscores[recv.v[1]] > i)
                else:
                    g = st.folder().fold(lambda t, i=i: self.nscores[t[1]] > i, [recv])
                items.append((g, _api("%s[%d]" % (name, i), None)))
            lo = ListObj(items)
            lo.prefix_closed = True
            return self.ev.alloc(st, lo)
        return _api("%s(%s)" % (name, sig), None)

    # ---- evaluation ----------------------------------------------------------------------------
    def rows(self):
        slots = [s for s in ("opt:-2", "opt:-3", "opt:-4", "opt:-a", "opt:-n", "opt:-j", "opt:-v", "eof") if s in self.space.dom]
        for combo in itertools.product(*[self.space.dom[s] for s in slots]):
            yield dict(zip(slots, combo))


def reaches(pins, snap):
    pc, dom, cons = snap
    for s_, allowed in dom.items():
        if s_ in pins and pins[s_] not in allowed:
            return False
    for f in cons:
        key = tuple(pins.get(x) for x in f.slots)
        if not f.table.get(key, True):
            return False
    return holds(pins, pc)


def _num(x):
    from .consteval import Num

    if isinstance(x, Num):
        q = x.q
        return int(q) if q.denominator == 1 and not getattr(x, "kind", "") == "flt" else float(q)
    return x


def _show(a):
    if isinstance(a, Const):
        return repr(a.v)
    return "?"


def _api(tag, n):
    o = Opaque("api:%s" % tag)
    o.api = (tag, n)
    return o


def verbatim_tokens(pins, t, out=None):
    """API tokens that reach the printed text unchanged: through concatenation, str(), tuples and
    the conditional branches taken on this row."""
    out = [] if out is None else out
    if isinstance(t, Opaque):
        if getattr(t, "api", None) is not None or t.tag.startswith("exc:"):
            out.append(t)
        return out
    if isinstance(t, TupleVal):
        for x in t.items:
            verbatim_tokens(pins, x, out)
        return out
    if isinstance(t, App) and t.op in ("cat", "str", "join", "item"):
        for x in t.args:
            if isinstance(x, (Term, TupleVal)):
                verbatim_tokens(pins, x, out)
        return out
    if isinstance(t, App) and t.op == "ite":
        try:
            c = truth_const(value_at(pins, t.args[0]))
        except (Dead, AnalysisError):
            return out
        return verbatim_tokens(pins, t.args[1] if c else t.args[2], out)
    return out


def console_script_of_main(ctx):
    """Name of a console script that setup.py maps to cvss.cvss_calculator:main, else None (read
    from the source of setup.py: string constants of the form 'name = module:function')."""
    import ast
    import os
    import re

    path = os.path.join(ctx.repo.root, "setup.py")
    try:
        with open(path) as fh:
            tree = ast.parse(fh.read())
    except (OSError, SyntaxError):
        return None
    for n in ast.walk(tree):
        if isinstance(n, ast.Constant) and isinstance(n.value, str):
            m = re.match(r"^\s*([\w.-]+)\s*=\s*cvss\.cvss_calculator\s*:\s*main\s*$", n.value)
            if m:
                return m.group(1)
    return None


def check_cli_semantics(ctx, led, rule="C17.sem"):
    cs = CliSemantics(ctx)
    where = cs.module.where(cs.f.node)
    ck = "cvss_calculator.main"
    if not cs.parsed:
        raise AnalysisError("C17.sem", "main() does not parse a command line on the evaluated path", cs.f.node, cs.module)
    for suffix, w, construct, what in cs.findings:
        led.violation("%s.%s" % (rule, suffix), "%s::%s" % (ck, construct), w, what)
    n = 0
    first = {}
    wrapped = console_script_of_main(ctx)

    def report(kind, key, w, msg):
        if kind not in first:
            first[kind] = True
            led.violation("%s.%s" % (rule, kind), "%s::%s" % (ck, key), w, msg)

    def line_of(pins):
        parts = [k[4:] for k in ("opt:-2", "opt:-3", "opt:-4", "opt:-a", "opt:-n", "opt:-j") if pins.get(k)]
        v = pins.get("opt:-v")
        if v is not None:
            parts.append("-v %s" % ("''" if v == "" else v))
        return " ".join(parts) or "(no arguments)"

    for pins in cs.rows():
        n += 1
        cmd = line_of(pins)
        vec = pins.get("opt:-v")
        interactive_possible = vec in (None, "")
        if not interactive_possible and pins.get("eof") != "no":
            continue
        e = first_event(pins, cs.events)
        if e is not None:
            what = e.data.get("what") or e.kind
            report("contain", short(e.node, 60), e.where(), "for the command line `%s`%s, %s leaves main() as a traceback (%s)" % (cmd, "" if pins.get("eof") == "no" else " and input that ends during the questions", e.data.get("exc"), what))
            continue
        for pc, code, node in cs.exits:
            if reaches(pins, pc):
                c = value_at(pins, code) if isinstance(code, Term) else None
                if c not in (0, None) or isinstance(c, bool):
                    report("exit", short(node, 60), cs.module.where(node), "for the command line `%s` the program ends with exit status %r" % (cmd, c))
        if wrapped and isinstance(cs.ret, Term):
            # setup.py installs main() as a console script: the generated wrapper runs
            # sys.exit(main()), so what main() returns is the exit status
            try:
                rv = value_at(pins, cs.ret)
            except (Dead, AnalysisError):
                rv = None
            if rv is not None and not (isinstance(rv, (int, bool)) and rv == 0):
                report("exit.return", "return value", where, "for the command line `%s` main() returns %r; the installed console script `%s` runs sys.exit(main()) and so ends with a non-zero exit status" % (cmd, rv, wrapped))
        sel = allowed_classes(pins.get("opt:-2"), pins.get("opt:-3"), pins.get("opt:-4"))
        asked = [a for a in cs.asked if reaches(pins, a[0])]
        ctors = [c for c in cs.ctors if reaches(pins, c[0])]
        prints = [p for p in cs.prints if reaches(pins, p[0])]
        toks = []
        for pc, args, kwargs, node in prints:
            for a in args:
                for t in verbatim_tokens(pins, a):
                    toks.append((t, node))
        api = [t for t, _ in toks if getattr(t, "api", None) is not None]
        excs = [t for t, _ in toks if t.tag.startswith("exc:")]
        if pins.get("eof") != "no":
            if interactive_possible and not asked and vec is None:
                report("interactive", "no -v", where, "for the command line `%s` the vector is not asked interactively" % cmd)
            continue  # input ended: nothing more is required than a clean end
        if vec is None and not asked:
            report("interactive", "no -v", where, "for the command line `%s` (no -v) the vector is not asked interactively" % cmd)
            continue
        if vec in ("<valid>", "<invalid>") and asked:
            report("interactive", "-v", cs.module.where(asked[0][4]), "for the command line `%s` the questions are asked although -v gives the vector" % cmd)
            continue
        for pc, ver, allm, noc, node in asked:
            try:
                vv = _num(value_at(pins, ver)) if isinstance(ver, Term) else None
                av = value_at(pins, allm) if isinstance(allm, Term) else None
            except (Dead, AnalysisError):
                vv, av = None, None
            okv = any(vv in FAMILY[c] for c in sel)
            if not okv:
                report("version", "ask_interactively", cs.module.where(node), "for the command line `%s` the builder is asked for version %r; the flags select %s" % (cmd, vv, "/".join(sel)))
            if bool(truth_const(av)) != bool(pins.get("opt:-a")):
                report("all", "ask_interactively", cs.module.where(node), "for the command line `%s` the builder is called with all_metrics=%r" % (cmd, av))
        valid = vec == "<valid>" or (asked and vec in (None, ""))
        if valid:
            if len(ctors) != 1 or ctors[0][1] not in sel:
                report("dispatch", "constructor", cs.module.where(ctors[0][2]) if ctors else where, "for the command line `%s` the vector is scored by %s; the flags select %s" % (cmd, [c[1] for c in ctors] or "no class", "/".join(sel)))
                continue
            ncls = int(ctors[0][1][-1])
            tags = [t.api[0] for t in api]
            missing = []
            for i in range(cs.nscores[ncls]):
                if "scores[%d]" % i not in tags:
                    missing.append("scores()[%d]" % i)
                if ncls >= 3 and "severities[%d]" % i not in tags:
                    missing.append("severities()[%d]" % i)
            if "clean_vector()" not in tags:
                missing.append("clean_vector() with default arguments")
            if "rh_vector()" not in tags:
                missing.append("rh_vector()")
            js = [t for t in api if t.api[0] == "json.dumps"]
            if pins.get("opt:-j"):
                good = False
                for t in js:
                    a0 = t.api[1][0] if t.api[1] else None
                    if isinstance(a0, Opaque) and getattr(a0, "api", None) and a0.api[0] in ("as_json(minimal=True,sort=True)",):
                        good = True
                if not good:
                    missing.append("json.dumps(as_json(sort=True, minimal=True))")
            elif js:
                report("print.json", "json", where, "for the command line `%s` (no -j) a JSON document is printed" % cmd)
            if missing:
                report("print", "valid vector", where, "for the command line `%s` main() does not print, as the API reports them: %s" % (cmd, ", ".join(missing)))
            if excs:
                report("print", "valid vector error", where, "for the command line `%s` an error message is printed for a valid vector" % cmd)
        else:
            if not excs:
                report("contain.message", "invalid vector", where, "for the command line `%s` the library's error message is not printed" % cmd)
            if [t for t in api if t.api[0] != "json.dumps"]:
                report("print", "invalid vector", where, "for the command line `%s` (invalid vector) results are printed: %s" % (cmd, sorted(set(t.api[0] for t in api))[:4]))
    if not first and not cs.findings:
        led.ok(rule, "%s::%d command lines" % (ck, n), where, "%d command lines x input endings: no traceback, exit status 0, class and builder version as the flags select, API values printed verbatim, JSON exactly with -j, the library's message for an invalid vector" % n)
    return n
