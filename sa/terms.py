"""Term language of the value-graph summariser (E5) and the decision-table folding (E6).

* ``Fin``   – a finite function of enum-valued *slots* (metric values, minor version, flags) to
              Python constants.  Anything computed from slots by discrete operations (comparison,
              lookup in a literal table, str methods, boolean connectives, ITE) is folded into one
              table: that is the decision-table engine.
* ``P``     – exact-rational polynomial over atoms (numeric ``Fin`` leaves = weights, and ``App``
              atoms: min/max/quantize/ite/pow/div/float ...).  Arithmetic on weights is *not*
              tabulated: it is kept symbolic and compared in canonical form.
* ``Cond``  – boolean terms: ``Fin`` with bool values, comparisons of polynomials, and/or/not.
* ``Str``   – string terms: concatenations and joins of guarded lists.
"""

from __future__ import annotations

import itertools
from fractions import Fraction

from .consteval import NAN, Dec, Flt, Num, is_num, qof

FOLD_LIMIT = 40000


class Sentinel(object):
    def __init__(self, name):
        self.name = name

    def __repr__(self):
        return self.name

    def __lt__(self, o):
        return repr(self) < repr(o)


ABSENT = Sentinel("<absent>")
ERR = Sentinel("<error>")


class Space(object):
    """Registry of slots and their full domains, plus joint constraints."""

    def __init__(self):
        self.dom = {}
        self.constraints = []  # (slots tuple, frozenset of allowed tuples)
        self.defs = {}  # derived slot name -> Fin definition over base slots

    def add(self, name, domain):
        domain = tuple(domain)
        if name in self.dom and self.dom[name] != domain:
            raise ValueError("slot %s redefined" % name)
        self.dom[name] = domain
        return name

    def constrain(self, slots, allowed):
        self.constraints.append((tuple(slots), frozenset(allowed)))


_CKEY_MEMO = {}


def ckey(v):
    """Stable sort/identity key for constants appearing in tables."""
    try:
        k = (v.__class__, v)
        r = _CKEY_MEMO.get(k)
        if r is None:
            r = _ckey(v)
            if len(_CKEY_MEMO) < 200000:
                _CKEY_MEMO[k] = r
        return r
    except TypeError:
        return _ckey(v)


def _ckey(v):
    if isinstance(v, bool):
        return "b:%s" % v
    if isinstance(v, int):
        return "i:%d" % v
    if isinstance(v, str):
        return "s:" + v
    if isinstance(v, Num):
        return "n:%s:%s" % (v.kind, v.q)
    if v is None:
        return "none"
    if isinstance(v, tuple):
        return "t:(" + ",".join(ckey(x) for x in v) + ")"
    if isinstance(v, Fraction):
        return "q:%s" % v
    return "o:" + repr(v)


class Term(object):
    _sk = None

    def sortkey(self):
        if self._sk is None:
            self._sk = self._sortkey()
        return self._sk

    def __eq__(self, o):
        return isinstance(o, Term) and self.sortkey() == o.sortkey()

    def __ne__(self, o):
        return not self.__eq__(o)

    def __hash__(self):
        return hash(self.sortkey())


class Const(Term):
    def __init__(self, v):
        self.v = v

    def _sortkey(self):
        return "C[" + ckey(self.v) + "]"

    def __repr__(self):
        return "Const(%r)" % (self.v,)


class Fin(Term):
    def __init__(self, slots, table):
        self.slots = tuple(slots)
        self.table = table

    def _sortkey(self):
        items = sorted((tuple(ckey(x) for x in k), ckey(v)) for k, v in self.table.items())
        return "F[%s|%s]" % (",".join(self.slots), ";".join("%s>%s" % ("/".join(k), v) for k, v in items))

    def values(self):
        return set(self.table.values())

    def __repr__(self):
        vs = sorted(set(ckey(v) for v in self.table.values()))
        return "Fin(%s -> {%s})" % (",".join(self.slots), ", ".join(vs[:8]) + ("..." if len(vs) > 8 else ""))

    def describe(self, limit=12):
        rows = sorted(self.table.items(), key=lambda kv: tuple(ckey(x) for x in kv[0]))
        s = ["%s=%s -> %r" % (",".join(self.slots), ",".join(str(x) for x in k), v) for k, v in rows[:limit]]
        return "; ".join(s) + (" ..." if len(rows) > limit else "")


class App(Term):
    """Uninterpreted-but-canonical application: op(args; attrs)."""

    def __init__(self, op, args, attrs=()):
        self.op = op
        self.args = tuple(args)
        self.attrs = tuple(attrs)

    def _sortkey(self):
        return "A[%s|%s|%s]" % (
            self.op,
            ",".join(a.sortkey() if isinstance(a, Term) else ckey(a) for a in self.args),
            ",".join(str(a) for a in self.attrs),
        )

    def __repr__(self):
        return "%s(%s%s)" % (
            self.op,
            ", ".join(repr(a) for a in self.args),
            ("; " + ",".join(str(a) for a in self.attrs)) if self.attrs else "",
        )


class Opaque(Term):
    """A value the analysis does not interpret; carries the symbols it depends on."""

    def __init__(self, tag, deps=(), is_str=False):
        self.tag = tag
        self.deps = frozenset(deps)
        self.is_str = is_str

    def _sortkey(self):
        return "O[%s|%s]" % (self.tag, ",".join(sorted(self.deps)))

    def __repr__(self):
        return "Opaque(%s)" % self.tag


# ---------------------------------------------------------------------------------------------
# polynomials


class P(Term):
    """Polynomial with Fraction coefficients over atoms (Fin numeric leaves, App, Opaque)."""

    def __init__(self, terms, kind=None):
        self.terms = dict((m, c) for m, c in terms.items() if c != 0)
        self.kind = kind

    @staticmethod
    def const(q, kind=None):
        return P({(): Fraction(q)}, kind)

    @staticmethod
    def atom(a, kind=None):
        return P({((a, 1),): Fraction(1)}, kind)

    def is_const(self):
        return all(m == () for m in self.terms)

    def const_value(self):
        return self.terms.get((), Fraction(0))

    def _sortkey(self):
        items = []
        for m, c in self.terms.items():
            items.append(("*".join("%s^%d" % (a.sortkey(), e) for a, e in m), str(c)))
        items.sort()
        return "P[" + " + ".join("%s·%s" % (c, m) for m, c in items) + "]"

    def atoms(self):
        s = set()
        for m in self.terms:
            for a, _ in m:
                s.add(a)
        return s

    def __repr__(self):
        if not self.terms:
            return "0"
        parts = []
        for m, c in sorted(self.terms.items(), key=lambda mc: [(a.sortkey(), e) for a, e in mc[0]]):
            ms = "*".join(("%r" % (a,)) + ("^%d" % e if e != 1 else "") for a, e in m)
            parts.append("%s%s" % (c, ("*" + ms) if ms else ""))
        return "(" + " + ".join(parts) + ")"


def kind_join(a, b):
    if a is None:
        return b
    if b is None:
        return a
    if a == b:
        return a
    if "dec" in (a, b) and "flt" in (a, b):
        return "mixed"
    if "mixed" in (a, b):
        return "mixed"
    if "dec" in (a, b):
        return "dec"
    if "flt" in (a, b):
        return "flt"
    return a


def mono_mul(m1, m2):
    d = {}
    for a, e in m1:
        d[a] = d.get(a, 0) + e
    for a, e in m2:
        d[a] = d.get(a, 0) + e
    return tuple(sorted(d.items(), key=lambda ae: ae[0].sortkey()))


def p_add(a, b, sign=1):
    t = dict(a.terms)
    for m, c in b.terms.items():
        t[m] = t.get(m, Fraction(0)) + sign * c
    return P(t, kind_join(a.kind, b.kind))


def p_mul(a, b):
    t = {}
    if len(a.terms) * len(b.terms) > 200000:
        raise OverflowError("polynomial too large")
    for m1, c1 in a.terms.items():
        for m2, c2 in b.terms.items():
            m = mono_mul(m1, m2)
            t[m] = t.get(m, Fraction(0)) + c1 * c2
    return P(t, kind_join(a.kind, b.kind))


def p_neg(a):
    return P(dict((m, -c) for m, c in a.terms.items()), a.kind)


def p_pow(a, n):
    r = P.const(1, a.kind)
    for _ in range(n):
        r = p_mul(r, a)
    return r


def kind_of_const(v):
    if isinstance(v, Dec):
        return "dec"
    if isinstance(v, Flt):
        return "flt"
    if isinstance(v, int) and not isinstance(v, bool):
        return "int"
    return None


def kind_of_value(v):
    return kind_of_const(v)


# ---------------------------------------------------------------------------------------------
# boolean terms


class Cmp(Term):
    """poly <op> 0, normalised."""

    def __init__(self, op, poly):
        self.op = op
        self.poly = poly

    def _sortkey(self):
        return "CMP[%s|%s]" % (self.op, self.poly.sortkey())

    def __repr__(self):
        return "(%r %s 0)" % (self.poly, self.op)


class BoolOp(Term):
    def __init__(self, op, args):
        self.op = op  # and | or | not
        self.args = tuple(args)

    def _sortkey(self):
        ks = [a.sortkey() for a in self.args]
        if self.op in ("and", "or"):
            ks = sorted(set(ks))
        return "B[%s|%s]" % (self.op, ",".join(ks))

    def __repr__(self):
        if self.op == "not":
            return "not %r" % (self.args[0],)
        return "(" + (" %s " % self.op).join(repr(a) for a in self.args) + ")"


TRUE = Const(True)
FALSE = Const(False)

FLIP = {"<": ">", "<=": ">=", ">": "<", ">=": "<=", "==": "==", "!=": "!="}
NEGATE = {"<": ">=", "<=": ">", ">": "<=", ">=": "<", "==": "!=", "!=": "=="}


def may_nan(t):
    if isinstance(t, Fin):
        return any(v is NAN for v in t.table.values())
    if isinstance(t, P):
        return any(may_nan(a) for a in t.atoms())
    if isinstance(t, App):
        return any(may_nan(a) for a in t.args if isinstance(a, Term))
    if isinstance(t, Const):
        return t.v is NAN
    return False


def mk_cmp(op, a, b):
    """a <op> b for polynomials."""
    p = p_add(a, b, -1)
    if p.is_const():
        c = p.const_value()
        return Const(
            {"<": c < 0, "<=": c <= 0, ">": c > 0, ">=": c >= 0, "==": c == 0, "!=": c != 0}[op]
        )
    # normalise sign: smallest monomial (by key) gets a positive coefficient
    items = sorted(p.terms.items(), key=lambda mc: [(x.sortkey(), e) for x, e in mc[0]] if mc[0] else [("~", 0)])
    lead = items[0][1]
    if lead < 0:
        p = p_neg(p)
        op = FLIP[op]
    # scale so that the leading coefficient is 1
    lead = abs(lead)
    if lead != 1:
        p = P(dict((m, c / lead) for m, c in p.terms.items()), p.kind)
    return Cmp(op, p)


# ---------------------------------------------------------------------------------------------
# folding over slots


class Folder(object):
    """Evaluates discrete operations over Fin/Const arguments row by row (decision tables)."""

    def __init__(self, space, dom=None):
        self.space = space
        self.dom = dict(dom) if dom is not None else {}

    def domain(self, slot):
        if slot in self.dom:
            return self.dom[slot]
        return self.space.dom[slot]

    def rows(self, slots):
        slots = tuple(sorted(set(slots)))
        n = 1
        for s in slots:
            n *= len(self.domain(s))
            if n > FOLD_LIMIT:
                return slots, None
        rows = list(itertools.product(*[self.domain(s) for s in slots]))
        for cs, allowed in self.space.constraints:
            if all(c in slots for c in cs):
                idx = [slots.index(c) for c in cs]
                rows = [r for r in rows if tuple(r[i] for i in idx) in allowed]
        return slots, rows

    def can_fold(self, args):
        slots = set()
        for a in args:
            if isinstance(a, Fin):
                slots.update(a.slots)
            elif not isinstance(a, Const):
                return False
        n = 1
        for s in slots:
            n *= len(self.domain(s))
            if n > FOLD_LIMIT:
                return False
        return True

    def fold(self, fn, args):
        """fn(*python values) -> python value, lifted over Fin/Const args. Returns Fin or Const."""
        slots = set()
        for a in args:
            if isinstance(a, Fin):
                slots.update(a.slots)
        slots, rows = self.rows(slots)
        if rows is None:
            return None
        idxs = []
        for a in args:
            if isinstance(a, Fin):
                idxs.append([slots.index(s) for s in a.slots])
            else:
                idxs.append(None)
        table = {}
        for r in rows:
            vals = []
            partial = False
            for a, ix in zip(args, idxs):
                if ix is None:
                    vals.append(a.v)
                else:
                    key = tuple(r[i] for i in ix)
                    if key not in a.table:
                        # the operand was computed under a narrower path condition: this row is
                        # unreachable for it, the result is undefined there as well
                        partial = True
                        break
                    vals.append(a.table[key])
            if not partial:
                table[r] = fn(*vals)
        return self.simplify(Fin(slots, table))

    def simplify(self, f):
        """Drop slots the function does not depend on; collapse to Const when constant."""
        if not isinstance(f, Fin):
            return f
        slots = list(f.slots)
        table = f.table
        changed = True
        while changed and slots:
            changed = False
            for i, s in enumerate(slots):
                groups = {}
                dep = False
                for k, v in table.items():
                    k2 = k[:i] + k[i + 1 :]
                    if k2 in groups:
                        g = groups[k2]
                        if g is not v and (type(g) is not type(v) or ckey(g) != ckey(v)):
                            dep = True
                            break
                    else:
                        groups[k2] = v
                if not dep:
                    table = groups
                    slots.pop(i)
                    changed = True
                    break
        if not slots:
            vs = list(table.values())
            if not vs:
                return Fin((), {})
            return Const(vs[0])
        return Fin(tuple(slots), table)

    def restrict(self, f):
        """Restrict a Fin to the current (possibly refined) domains."""
        if not isinstance(f, Fin):
            return f
        slots, rows = self.rows(f.slots)
        if rows is None:
            return f
        table = dict((r, f.table[r]) for r in rows if r in f.table)
        return self.simplify(Fin(slots, table))


def fin_of_slot(space, slot, dom=None):
    d = (dom or {}).get(slot, space.dom[slot])
    return Fin((slot,), dict(((v,), v) for v in d))
