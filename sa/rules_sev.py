"""C09 rules: severity scale (decision table on the 0.0..10.0 grid), quantised typestate, range
bounds, agreement between severities(), the v4 severity attribute and the JSON output."""

from __future__ import annotations

from fractions import Fraction

from . import terms as T
from .absnum import Bounds
from .canon import Canon
from .consteval import Dec, Flt, is_num, qof
from .interp import Dead, Ref, TupleVal
from .interp_expr import deps_of
from .rules_score import SCORE_ATTRS, get_model, score_writer
from .srcmodel import AnalysisError, short
from .terms import ABSENT, App, BoolOp, Cmp, Const, Fin, Opaque, P, Term

GRID = [Fraction(i, 10) for i in range(0, 101)]


def score_slots(v):
    return SCORE_ATTRS if v in (2, 3) else ("base_score",)


def sym_name(i):
    return "S%d" % i


def sym_state(ctx, v):
    """Constructed state with the score attributes replaced by fresh symbols S0,S1,S2."""
    key = ("symstate", v)
    if key in ctx.memo:
        return ctx.memo[key]
    om = get_model(ctx, v)
    st = om.st.copy()
    inst = st.heap[om.self_ref.id]
    syms = []
    for i, a in enumerate(score_slots(v)):
        sym = P.atom(Opaque(sym_name(i)), "dec" if v in (2, 3) else "flt")
        # the symbolic score ranges over [0, 10]: that is what C09.range establishes for the real one
        om.ev.__dict__.setdefault("opaque_bounds", {})[sym_name(i)] = (Fraction(0), Fraction(10))
        inst.attrs[a] = sym
        syms.append(sym)
    if v == 4:
        f = ctx.repo.method("cvss4", "CVSS4", "compute_severity")
        om.ev.run_method(st, om.self_ref, f)
    ctx.memo[key] = (om, st, syms)
    return ctx.memo[key]


def eval_with(om, st, term, values):
    """Evaluate a term with S_i := values[i] (Fractions or None)."""
    subst = {}
    for i, q in values.items():
        atom = Opaque(sym_name(i))
        rep = Const(None) if q is None else P.const(q, "dec")
        subst[atom.sortkey()] = rep
        subst[P.atom(atom, "dec").sortkey()] = rep
        subst[P.atom(atom, "flt").sortkey()] = rep
    cn = Canon(om.ev, st, subst)
    return cn(term)


def official_label(spec, q):
    for label, lo, hi in spec["scale"]:
        if Fraction(lo) <= q <= Fraction(hi):
            return label
    return None


def check_scale(ctx, led, v, rule="C09.scale"):
    om, st, syms = sym_state(ctx, v)
    spec = ctx.vspec(v)
    f = ctx.repo.method(om.modname, om.clsname, "severities")
    where = om.module.where(f.node)
    st2 = st.copy()
    val = om.ev.run_method(st2, om.self_ref, f)
    items = list(val.items) if isinstance(val, TupleVal) else None
    if items is None and isinstance(val, Ref) and st2.heap[val.id].kind == "list":
        items = [x for _, x in st2.heap[val.id].items]
    slots = score_slots(v)
    if items is None or len(items) != len(slots):
        led.violation(rule, "%s.severities::return" % om.clsname, where, "severities() does not return %d ratings: %r" % (len(slots), val))
        return 0
    n = 0
    for i, a in enumerate(slots):
        d = set(x for x in deps_of(items[i]) if x.startswith("opaque:S"))
        led.check(
            d == {"opaque:" + sym_name(i)},
            "C09.agree",
            "%s.severities()[%d]" % (om.clsname, i),
            where,
            "severities()[%d] must be computed from self.%s only (depends on %s)" % (i, a, sorted(d)),
        )
        bad = []
        for q in GRID:
            n += 1
            r = eval_with(om, st2, items[i], {i: q})
            want = official_label(spec, q)
            if not (isinstance(r, Const) and r.v == want):
                bad.append((float(q), r.v if isinstance(r, Const) else repr(r)[:40], want))
        if v == 2 and i > 0:
            n += 1
            st3 = st.copy()
            st3.heap[om.self_ref.id].attrs[a] = Const(None)
            try:
                val3 = om.ev.run_method(st3, om.self_ref, f)
                r = val3.items[i] if isinstance(val3, TupleVal) else None
            except Dead:
                r = None
            if not (isinstance(r, Const) and r.v == spec["undefined_label"]):
                bad.append((None, r.v if isinstance(r, Const) else repr(r)[:40], spec["undefined_label"]))
        led.check(
            not bad,
            rule,
            "%s.severities()[%d] scale" % (om.clsname, i),
            where,
            "rating differs from the official scale on %d grid point(s), e.g. score %s -> %r, official %r"
            % ((len(bad),) + (bad[0] if bad else (None, None, None))),
        )
    if v == 4:
        inst = st.heap[om.self_ref.id]
        sev = inst.attrs.get("severity")
        same = isinstance(items[0], Term) and isinstance(sev, Term) and Canon(om.ev, st2)(items[0]) == Canon(om.ev, st)(sev)
        led.check(
            same,
            "C09.agree",
            "CVSS4.severities() vs severity attribute",
            where,
            "severities()[0] must be the severity attribute computed from base_score",
        )
    return n


def is_quantised(t, depth=0):
    """Typestate: a one-decimal constant, a quantize(.,0.1,.) result, min/max/ITE of such, None."""
    if depth > 12:
        return False
    if isinstance(t, Const):
        if t.v is None:
            return True
        return is_num(t.v) and (qof(t.v) * 10).denominator == 1
    if isinstance(t, P):
        if t.is_const():
            return (t.const_value() * 10).denominator == 1
        if len(t.terms) == 1:
            ((m, c),) = t.terms.items()
            if c == 1 and len(m) == 1 and m[0][1] == 1:
                return is_quantised(m[0][0], depth + 1)
        # b + k*[c] with one-decimal parts (counter idiom) does not occur for scores
        return False
    if isinstance(t, App):
        if t.op == "quant":
            return (Fraction(t.attrs[0]) * 10).denominator == 1
        if t.op in ("min", "max"):
            return all(is_quantised(a, depth + 1) for a in t.args)
        if t.op == "ite":
            return is_quantised(t.args[1], depth + 1) and is_quantised(t.args[2], depth + 1)
        if t.op == "float":
            return is_quantised(t.args[0], depth + 1)
    return False


def prints_one_decimal(t, depth=0):
    """Stricter typestate for str() of a Decimal: the *representation* has exactly one decimal digit
    (a quantize(., 0.1, .) result, or a selection among such).  Decimal('10') has the value of a
    one-decimal number but prints as '10': a constant whose spelling is not known does not qualify."""
    if depth > 12:
        return False
    if isinstance(t, Const):
        return t.v is None
    if isinstance(t, P):
        if t.is_const():
            import re

            txt = getattr(t, "dec_text", None)
            return isinstance(txt, str) and re.match(r"^\s*[+-]?\d+\.\d\s*$", txt) is not None
        if len(t.terms) == 1:
            ((m, c),) = t.terms.items()
            if c == 1 and len(m) == 1 and m[0][1] == 1:
                return prints_one_decimal(m[0][0], depth + 1)
        return False
    if isinstance(t, App):
        if t.op == "quant":
            return Fraction(t.attrs[0]) == Fraction(1, 10)
        if t.op in ("min", "max"):
            return all(prints_one_decimal(a, depth + 1) for a in t.args)
        if t.op == "ite":
            return prints_one_decimal(t.args[1], depth + 1) and prints_one_decimal(t.args[2], depth + 1)
    return False


def check_quantised(ctx, led, v, rule="C09.quantised"):
    om = get_model(ctx, v)
    n = 0
    for a in score_slots(v):
        t = om.attr(a)
        fn, stmt, where = score_writer(om, a)
        n += 1
        led.check(
            is_quantised(t),
            rule,
            "%s::%s" % (fn, stmt),
            where,
            "the value flowing into self.%s is not (a min/max/selection of) values quantised to one decimal: float noise or "
            "extra decimals can appear in scores()" % a,
        )
    # scores() applies only float()
    n0 = len(om.ev.events)
    val, st, evs = om.call("scores")
    for e in om.ev.events[n0:]:
        if e.kind == "arith_after_float":
            led.violation(
                rule + ".out",
                "%s::%s" % (e.func.qualname if e.func else "?", short(e.node)),
                e.where(),
                "floating-point arithmetic is applied to an already rounded score: the result need not have one decimal",
            )
    items = list(val.items) if isinstance(val, TupleVal) else []
    f = ctx.repo.method(om.modname, om.clsname, "scores")
    for i, x in enumerate(items):
        n += 1
        led.check(
            is_quantised(x),
            rule + ".out",
            "%s.scores()[%d]" % (om.clsname, i),
            om.module.where(f.node),
            "scores()[%d] applies arithmetic after rounding" % i,
        )
    return n


def check_range(ctx, led, v, rule="C09.range"):
    om = get_model(ctx, v)
    n = 0
    if v == 3:
        from .rules_score import v3_cases

        cases = [("3.%s S:%s MS:%s" % (c[0], c[1], "absent" if c[2] is ABSENT else c[2]), st) for c, st in v3_cases(om)]
    else:
        cases = [("", om.st)]
    for a in score_slots(v):
        fn, stmt, where = score_writer(om, a)
        worst = None
        for label, st in cases:
            cn = Canon(om.ev, st)
            t = cn(om.attr(a))
            b = Bounds(om.ev, st)
            arms = [t]
            if isinstance(t, App) and t.op == "ite":
                arms = [x for x in t.args[1:] if not (isinstance(x, Const) and x.v is None)]
            for arm in arms:
                r = b.term(arm if isinstance(arm, P) else om.ev.to_poly(st, arm, None))
                n += 1
                ok = r is not None and r[0] is not None and r[1] is not None and r[0] >= 0 and r[1] <= 10
                if not ok and worst is None:
                    worst = (label, r)
        led.check(
            worst is None,
            rule,
            "%s::%s" % (fn, stmt),
            where,
            "cannot bound self.%s within [0, 10]: interval/vertex analysis gives %s%s"
            % (a, _fmt(worst[1]) if worst else "", (" in case " + worst[0]) if worst and worst[0] else ""),
        )
    return n


def _fmt(r):
    if r is None:
        return "no bound"
    return "[%s, %s]" % tuple("?" if x is None else str(float(x)) for x in r)


NOT_EVALUATED = "<not evaluated>"  # the value graph of a field did not reduce to a constant at a grid point


def check_json_scores(ctx, led, v, rule="C09.agree.json"):
    """as_json: each *Score key is float of the attribute of the same slot and each *Severity key is
    the upper-snake-case rating of the same slot."""
    om, st, syms = sym_state(ctx, v)
    spec = ctx.vspec(v)
    f = ctx.repo.method(om.modname, om.clsname, "as_json")
    where = om.module.where(f.node)
    st2 = st.copy()
    val = om.ev.run_method(st2, om.self_ref, f, [], {"sort": Const(False), "minimal": Const(False)})
    o = st2.heap[val.id]
    names = {0: "base", 1: "temporal", 2: "environmental"}
    n = 0
    out = {}
    for i, a in enumerate(score_slots(v)):
        sk, vk = names[i] + "Score", names[i] + "Severity"
        n += 1
        if sk not in o.entries:
            led.violation(rule, "%s.as_json[%s]" % (om.clsname, sk), where, "key %s is never emitted" % sk)
        else:
            x = o.entries[sk][1]
            d = set(y for y in deps_of(x) if y.startswith("opaque:S"))
            led.check(
                d == {"opaque:" + sym_name(i)},
                rule,
                "%s.as_json[%s]" % (om.clsname, sk),
                where,
                "%s must be the score of slot %d (self.%s); it depends on %s" % (sk, i, a, sorted(d)),
            )
            # value: float(score) for a defined score
            r = eval_with(om, st2, x, {i: Fraction(37, 10)})
            good = isinstance(r, P) and r.is_const() and r.const_value() == Fraction(37, 10)
            if isinstance(r, P) and not r.is_const():
                atoms = list(r.atoms())
                good = len(atoms) == 1 and isinstance(atoms[0], App) and atoms[0].op == "float" and atoms[0].args[0].is_const() and atoms[0].args[0].const_value() == Fraction(37, 10)
            led.check(good, rule + ".value", "%s.as_json[%s]" % (om.clsname, sk), where, "%s is not float(score): score 3.7 gives %r" % (sk, r))
        if v == 2:
            continue
        if vk not in o.entries:
            led.violation(rule, "%s.as_json[%s]" % (om.clsname, vk), where, "key %s is never emitted" % vk)
            continue
        x = o.entries[vk][1]
        d = set(y for y in deps_of(x) if y.startswith("opaque:S"))
        led.check(
            d == {"opaque:" + sym_name(i)},
            rule,
            "%s.as_json[%s]" % (om.clsname, vk),
            where,
            "%s must be the rating of slot %d; it depends on %s" % (vk, i, sorted(d)),
        )
        table = {}
        for q in GRID:
            r = eval_with(om, st2, x, {i: q})
            table[q] = r.v if isinstance(r, Const) else NOT_EVALUATED
        out[vk] = table
    # the same pairing must hold when optional groups are left out (minimal=True): whichever of
    # the score / severity keys is emitted depends on its own slot's symbol only
    if v in (2, 3):
        st3 = st.copy()
        try:
            val3 = om.ev.run_method(st3, om.self_ref, f, [], {"sort": Const(False), "minimal": Const(True)})
            o3 = st3.heap[val3.id]
        except Exception:
            o3 = None
        if o3 is not None and getattr(o3, "kind", None) == "map":
            for i, a in enumerate(score_slots(v)):
                for key in (names[i] + "Score", names[i] + "Severity"):
                    if key not in o3.entries:
                        continue
                    x = o3.entries[key][1]
                    d = set(y for y in deps_of(x) if y.startswith("opaque:S"))
                    n += 1
                    led.check(
                        d <= {"opaque:" + sym_name(i)},
                        rule + ".minimal",
                        "%s.as_json(minimal=True)[%s]" % (om.clsname, key),
                        where,
                        "with minimal=True %s must still be derived from slot %d (self.%s) only; it depends on %s" % (key, i, a, sorted(d)),
                    )
    return n, out
