"""C08 / C10.vectorString: language inclusion between emitted / accepted vector languages and the
official vectorString patterns (E7)."""

from __future__ import annotations

from . import rx
from .ctx import VERSIONS
from .objmodel import metric_slot
from .rules_out import check_clean_vector
from .rules_parse import parse_summary
from .rules_score import get_model
from .srcmodel import AnalysisError
from .terms import ABSENT

SCHEMA_OF_PREFIX = {
    "": "cvss-v2.0.json",
    "CVSS:3.0/": "cvss-v3.0.json",
    "CVSS:3.1/": "cvss-v3.1.json",
    "CVSS:4.0/": "cvss-v4.0.json",
}


def pattern_dfa(ctx, schema_name):
    key = ("dfa", schema_name)
    if key not in ctx.memo:
        sch = ctx.schema(schema_name)
        pat = sch["properties"]["vectorString"]["pattern"]
        ctx.memo[key] = (rx.DFA(pat), pat)
    return ctx.memo[key]


def emitted_fields(ctx, v, order, include_nd=False):
    om = get_model(ctx, v)
    spec = ctx.vspec(v)
    nd = spec["nd"]
    fields = []
    for k in order:
        vals = [x for x in om.accepted.get(k, []) if (include_nd or x != nd)]
        fields.append((k, ["%s:%s" % (k, x) for x in vals], k in spec["mandatory"]))
    return fields


def check_emitted_language(ctx, led, v, emitted, rule="C08.official"):
    """clean_vector() (and therefore rh_vector()'s vector part): ordered optional fields."""
    om = get_model(ctx, v)
    if "default" not in emitted:
        return 0
    order, val, st = emitted["default"]
    f = ctx.repo.method(om.modname, om.clsname, "clean_vector")
    where = om.module.where(f.node)
    prefixes = [""] if v == 2 else (["CVSS:3.%s/" % m for m in om.space.dom["minor"]] if v == 3 else ["CVSS:4.0/"])
    n = 0
    fields = emitted_fields(ctx, v, order)
    for p in prefixes:
        sname = SCHEMA_OF_PREFIX.get(p)
        if sname is None:
            led.violation(rule, "%s.clean_vector prefix %r" % (om.clsname, p), where, "no official grammar for prefix %r" % p)
            continue
        dfa, pat = pattern_dfa(ctx, sname)
        ok, witness = rx.ordered_language_included(dfa, [p], fields)
        n += 1
        tname = "constants%d.METRICS_ABBREVIATIONS" % v
        led.check(
            ok,
            rule,
            "%s key order -> %s.clean_vector [%s]" % (tname, om.clsname, p or "v2"),
            where,
            "the cleaned vector (and the vector part of rh_vector) can leave the official vector-string grammar of %s: "
            "e.g. %r does not match the schema's vectorString pattern (emission order %s)" % (sname, witness, order),
        )
    return n


def check_builder_language(ctx, led, v, rule="C08.official"):
    """String returned by the interactive builder: prefix + fields in the asked order, each with
    any legal value including the explicit Not Defined token."""
    om = get_model(ctx, v)
    spec = ctx.vspec(v)
    const = VERSIONS[v]["const"]
    abbr = ctx.ce.table(const, "METRICS_ABBREVIATIONS", rule)
    mand = ctx.ce.table(const, "METRICS_MANDATORY", rule)
    names = ctx.ce.table(const, "METRICS_VALUE_NAMES", rule)
    n = 0
    prefixes = {2: [""], 3: ["CVSS:3.0/", "CVSS:3.1/"], 4: ["CVSS:4.0/"]}[v]
    # the order of the fields is the order in which the builder appends them: read off the value
    # graph of ask_interactively (semantic analysis of C16), not assumed from a table
    from .rules_inter import NUM_OF_VERSION, check_builder_semantics
    from .rules_parse import NullLedger

    if ("builder_order",) not in ctx.memo:
        check_builder_semantics(ctx, NullLedger())
    found = ctx.memo.get(("builder_order",), {})
    cases = []
    for (version, all_metrics), order in sorted(found.items(), key=lambda kv: (str(kv[0][0]), kv[0][1])):
        if NUM_OF_VERSION.get(version, {3: 3, 4: 4}.get(version)) == v:
            cases.append(("all metrics" if all_metrics else "mandatory", version, order))
    if not cases:
        # the semantic analysis of the builder did not arrive at "one field per asked metric" for this
        # version: that is reported (violation or analysis error) by the C08.builder.* rules, which
        # run the same analysis under this property's name; there is no language to compare here
        led.info(rule, "ask_interactively [v%d]" % v, "cvss/interactive.py", "field order of the builder not available: see C08.builder.*")
        return 0
    for label, version, order in cases:
        fields = []
        for k in order:
            vals = list(names.get(k, {}).keys()) if isinstance(names.get(k), dict) else []
            # every asked metric is answered exactly once: all fields are present
            fields.append((k, ["%s:%s" % (k, x) for x in vals], True))
        from .rules_inter import PREFIX_FOR

        for p in [PREFIX_FOR[version]]:
            dfa, pat = pattern_dfa(ctx, SCHEMA_OF_PREFIX[p])
            ok, witness = rx.ordered_language_included(dfa, [p], fields)
            n += 1
            led.check(
                ok,
                rule,
                "ask_interactively(version=%r, %s) [%s]" % (version, label, p or "v2"),
                "cvss/interactive.py",
                "the interactive builder can return a string outside the official grammar: e.g. %r (fields are appended in the order %s)" % (witness, order),
            )
    return n


def check_accepted_language(ctx, led, v, rule="C10.vectorString"):
    """vectorString echoes the input: the accepted language (any order) must be inside the pattern."""
    om = get_model(ctx, v)
    spec = ctx.vspec(v)
    summ = parse_summary(ctx, v)
    n = 0
    strings = []
    for k, vals in sorted(om.accepted.items()):
        strings.extend("%s:%s" % (k, x) for x in vals)
    for p in sorted(summ["prefixes"]):
        sname = SCHEMA_OF_PREFIX.get(p)
        if sname is None:
            led.violation(rule, "CVSS%d accepted prefix %r" % (v, p), "cvss/", "no official grammar for accepted prefix %r" % p)
            continue
        dfa, pat = pattern_dfa(ctx, sname)
        ok, witness = rx.free_language_included(dfa, [p], strings)
        n += 1
        if not ok:
            # the superset (any order, repetitions) is not included: look for a witness inside the
            # real accepted language: mandatory fields first, then optional ones in the parser's
            # own table order and in reverse
            mand = spec["mandatory"]
            opt = [k for k in om.accepted if k not in mand]
            first = dict((k, "%s:%s" % (k, om.accepted[k][-1])) for k in om.accepted)
            real = None
            for order in (mand + opt, mand + list(reversed(opt)), list(reversed(mand)) + opt):
                w = p + "/".join(first[k] for k in order)
                if not dfa.fullmatch(w):
                    real = w
                    break
            if real is None:
                # superset failed only on strings the parser rejects (duplicates): accepted language is fine
                led.ok(rule, "CVSS%d accepted language [%s]" % (v, p or "v2"), "cvss/", "no accepted witness outside the pattern")
                continue
            led.violation(
                rule,
                "%s.as_json::vectorString echoes an order-free input [%s]" % (om.clsname, p or "v2"),
                "cvss/%s.py" % om.modname,
                "the parser accepts fields in any order and as_json() echoes the input as vectorString, but the official "
                "pattern of %s fixes the order: e.g. accepted input %r does not match" % (sname, real),
            )
        else:
            led.ok(rule, "CVSS%d accepted language [%s]" % (v, p or "v2"), "cvss/", "every sequence of legal fields matches the pattern")
    return n
