"""C04 structural rules on the three parse_vector / check_mandatory / __init__ methods, and the
parse summary other analyses use as the model of the state after parsing."""

from __future__ import annotations

import ast

from . import guards as G
from .ctx import VERSIONS
from .srcmodel import AnalysisError, norm_src, short

NORMALISERS = (
    "strip lstrip rstrip upper lower casefold title capitalize swapcase replace translate "
    "expandtabs encode decode format zfill center ljust rjust removeprefix removesuffix".split()
)


class NullLedger(object):
    def ok(self, *a, **k):
        pass

    def info(self, *a, **k):
        pass

    def undecided(self, *a, **k):
        pass

    def violation(self, *a, **k):
        pass

    def check(self, cond, *a, **k):
        return cond

    def count(self, *a, **k):
        pass

    def require_min(self, *a, **k):
        pass


class InfoLedger(object):
    """Forwards obligations to a ledger but records violations as information only (used for
    structural sub-facts that are stricter than the property needs)."""

    def __init__(self, led):
        self.led = led

    def ok(self, *a, **k):
        return self.led.ok(*a, **k)

    def info(self, *a, **k):
        return self.led.info(*a, **k)

    def undecided(self, *a, **k):
        return self.led.undecided(*a, **k)

    def violation(self, rule, construct_key, where, what, expected=None, found=None):
        self.led.info(rule, construct_key, where, "not as on the pinned tree (informational): " + what)

    def check(self, cond, rule, construct_key, where, what, expected=None, found=None, detail=None):
        if cond:
            self.led.ok(rule, construct_key, where, detail)
        else:
            self.violation(rule, construct_key, where, what)
        return cond

    def count(self, *a, **k):
        return self.led.count(*a, **k)

    def require_min(self, *a, **k):
        return self.led.require_min(*a, **k)


class RelabelLedger(object):
    """Forwards the obligations of a rule set that another property owns, renamed under this
    property's prefix, so that a property whose argument rests on them reports their failure itself.
    `keep` restricts the forwarded rules (prefix match); others are dropped."""

    def __init__(self, led, prefix, keep=None, strip=None):
        self.led = led
        self.prefix = prefix
        self.keep = keep
        self.strip = strip

    def _name(self, rule):
        if self.keep is not None and not any(rule == k or rule.startswith(k + ".") for k in self.keep):
            return None
        r = rule
        if self.strip and r.startswith(self.strip):
            r = r[len(self.strip) :].lstrip(".")
        else:
            r = r.split(".", 1)[1] if "." in r else r
        return self.prefix + ("." + r if r else "")

    def ok(self, rule, *a, **k):
        n = self._name(rule)
        return self.led.ok(n, *a, **k) if n else True

    def info(self, rule, *a, **k):
        n = self._name(rule)
        return self.led.info(n, *a, **k) if n else True

    def undecided(self, rule, *a, **k):
        n = self._name(rule)
        return self.led.undecided(n, *a, **k) if n else True

    def violation(self, rule, *a, **k):
        n = self._name(rule)
        return self.led.violation(n, *a, **k) if n else True

    def check(self, cond, rule, *a, **k):
        n = self._name(rule)
        return self.led.check(cond, n, *a, **k) if n else cond

    def count(self, *a, **k):
        return True

    def require_min(self, *a, **k):
        return True


def is_self_attr(node, attr=None):
    return (
        isinstance(node, ast.Attribute)
        and isinstance(node.value, ast.Name)
        and node.value.id == "self"
        and (attr is None or node.attr == attr)
    )


def call_of(node, attr):
    """node is <recv>.<attr>(...) -> (recv, args) else None"""
    if isinstance(node, ast.Call) and isinstance(node.func, ast.Attribute) and node.func.attr == attr:
        return node.func.value, node.args
    return None


def chain_arms(ifnode):
    """Flatten an if/elif/else chain into arms [(facts, body)] with facts = [(expr, pol)]."""
    arms = []
    neg = []
    node = ifnode
    while True:
        f = list(neg)
        G.split_fact(node.test, True, f)
        arms.append((f, node.body))
        G.split_fact(node.test, False, neg)
        if len(node.orelse) == 1 and isinstance(node.orelse[0], ast.If):
            node = node.orelse[0]
            continue
        arms.append((list(neg), node.orelse))
        break
    return arms


def raise_class(ctx, module, st, cls=None):
    """Name of the exception class a Raise statement raises (resolved), or None.  With the class
    the method is analysed for, `self.X` / `cls.X` / `Class.X` is followed to a class-level binding
    of X (own or inherited) that names an exception class."""
    if st.exc is None:
        return "<re-raise>"
    n = st.exc.func if isinstance(st.exc, ast.Call) else st.exc
    if isinstance(n, ast.Name):
        r = ctx.repo.resolve_global(module, n.id)
        if r and r[0] == "class":
            return r[1].name
        return n.id
    if cls is not None and isinstance(n, ast.Attribute) and isinstance(n.value, ast.Name) and n.attr in getattr(cls, "class_assigns", {}):
        cm, cnode = cls.class_assigns[n.attr]
        if isinstance(cnode, ast.Name):
            r = ctx.repo.resolve_global(cm, cnode.id)
            if r and r[0] == "class":
                return r[1].name
    return norm_src(n)


def exception_hierarchy(ctx):
    """class name -> list of ancestors (names) inside exceptions.py"""
    m = ctx.repo.module("exceptions")
    parents = {}
    for name, c in m.classes.items():
        parents[name] = [b.id for b in c.node.bases if isinstance(b, ast.Name)]
    anc = {}

    def up(n, seen=()):
        out = []
        for p in parents.get(n, []):
            if p in seen:
                continue
            out.append(p)
            out.extend(up(p, seen + (n,)))
        return out

    for n in parents:
        anc[n] = up(n)
    return anc


class _IdiomArbitrated(object):
    """Ledger wrapper used when the semantic analysis of the parse phase found nothing wrong on its
    representative inputs: a structural (idiom) rule the semantic analysis covers — stores, guards,
    split, prefix, raise classes of the parse phase — that does not recognise the code is recorded
    as information, not as a violation."""

    COVERED = ("C04.store", "C04.prefix", "C04.raw")

    def __init__(self, led):
        self.led = led

    def _covered(self, rule, ck):
        if any(rule == c or rule.startswith(c + ".") for c in self.COVERED):
            return True
        return rule == "C04.kinds" and "parse_vector" in (ck or "")

    def ok(self, *a, **k):
        return self.led.ok(*a, **k)

    def info(self, *a, **k):
        return self.led.info(*a, **k)

    def undecided(self, *a, **k):
        return self.led.undecided(*a, **k)

    def count(self, *a, **k):
        return self.led.count(*a, **k)

    def require_min(self, *a, **k):
        return self.led.require_min(*a, **k)

    def violation(self, rule, construct_key, where, what, **k):
        if self._covered(rule, construct_key):
            return self.led.info(rule, construct_key, where, "idiom not recognised (the semantic analysis of the parse phase agrees with the grammar on all its representatives): " + what)
        return self.led.violation(rule, construct_key, where, what, **k)

    def check(self, cond, rule, construct_key, where, what, **k):
        if cond:
            return self.led.check(cond, rule, construct_key, where, what, **k)
        self.violation(rule, construct_key, where, what)
        return cond


def semantic_verdict(ctx, v):
    """(n decided, n unknown, discrepancies, n representatives) or an AnalysisError instance."""
    key = ("parse_semantic_verdict", v)
    if key not in ctx.memo:
        try:
            from .rules_parse_sem import check_semantics, get_semantics

            n, unknown, bad = check_semantics(ctx, None, v)
            ctx.memo[key] = (n, unknown, bad, len(get_semantics(ctx, v).R))
        except AnalysisError as e:
            ctx.memo[key] = e
        except RecursionError:
            ctx.memo[key] = AnalysisError("C04.semantic", "interpretation of the parse phase did not terminate")
    return ctx.memo[key]


def parse_summary(ctx, v, led=None):
    """Analyse CVSSn.__init__/parse_vector/check_mandatory.  Records C04.* obligations on `led`
    (if given) and returns the summary dict used as the post-parse model.

    Two analyses: the structural (idiom) rules, which are a proof where they recognise the code, and
    the semantic analysis on representative inputs (rules_parse_sem), which decides when they do not:
    clean semantics turn an unrecognised idiom into information (and supply the model if the idiom
    rules cannot even build one); a semantic discrepancy is a violation with a witness vector."""
    key = ("parse_summary", v)
    if led is None and key in ctx.memo:
        return ctx.memo[key]
    if led is None:
        led = NullLedger()
    info = VERSIONS[v]
    sem = semantic_verdict(ctx, v)
    where = "cvss/%s.py" % info["mod"]
    ck = "%s.%s parse phase" % (info["mod"], info["cls"])
    clean = False
    if isinstance(sem, AnalysisError):
        led.info("C04.semantic", ck, where, "the parse phase could not be interpreted on representative inputs (%s): the structural rules decide alone" % sem.message)
    else:
        n_dec, n_unk, bad, n_rep = sem
        clean = not bad and n_unk * 10 <= n_rep
        seen = set()
        for kind, r, msg in bad:
            if kind in seen:
                continue
            seen.add(kind)
            n_same = len([1 for b in bad if b[0] == kind])
            led.violation(
                "C04.semantic." + kind,
                "%s::%s" % (ck, kind),
                where,
                "for the input %r %s (%d of %d representative vectors show this)" % (r, msg, n_same, n_rep),
            )
        if clean:
            led.ok("C04.semantic", ck, where, "%d representative vectors (valid, one-edit neighbours, prefix variants): class, stored fields and minor version as the grammar says; %d not decided" % (n_dec, n_unk))
        elif not bad:
            led.info("C04.semantic", ck, where, "%d of %d representative vectors not decided: the structural rules decide alone" % (n_unk, n_rep))
    suppressed = []
    if isinstance(sem, AnalysisError):
        # neither interpretable nor recognised: the idiom rules the semantic analysis would
        # arbitrate (stores, prefix, raw) know one way of writing the parser; their complaints
        # do not decide code the interpreter could not follow (exit 2 instead of an alarm)
        class _Undecidable(_IdiomArbitrated):
            def violation(self_, rule, ck_, where_, what, **k):
                if self_._covered(rule, ck_):
                    suppressed.append((rule, what))
                    return self_.led.info(rule, ck_, where_, "not recognised by the idiom rule (informational: the parse phase could not be interpreted either): " + what)
                return self_.led.violation(rule, ck_, where_, what, **k)

            def check(self_, cond, rule, ck_, where_, what, **k):
                if not cond and self_._covered(rule, ck_):
                    self_.violation(rule, ck_, where_, what)
                    return False
                return self_.led.check(cond, rule, ck_, where_, what, **k)

        idiom_led = _Undecidable(led)
    else:
        idiom_led = _IdiomArbitrated(led) if clean else led
    try:
        summ = _idiom_summary(ctx, v, idiom_led)
        if suppressed:
            raise AnalysisError(
                "C04.semantic",
                "the parse phase of CVSS%d could not be interpreted (%s) and the idiom rules do not recognise it (%s)" % (v, sem.message, suppressed[0][0]),
            )
        if clean and summ.get("model_gap"):
            sm = _semantic_summary(ctx, v)
            if not sm.get("model_gap"):
                led.info("C04.model", ck, where, "helper calls inside parse_vector (%s): the post-parse model is taken from the semantic analysis" % summ["model_gap"])
                summ["model_gap"] = []
                summ["accepted"] = sm["accepted"]
                if sm.get("prefixes"):
                    summ["prefixes"] = sm["prefixes"]
        if clean and v == 3 and not [m for m in summ.get("prefixes", {}).values() if m is not None]:
            summ["prefixes"] = _semantic_summary(ctx, v)["prefixes"]
    except AnalysisError as e:
        if not clean:
            raise
        led.info("C04.idiom", ck, where, "the structural rules do not apply (%s): the parse phase is decided by the semantic analysis" % e.message)
        summ = _semantic_summary(ctx, v)
    ctx.memo[key] = summ
    return summ


def _semantic_summary(ctx, v):
    """The post-parse model read off the semantic tables (used when the idiom rules cannot)."""
    from .consteval import TDict
    from .rules_parse_sem import get_semantics

    ps = get_semantics(ctx, v)
    info = VERSIONS[v]
    spec = ctx.vspec(v)
    legal = ctx.legal(v)
    accepted = {}
    for f in ps.F:
        out = ps.field_table["empty"].get(f)
        if out and out[0] == "store" and isinstance(out[1][1], str) and f == "%s:%s" % out[1]:
            accepted.setdefault(out[1][0], [])
            if out[1][1] not in accepted[out[1][0]]:
                accepted[out[1][0]].append(out[1][1])
    ordered = {}
    for k in list(legal) + [k for k in accepted if k not in legal]:
        if k in accepted:
            ordered[k] = [x for x in legal.get(k, []) if x in accepted[k]] + [x for x in accepted[k] if x not in legal.get(k, [])]
    prefixes = {}
    for r in ps.R:
        vt = ps.vector_table.get(r)
        if vt and vt[0] == "pass":
            for p in spec["prefixes"]:
                if r.startswith(p) and (p or v == 2):
                    prefixes.setdefault(p, vt[2] if v == 3 else None)
    run = ps.runs["empty"]
    gap = []
    init = ps.cls.methods["__init__"]
    for e in run["events"]:
        if e.kind == "attr_write" and e.func is not None and e.func.qualname != init.qualname:
            a = e.data.get("attr")
            if a not in ("metrics", "minor_version") and a not in gap:
                gap.append("self." + str(a))
    kt = TDict()
    vt_ = TDict()
    for k, vals in ordered.items():
        kt[k] = k
        row = TDict()
        for x in vals:
            row[x] = None
        vt_[k] = row
    return {
        "v": v,
        "module": ps.module,
        "cls": ps.cls,
        "vector_raw": True,
        "phases": [],
        "stores": [],
        "parse_writes": set(),
        "model_gap": gap,
        "keys_table_name": None,
        "vals_table_name": None,
        "keys_table": kt,
        "vals_table": vt_,
        "accepted": ordered,
        "prefixes": prefixes,
        "loop": run["loop"],
        "loop_module": run["ev"].repo.module(info["mod"]),
        "n_raise": len([e for e in run["events"] if e.kind == "raise"]),
        "dropped_segments": None,
        "semantic_only": True,
    }


def _idiom_summary(ctx, v, led):
    info = VERSIONS[v]
    modname, clsname = info["mod"], info["cls"]
    module = ctx.repo.module(modname)
    cls = ctx.repo.cls(modname, clsname)
    pv = ctx.repo.method(modname, clsname, "parse_vector")
    cm = ctx.repo.method(modname, clsname, "check_mandatory")
    init = ctx.repo.method(modname, clsname, "__init__")
    spec = ctx.vspec(v)
    summ = {"v": v, "module": module, "cls": cls}
    tag = "v%d" % v
    malformed = "CVSS%dMalformedError" % v
    mandatory_exc = "CVSS%dMandatoryError" % v

    # ---- __init__: vector stored raw, phase order ------------------------------------------
    params = init.params
    if len(params) < 2:
        raise AnalysisError("C04.init", "%s.__init__ takes no vector parameter" % clsname, init.node, module)
    vec_param = params[1]
    vec_stores = []
    for fn in cls.methods.values():
        for n in ast.walk(fn.node):
            if isinstance(n, (ast.Assign, ast.AugAssign, ast.AnnAssign)):
                targets = n.targets if isinstance(n, ast.Assign) else [n.target]
                for t in targets:
                    for tt in ast.walk(t):
                        if is_self_attr(tt, "vector") and isinstance(tt.ctx, ast.Store):
                            vec_stores.append((fn, n))
    ok = (
        len(vec_stores) == 1
        and vec_stores[0][0] is init
        and isinstance(vec_stores[0][1], ast.Assign)
        and isinstance(vec_stores[0][1].value, ast.Name)
        and vec_stores[0][1].value.id == vec_param
    )
    led.check(
        ok,
        "C04.raw",
        "%s.%s.__init__::self.vector" % (modname, clsname),
        module.where(init.node),
        "self.vector must be stored exactly once, untransformed, from the constructor argument (found %d stores: %s)"
        % (len(vec_stores), "; ".join(short(s) for _, s in vec_stores)),
    )
    summ["vector_raw"] = ok
    phases = []
    for st in init.node.body:
        if isinstance(st, ast.Expr) and isinstance(st.value, ast.Call):
            f = st.value.func
            if is_self_attr(f):
                phases.append(f.attr)
    summ["phases"] = phases
    if "parse_vector" not in phases or "check_mandatory" not in phases:
        raise AnalysisError("C04.phases", "__init__ no longer calls parse_vector/check_mandatory directly", init.node, module)
    ip, im = phases.index("parse_vector"), phases.index("check_mandatory")
    led.check(
        ip == 0 and im == 1,
        "C04.phases",
        "%s.%s.__init__::phase order" % (modname, clsname),
        module.where(init.node),
        "parse_vector then check_mandatory must run before any other phase (order found: %s)" % phases,
    )

    # ---- parse_vector: the field loop ----------------------------------------------------------
    loops = [n for n in ast.walk(pv.node) if isinstance(n, ast.For)]
    stores = []
    for n in ast.walk(pv.node):
        if isinstance(n, ast.Subscript) and isinstance(n.ctx, ast.Store) and is_self_attr(n.value, "metrics"):
            stores.append(n)
    if not stores:
        raise AnalysisError("C04.store", "no store into self.metrics in %s.parse_vector" % clsname, pv.node, module)
    summ["stores"] = stores
    # other writes of parse_vector (must be only metrics[...] and minor_version)
    other_writes = set()
    for n in ast.walk(pv.node):
        if isinstance(n, ast.Attribute) and isinstance(n.ctx, ast.Store) and is_self_attr(n):
            other_writes.add(n.attr)
        if isinstance(n, ast.Call) and isinstance(n.func, ast.Attribute) and is_self_attr(n.func.value):
            if n.func.attr in ("pop", "update", "setdefault", "clear", "append", "extend", "popitem"):
                other_writes.add(n.func.value.attr + "." + n.func.attr + "()")
        if isinstance(n, ast.Call) and is_self_attr(n.func):
            other_writes.add("call:" + n.func.attr)
    summ["parse_writes"] = other_writes
    allowed = {"minor_version"} if v == 3 else set()
    extra = other_writes - allowed
    summ["model_gap"] = sorted(extra)

    keys_tables = set()
    vals_tables = set()
    for store in stores:
        stmt = store
        while not isinstance(stmt, ast.stmt):
            stmt = module.parent(stmt)
        ck = "%s.%s.parse_vector::%s" % (modname, clsname, short(stmt))
        where = module.where(stmt)
        led.count("store_sites")
        kexpr = store.slice
        vexpr = stmt.value if isinstance(stmt, ast.Assign) else None
        if not (isinstance(kexpr, ast.Name) and isinstance(vexpr, ast.Name)):
            led.violation("C04.store", ck, where, "stored key/value are not the raw field components: %s" % short(stmt))
            continue
        mname, vname = kexpr.id, vexpr.id
        # the loop that encloses the store
        eloops = G.enclosing_loops(module, stmt)
        if not eloops:
            led.violation("C04.store", ck, where, "store into the metric map outside the field loop")
            continue
        loop = eloops[-1]
        facts = G.dominating_facts(module, stmt)
        # (1) key in table, (2) value in table[key], (3) key not in self.metrics
        f_key = f_val = f_dup = None
        for f in facts:
            e = f.expr
            if isinstance(e, ast.Compare) and len(e.ops) == 1 and isinstance(e.ops[0], ast.In):
                left, right = e.left, e.comparators[0]
                if isinstance(left, ast.Name) and left.id == mname:
                    if is_self_attr(right, "metrics"):
                        if not f.pol:
                            f_dup = f
                    elif isinstance(right, ast.Name) and f.pol:
                        f_key = (f, right.id)
                    elif isinstance(right, ast.Call) and call_of(right, "keys") and f.pol:
                        r, _ = call_of(right, "keys")
                        if isinstance(r, ast.Name):
                            f_key = (f, r.id)
                if isinstance(left, ast.Name) and left.id == vname and f.pol:
                    r = right
                    if isinstance(r, ast.Call) and call_of(r, "keys"):
                        r = call_of(r, "keys")[0]
                    if (
                        isinstance(r, ast.Subscript)
                        and isinstance(r.value, ast.Name)
                        and isinstance(r.slice, ast.Name)
                    ):
                        f_val = (f, r.value.id, r.slice.id)
        led.check(
            f_dup is not None,
            "C04.store.dup",
            ck,
            where,
            "store is not dominated by a duplicate check (`%s not in self.metrics`): a repeated metric would be "
            "accepted and the last occurrence would win" % mname,
        )
        if f_key is None:
            led.violation(
                "C04.store.key", ck, where, "store is not dominated by a membership test of the metric key in a metric table"
            )
        else:
            keys_tables.add(f_key[1])
            led.ok("C04.store.key", ck, where, "guard: %r" % f_key[0])
        if f_val is None:
            led.violation(
                "C04.store.value", ck, where, "store is not dominated by a membership test of the value in the metric's value table"
            )
        else:
            if f_val[2] != mname:
                led.violation(
                    "C04.store.value",
                    ck,
                    where,
                    "value is tested against the table row of %r, not of the stored metric %r" % (f_val[2], mname),
                )
            else:
                vals_tables.add(f_val[1])
                led.ok("C04.store.value", ck, where, "guard: %r" % f_val[0])
        # (4) the two components come from a two-way split of the loop variable on ':'
        split_ok, split_msg = _check_split(ctx, module, pv, loop, mname, vname, malformed)
        led.check(split_ok, "C04.store.split", ck, where, split_msg)
        # (5) raw components: each name bound exactly once, loop var raw, fields = whole remainder
        raw_ok, raw_msg, drop = _check_raw(module, pv, loop, mname, vname)
        led.check(raw_ok, "C04.store.raw", ck, where, raw_msg)
        summ["dropped_segments"] = drop
        summ["loop"] = loop

    if len(keys_tables) > 1 or len(vals_tables) > 1:
        raise AnalysisError("C04.store", "stores guarded by different tables %s %s" % (keys_tables, vals_tables), pv.node, module)
    kt = keys_tables.pop() if keys_tables else None
    vt = vals_tables.pop() if vals_tables else None
    summ["keys_table_name"], summ["vals_table_name"] = kt, vt
    keys_table = ctx.ce.table(modname, kt, "C04.tables") if kt else None
    vals_table = ctx.ce.table(modname, vt, "C04.tables") if vt else None
    if keys_table is None or vals_table is None:
        # fall back to the tables the pinned tree uses so that dependants can still build a model
        fb_k = "METRICS_VALUE_NAMES" if v == 4 else "METRICS_ABBREVIATIONS"
        fb_v = "METRICS_VALUE_NAMES" if v == 4 else "METRICS_VALUES"
        keys_table = keys_table if keys_table is not None else ctx.ce.table(modname, fb_k)
        vals_table = vals_table if vals_table is not None else ctx.ce.table(modname, fb_v)
    summ["keys_table"], summ["vals_table"] = keys_table, vals_table
    accepted = {}
    for k in keys_table:
        if k in vals_table and isinstance(vals_table[k], dict):
            accepted[k] = list(vals_table[k].keys())
        else:
            accepted[k] = None
    summ["accepted"] = accepted

    # ---- prefix handling -----------------------------------------------------------------------
    _check_prefix(ctx, v, module, pv, summ, led, malformed)

    # ---- kinds of explicit raises ---------------------------------------------------------------
    n_raise = 0
    for n in ast.walk(pv.node):
        if isinstance(n, ast.Raise):
            n_raise += 1
            rc = raise_class(ctx, pv.module, n, cls)
            led.check(
                rc == malformed,
                "C04.kinds",
                "%s.%s.parse_vector::raise %s" % (modname, clsname, rc),
                module.where(n),
                "parse_vector raises %s, the taxonomy requires %s for syntactic faults" % (rc, malformed),
            )
    for n in ast.walk(cm.node):
        if isinstance(n, ast.Raise):
            n_raise += 1
            rc = raise_class(ctx, cm.module, n, cls)
            led.check(
                rc == mandatory_exc,
                "C04.kinds",
                "%s.%s.check_mandatory::raise %s" % (modname, clsname, rc),
                module.where(n),
                "check_mandatory raises %s, the taxonomy requires %s" % (rc, mandatory_exc),
            )
    summ["n_raise"] = n_raise
    anc = exception_hierarchy(ctx)
    for cname in (malformed, mandatory_exc, "CVSS%dRHMalformedError" % v, "CVSS%dRHScoreDoesNotMatch" % v):
        chain = anc.get(cname)
        good = chain is not None and "CVSS%dError" % v in chain and "CVSSError" in chain
        led.check(
            good,
            "C04.hierarchy",
            "exceptions.%s" % cname,
            "cvss/exceptions.py",
            "%s must derive from CVSS%dError and CVSSError (ancestors found: %s)" % (cname, v, chain),
        )
    return summ


def _check_split(ctx, module, pv, loop, mname, vname, malformed):
    """metric, value = <loopvar>.split(':') inside try/except ValueError -> raise Malformed."""
    loopvar = loop.target.id if isinstance(loop.target, ast.Name) else None
    for n in ast.walk(loop):
        if isinstance(n, ast.Assign) and len(n.targets) == 1 and isinstance(n.targets[0], (ast.Tuple, ast.List)):
            names = [e.id for e in n.targets[0].elts if isinstance(e, ast.Name)]
            if names == [mname, vname] and len(n.targets[0].elts) == 2:
                c = call_of(n.value, "split")
                if not c:
                    return False, "the field components are not obtained by split(':'): %s" % short(n)
                recv, args = c
                if not (isinstance(recv, ast.Name) and recv.id == loopvar):
                    return False, "split is not applied to the raw field: %s" % short(n)
                if n.value.keywords or len(args) != 1 or not (isinstance(args[0], ast.Constant) and args[0].value == ":"):
                    return False, "field must be split on ':' without a limit (found %s)" % short(n.value)
                tries = G.enclosing_try_handlers(module, n)
                for t in tries:
                    for h in t.handlers:
                        names_h = G.handler_names(h, module)
                        if any(x in ("ValueError", "Exception", "*", "BaseException") for x in names_h):
                            raises = [x for x in ast.walk(h) if isinstance(x, ast.Raise)]
                            if G.terminates(h.body) and raises and all(
                                raise_class(ctx, module, r) == malformed for r in raises
                            ):
                                return True, "two-way split on ':' with ValueError -> %s" % malformed
                            return False, "ValueError of the two-way unpack is not turned into %s" % malformed
                return False, "two-way unpack of the field is not protected: a field without exactly one ':' escapes as ValueError"
    return False, "no two-target unpack `%s, %s = field.split(':')` found" % (mname, vname)


def _count_bindings(func_node, name):
    n = 0
    for x in ast.walk(func_node):
        if isinstance(x, ast.Name) and x.id == name and isinstance(x.ctx, (ast.Store, ast.Del)):
            n += 1
    return n


def _check_raw(module, pv, loop, mname, vname):
    loopvar = loop.target.id if isinstance(loop.target, ast.Name) else None
    if loopvar is None:
        return False, "loop target is not a simple name", None
    for nm in (mname, vname, loopvar):
        if _count_bindings(pv.node, nm) != 1:
            return False, "name %r is re-bound in parse_vector: the tested/stored value is not the raw component" % nm, None
    it = loop.iter
    if not isinstance(it, ast.Name):
        src = it
        fields_name = None
    else:
        fields_name = it.id
        if _count_bindings(pv.node, fields_name) != 1:
            return False, "field list %r is re-bound" % fields_name, None
        src = None
        for x in ast.walk(pv.node):
            if isinstance(x, ast.Assign) and len(x.targets) == 1 and isinstance(x.targets[0], ast.Name) and x.targets[0].id == fields_name:
                src = x.value
        if src is None:
            return False, "field list %r has no simple definition" % fields_name, None
    drop = 0
    if isinstance(src, ast.Subscript) and isinstance(src.slice, ast.Slice):
        sl = src.slice
        if sl.upper is not None or sl.step is not None:
            return False, "field list is a bounded slice: trailing fields would be ignored", None
        if sl.lower is not None:
            if not (isinstance(sl.lower, ast.Constant) and isinstance(sl.lower.value, int) and sl.lower.value >= 0):
                return False, "field list slice start is not a literal", None
            drop = sl.lower.value
        src = src.value
    c = call_of(src, "split")
    if not c:
        return False, "field list is not self.vector.split('/'): %s" % short(src), None
    recv, args = c
    if not is_self_attr(recv, "vector"):
        return False, "fields are split from %s, not from the raw vector" % short(recv), None
    if src.keywords or len(args) != 1 or not (isinstance(args[0], ast.Constant) and args[0].value == "/"):
        return False, "vector must be split on '/' without a limit (found %s)" % short(src), None
    # no normaliser anywhere on the chain (calls on the names involved)
    for x in ast.walk(pv.node):
        if isinstance(x, ast.Call) and isinstance(x.func, ast.Attribute) and x.func.attr in NORMALISERS:
            r = x.func.value
            if (isinstance(r, ast.Name) and r.id in (mname, vname, loopvar, fields_name)) or is_self_attr(r, "vector"):
                # only flag when the result feeds a binding, a test or the store (messages use .format on literals)
                return False, "normaliser %s() applied to a parsed component" % x.func.attr, None
    return True, "components are the raw '/'- and ':'-split pieces of self.vector", drop


def _check_prefix(ctx, v, module, pv, summ, led, malformed):
    spec = ctx.vspec(v)
    modname = module.name
    loop = summ.get("loop")
    ck = "%s.parse_vector::prefix" % modname
    if loop is None:
        return
    # statements of the function body that precede the loop (top level)
    pre = []
    for st in pv.node.body:
        if st is loop or any(n is loop for n in ast.walk(st)):
            break
        pre.append(st)
    accepted = []  # (prefix literal, facts, assigns)
    has_chain = False
    unconstrained = True
    for st in pre:
        if not isinstance(st, ast.If):
            continue
        arms = chain_arms(st)
        sw_arms = []
        relevant = False
        for facts, body in arms:
            pos = [
                e for e, p in facts
                if p and call_of(e, "startswith") and is_self_attr(call_of(e, "startswith")[0], "vector")
            ]
            anysw = [e for e, p in facts if call_of(e, "startswith") and is_self_attr(call_of(e, "startswith")[0], "vector")]
            if anysw:
                relevant = True
            sw_arms.append((facts, body, pos))
        if not relevant:
            continue
        has_chain = True
        unconstrained = False
        for facts, body, pos in sw_arms:
            if G.terminates(body):
                for r in [x for b in body for x in ast.walk(b) if isinstance(x, ast.Raise)]:
                    pass
                continue
            if not pos:
                led.violation(
                    "C04.prefix",
                    ck,
                    module.where(st),
                    "a path reaches the field loop without a positive prefix test: strings without the version prefix are parsed",
                )
                continue
            lits = []
            for e in pos:
                a = call_of(e, "startswith")[1]
                if len(a) == 1 and isinstance(a[0], ast.Constant) and isinstance(a[0].value, str):
                    lits.append(a[0].value)
                elif len(a) == 1 and isinstance(a[0], ast.Tuple) and all(isinstance(x, ast.Constant) for x in a[0].elts):
                    lits.extend(x.value for x in a[0].elts)
                else:
                    # a name bound to a constant string / tuple of strings at module level
                    val_ = None
                    if len(a) == 1:
                        try:
                            val_ = ctx.ce.eval(module, a[0], "C04.prefix")
                        except AnalysisError:
                            val_ = None
                    if isinstance(val_, str):
                        lits.append(val_)
                    elif isinstance(val_, (list, tuple)) and val_ and all(isinstance(x, str) for x in val_):
                        lits.extend(val_)
                    else:
                        raise AnalysisError("C04.prefix", "non-literal prefix test %s" % short(e), e, module)
            minor = None
            for b in body:
                for n in ast.walk(b):
                    if isinstance(n, ast.Assign) and any(is_self_attr(t, "minor_version") for t in n.targets):
                        if isinstance(n.value, ast.Constant):
                            minor = n.value.value
                        else:
                            raise AnalysisError("C04.prefix", "minor_version assigned a non-literal", n, module)
            for l in lits:
                accepted.append((l, minor, st))
    want = list(spec["prefixes"])
    if want == [""]:
        led.check(
            not has_chain and summ.get("dropped_segments") == 0,
            "C04.prefix",
            ck,
            module.where(pv.node),
            "CVSS v2 has no prefix: no prefix test and no dropped segment expected (dropped=%s)" % summ.get("dropped_segments"),
        )
        summ["prefixes"] = {"": None}
        return
    got = sorted(set(l for l, _, _ in accepted))
    led.check(
        got == sorted(want),
        "C04.prefix",
        ck,
        module.where(pv.node),
        "accepted prefix literals %s differ from the grammar's %s" % (got, sorted(want)),
        expected=sorted(want),
        found=got,
    )
    drop = summ.get("dropped_segments")
    for l in got:
        led.check(
            l.endswith("/") and l.count("/") == drop,
            "C04.prefix.segments",
            ck + "::" + l,
            module.where(pv.node),
            "prefix %r must end with '/' and the %s leading segment(s) dropped must equal its number of '/' (%d): "
            "otherwise 'CVSS:3.0garbage/...' style inputs are accepted or a field is lost" % (l, drop, l.count("/")),
        )
    summ["prefixes"] = dict((l, m) for l, m, _ in accepted)
    if v == 3:
        mo = spec["minor_of_prefix"]
        for l, m, st in accepted:
            if l in mo:
                led.check(
                    m == mo[l],
                    "C04.prefix.minor",
                    ck + "::" + l,
                    module.where(st),
                    "prefix %r must select minor version %r (found %r)" % (l, mo[l], m),
                )
