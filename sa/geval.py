"""Decision-table evaluation of source predicates over constants.

A guard expression of the analysed code is evaluated over a *finite representative set* of inputs
(supplied by the rule) with a small closed evaluator: constants, names bound in an environment,
single-assignment locals of the enclosing function (followed to their defining expression),
module-level constant tables (through the constant evaluator), comparisons, boolean operators,
len(), subscripts/slices and the pure str methods.  Nothing of the analysed package is imported or
run; an expression outside this closed class raises Undecidable and the rule reports the guard as
not decided instead of guessing.
"""

from __future__ import annotations

import ast

from .consteval import Num
from .srcmodel import AnalysisError, norm_src

PURE_STR = (
    "upper", "lower", "strip", "lstrip", "rstrip", "casefold", "startswith", "endswith", "isalpha", "isdigit",
    "isupper", "islower", "isalnum", "isspace", "count", "find", "rfind", "split", "rsplit", "partition", "rpartition",
    "replace", "title", "capitalize", "swapcase", "index", "join", "zfill",
)


class Undecidable(Exception):
    pass


class Raised(Exception):
    """The expression raises for this input (e.g. tuple-unpacking arity, index out of range)."""

    def __init__(self, exc):
        Exception.__init__(self, repr(exc))
        self.exc = exc


CMP = {
    ast.Eq: lambda a, b: a == b,
    ast.NotEq: lambda a, b: a != b,
    ast.Lt: lambda a, b: a < b,
    ast.LtE: lambda a, b: a <= b,
    ast.Gt: lambda a, b: a > b,
    ast.GtE: lambda a, b: a >= b,
    ast.In: lambda a, b: a in b,
    ast.NotIn: lambda a, b: a not in b,
    ast.Is: lambda a, b: a is b,
    ast.IsNot: lambda a, b: a is not b,
}


def plain(v):
    """Constant-evaluator values -> plain Python values usable in comparisons."""
    if isinstance(v, Num):
        return v.q
    return v


BIND_CACHE = {}


class GuardEval(object):
    def __init__(self, ctx, module, func_node=None, env=None, attrs=None, before=None):
        self.ctx = ctx
        self.module = module
        self.func_node = func_node
        self.env = dict(env or {})
        self.attrs = dict(attrs or {})  # "self.<attr>" -> value
        self.before = before  # only bindings on lines before this node's line count as definitions
        self._busy = set()
        self._bind = BIND_CACHE.get(id(func_node)) if func_node is not None else None
        self._memo = {}
        self._depth = 0

    # -- single-assignment locals -------------------------------------------------------------
    def bindings(self):
        if self._bind is None:
            b = {}
            if self.func_node is not None:
                for n in ast.walk(self.func_node):
                    if isinstance(n, ast.Assign) and len(n.targets) == 1:
                        t = n.targets[0]
                        if isinstance(t, ast.Name):
                            b.setdefault(t.id, []).append((n, None))
                        elif isinstance(t, (ast.Tuple, ast.List)) and all(isinstance(e, ast.Name) for e in t.elts):
                            for i, e in enumerate(t.elts):
                                b.setdefault(e.id, []).append((n, (i, len(t.elts))))
                    elif isinstance(n, (ast.AugAssign, ast.AnnAssign)) and isinstance(n.target, ast.Name):
                        b.setdefault(n.target.id, []).append((None, None))
                    elif isinstance(n, (ast.For, ast.comprehension)):
                        for e in ast.walk(n.target):
                            if isinstance(e, ast.Name):
                                b.setdefault(e.id, []).append((None, None))
                    elif isinstance(n, (ast.With, ast.ExceptHandler)):
                        pass
            self._bind = b
            if self.func_node is not None:
                BIND_CACHE[id(self.func_node)] = b
        return self._bind

    def name(self, ident, node):
        if ident in self.env:
            return self.env[ident]
        if ident in ("True", "False", "None"):
            return {"True": True, "False": False, "None": None}[ident]
        b = self.bindings().get(ident)
        if b is not None:
            if len(b) != 1 or b[0][0] is None:
                raise Undecidable("%s is bound more than once" % ident)
            stmt, unpack = b[0]
            if ident in self._busy:
                raise Undecidable("cyclic definition of %s" % ident)
            mk = id(stmt)
            if self._depth == 0 and mk in self._memo:
                v = self._memo[mk]
            else:
                self._busy.add(ident)
                try:
                    v = self.ev(stmt.value)
                finally:
                    self._busy.discard(ident)
                if self._depth == 0:
                    self._memo[mk] = v
            if unpack is not None:
                i, n = unpack
                try:
                    seq = list(v)
                except TypeError as e:
                    raise Raised(e)
                if len(seq) != n:
                    raise Raised(ValueError("unpack %d values into %d names" % (len(seq), n)))
                return seq[i]
            return v
        r = self.ctx.repo.resolve_global(self.module, ident)
        if r is not None and r[0] == "value":
            try:
                dn = self.ctx.ce._defname(r[1], r[2])
                return self.ctx.ce.table(r[1].name, dn, "geval") if dn else self.ctx.ce.eval(r[1], r[2], "geval")
            except AnalysisError as e:
                raise Undecidable("module constant %s is not constant-foldable (%s)" % (ident, e.message if hasattr(e, "message") else e))
        raise Undecidable("name %s" % ident)

    # -- expressions ---------------------------------------------------------------------------
    def ev(self, e):
        if isinstance(e, ast.Constant):
            return e.value
        if isinstance(e, ast.Name):
            return self.name(e.id, e)
        if isinstance(e, ast.Attribute):
            key = norm_src(e)
            if key in self.attrs:
                return self.attrs[key]
            raise Undecidable("attribute %s" % key)
        if isinstance(e, ast.UnaryOp):
            v = self.ev(e.operand)
            if isinstance(e.op, ast.Not):
                return not v
            if isinstance(e.op, ast.USub):
                return -plain(v)
            raise Undecidable(norm_src(e))
        if isinstance(e, ast.BoolOp):
            r = None
            for sub in e.values:
                r = self.ev(sub)
                if isinstance(e.op, ast.And) and not r:
                    return r
                if isinstance(e.op, ast.Or) and r:
                    return r
            return r
        if isinstance(e, ast.Compare):
            left = plain(self.ev(e.left))
            for op, c in zip(e.ops, e.comparators):
                right = plain(self.ev(c))
                f = CMP.get(type(op))
                if f is None:
                    raise Undecidable(norm_src(e))
                try:
                    if not f(left, right):
                        return False
                except TypeError as x:
                    raise Raised(x)
                left = right
            return True
        if isinstance(e, (ast.Tuple, ast.List)):
            return [self.ev(x) for x in e.elts]
        if isinstance(e, ast.IfExp):
            return self.ev(e.body) if self.ev(e.test) else self.ev(e.orelse)
        if isinstance(e, ast.BinOp):
            a, b = plain(self.ev(e.left)), plain(self.ev(e.right))
            try:
                if isinstance(e.op, ast.Add):
                    return a + b
                if isinstance(e.op, ast.Sub):
                    return a - b
                if isinstance(e.op, ast.Mult):
                    return a * b
            except TypeError as x:
                raise Raised(x)
            raise Undecidable(norm_src(e))
        if isinstance(e, ast.Subscript):
            base = self.ev(e.value)
            try:
                if isinstance(e.slice, ast.Slice):
                    lo = self.ev(e.slice.lower) if e.slice.lower else None
                    hi = self.ev(e.slice.upper) if e.slice.upper else None
                    st = self.ev(e.slice.step) if e.slice.step else None
                    return base[slice(lo, hi, st)]
                return base[plain(self.ev(e.slice))]
            except (KeyError, IndexError, TypeError) as x:
                raise Raised(x)
        if isinstance(e, ast.Call) and not e.keywords:
            if isinstance(e.func, ast.Name) and e.func.id not in self.env and e.func.id not in self.bindings():
                args = [self.ev(a) for a in e.args]
                fn = e.func.id
                try:
                    if fn == "len" and len(args) == 1:
                        return len(args[0])
                    if fn in ("min", "max") and args:
                        return (min if fn == "min" else max)(*[plain(a) if not isinstance(a, (list, dict)) else list(a) for a in args])
                    if fn == "sorted" and len(args) == 1:
                        return sorted(args[0])
                    if fn in ("list", "tuple", "set") and len(args) == 1:
                        return list(args[0]) if fn != "set" else set(args[0])
                    if fn == "str" and len(args) == 1 and isinstance(args[0], (str, int)):
                        return str(args[0])
                    if fn == "any" and len(args) == 1:
                        return any(args[0])
                    if fn == "all" and len(args) == 1:
                        return all(args[0])
                except (TypeError, ValueError) as x:
                    raise Raised(x)
                raise Undecidable("call of %s" % fn)
            if isinstance(e.func, ast.Attribute):
                recv = self.ev(e.func.value)
                args = [self.ev(a) for a in e.args]
                m = e.func.attr
                if isinstance(recv, str) and m in PURE_STR:
                    try:
                        r = getattr(recv, m)(*args)
                    except (ValueError, TypeError, IndexError) as x:
                        raise Raised(x)
                    return list(r) if isinstance(r, tuple) else r
                if isinstance(recv, dict) and m in ("keys", "values", "items", "get") :
                    r = getattr(recv, m)(*args)
                    return list(r) if m != "get" else r
                raise Undecidable("method %s of %s" % (m, type(recv).__name__))
        if isinstance(e, (ast.ListComp, ast.GeneratorExp, ast.SetComp)) and len(e.generators) == 1:
            g = e.generators[0]
            if isinstance(g.target, ast.Name):
                out = []
                saved = self.env.get(g.target.id, self)
                self._depth += 1
                try:
                    for x in self.ev(g.iter):
                        self.env[g.target.id] = x
                        if all(self.ev(c) for c in g.ifs):
                            out.append(self.ev(e.elt))
                finally:
                    self._depth -= 1
                    if saved is self:
                        self.env.pop(g.target.id, None)
                    else:
                        self.env[g.target.id] = saved
                return out
        raise Undecidable(norm_src(e))
