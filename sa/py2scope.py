"""Python 2.7 list-comprehension variables leak into the enclosing function scope.

A leak changes behaviour only if the leaked binding *reaches a read*: some path from the
comprehension to a load of the same name in the same function scope on which the name is not
rebound first.  This is decided by a structured reaching-definitions walk over the function's
statements (loops are iterated twice, try blocks are joined conservatively: a handler can start
from any state of its body).  `reaching_reads(func_node, comp, name)` returns the offending loads.
"""

from __future__ import annotations

import ast

SCOPES = (ast.FunctionDef, ast.AsyncFunctionDef, ast.Lambda, ast.ClassDef)
COMPS = (ast.GeneratorExp, ast.SetComp, ast.DictComp)  # own scope on both Python 2.7 and 3


class _Walk(object):
    def __init__(self, func, comp, name):
        self.func = func
        self.comp = comp
        self.name = name
        self.hits = []
        self.ever = False
        self.closures = []

    # ---- expressions: evaluation order matters only as far as "reads happen before the store of
    # the same statement"; inside one expression the order of sub-expressions is source order
    def expr(self, e, t):
        if e is None:
            return t
        if isinstance(e, ast.Name):
            if e.id == self.name and isinstance(e.ctx, ast.Load) and t:
                if e not in self.hits:
                    self.hits.append(e)
            return t
        if isinstance(e, ast.ListComp):
            # Python 2: the targets live in the enclosing scope
            binds = any(isinstance(x, ast.Name) and x.id == self.name for g in e.generators for x in ast.walk(g.target))
            first = True
            for g in e.generators:
                t = self.expr(g.iter, t)
                if binds and any(isinstance(x, ast.Name) and x.id == self.name for x in ast.walk(g.target)):
                    t = False if e is not self.comp else t  # rebound by this comprehension's own loop
                    inner_t = False
                else:
                    inner_t = t
                for c in g.ifs:
                    self.expr(c, inner_t if not binds else False)
                first = False
            self.expr(e.elt, False if binds else t)
            if e is self.comp:
                self.ever = True
                return True
            if binds:
                return False  # another comprehension leaves its own (leaked) value: a different leak
            return t
        if isinstance(e, COMPS):
            binds = any(isinstance(x, ast.Name) and x.id == self.name for g in e.generators for x in ast.walk(g.target))
            t2 = self.expr(e.generators[0].iter, t)
            if not binds:
                for g in e.generators:
                    for c in g.ifs:
                        self.expr(c, t2)
                for g in e.generators[1:]:
                    self.expr(g.iter, t2)
                for sub in [getattr(e, "elt", None), getattr(e, "key", None), getattr(e, "value", None)]:
                    if sub is not None:
                        self.expr(sub, t2)
            return t2
        if isinstance(e, ast.Lambda):
            if any(a.arg == self.name for a in e.args.args):
                return t
            # the body runs when called: treat as read wherever the leak may be live
            self.closures.append(e.body)
            return t
        if isinstance(e, ast.NamedExpr):
            t = self.expr(e.value, t)
            if isinstance(e.target, ast.Name) and e.target.id == self.name:
                return False
            return t
        for c in ast.iter_child_nodes(e):
            if isinstance(c, ast.expr):
                t = self.expr(c, t)
            elif isinstance(c, (ast.keyword,)):
                t = self.expr(c.value, t)
            elif isinstance(c, ast.comprehension):
                pass
        return t

    def store(self, target, t):
        for x in ast.walk(target):
            if isinstance(x, ast.Name) and x.id == self.name and isinstance(x.ctx, (ast.Store, ast.Del)):
                return False
        # subscripts / attributes in the target read their base
        for x in ast.walk(target):
            if isinstance(x, ast.Name) and isinstance(x.ctx, ast.Load):
                self.expr(x, t)
        return t

    # ---- statements: returns the taint on normal exit; break/continue/return states are joined
    # into the enclosing loop / dropped
    def block(self, stmts, t, loop):
        for s in stmts:
            t = self.stmt(s, t, loop)
        return t

    def stmt(self, s, t, loop):
        if isinstance(s, (ast.FunctionDef, ast.AsyncFunctionDef)):
            args = s.args
            params = [a.arg for a in args.args + args.kwonlyargs] + ([args.vararg.arg] if args.vararg else []) + ([args.kwarg.arg] if args.kwarg else [])
            local = self.name in params or any(isinstance(x, ast.Name) and x.id == self.name and isinstance(x.ctx, ast.Store) for x in ast.walk(s))
            if not local:
                for b in s.body:
                    self.closures.append(b)
            if s.name == self.name:
                return False
            return t
        if isinstance(s, ast.ClassDef):
            return t
        if isinstance(s, ast.Assign):
            t = self.expr(s.value, t)
            for tg in s.targets:
                t = self.store(tg, t)
            return t
        if isinstance(s, ast.AugAssign):
            t = self.expr(s.value, t)
            if isinstance(s.target, ast.Name) and s.target.id == self.name:
                if t:
                    self.hits.append(s.target)
                return False
            return self.store(s.target, t)
        if isinstance(s, ast.AnnAssign):
            t = self.expr(s.value, t)
            return self.store(s.target, t) if s.value is not None else t
        if isinstance(s, (ast.Expr, ast.Return)):
            return self.expr(s.value, t)
        if isinstance(s, ast.Delete):
            for tg in s.targets:
                t = self.store(tg, t)
            return t
        if isinstance(s, ast.If):
            t = self.expr(s.test, t)
            a = self.block(s.body, t, loop)
            b = self.block(s.orelse, t, loop)
            return a or b
        if isinstance(s, (ast.For, ast.AsyncFor)):
            t = self.expr(s.iter, t)
            frame = {"exit": False}
            cur = t
            for _ in range(2):
                inner = self.store(s.target, cur)
                out = self.block(s.body, inner, frame)
                cur = cur or out or frame.get("cont", False)
            after = cur  # iterator exhausted (possibly after zero iterations: taint before the loop)
            after = self.block(s.orelse, after, loop)
            return after or frame["exit"]
        if isinstance(s, ast.While):
            frame = {"exit": False}
            cur = t
            for _ in range(2):
                cur2 = self.expr(s.test, cur)
                out = self.block(s.body, cur2, frame)
                cur = cur or cur2 or out or frame.get("cont", False)
            after = self.block(s.orelse, cur, loop)
            return after or frame["exit"]
        if isinstance(s, ast.Break):
            if loop is not None:
                loop["exit"] = loop["exit"] or t
            return False
        if isinstance(s, ast.Continue):
            if loop is not None:
                loop["cont"] = loop.get("cont", False) or t
            return False
        if isinstance(s, ast.Raise):
            self.expr(s.exc, t)
            self.expr(s.cause, t)
            return False
        if isinstance(s, (ast.With, ast.AsyncWith)):
            for it in s.items:
                t = self.expr(it.context_expr, t)
                if it.optional_vars is not None:
                    t = self.store(it.optional_vars, t)
            return self.block(s.body, t, loop)
        if isinstance(s, ast.Try):
            # a handler can start from any state the body passes through
            before_ever = self.ever
            body_out = self.block(s.body, t, loop)
            may = t or body_out or (self.ever and not before_ever) or self._tainted_inside(s.body)
            outs = [self.block(s.orelse, body_out, loop)]
            for h in s.handlers:
                ht = may
                if h.name == self.name:
                    ht = False
                outs.append(self.block(h.body, ht, loop))
            joined = any(outs)
            if s.finalbody:
                joined = self.block(s.finalbody, joined or may, loop)
            return joined
        if isinstance(s, ast.Assert):
            t = self.expr(s.test, t)
            return self.expr(s.msg, t)
        if isinstance(s, (ast.Import, ast.ImportFrom)):
            for al in s.names:
                if (al.asname or al.name.split(".")[0]) == self.name:
                    return False
            return t
        if isinstance(s, (ast.Pass, ast.Global, ast.Nonlocal)):
            return t
        # unknown statement kind: visit expressions conservatively
        for c in ast.walk(s):
            if isinstance(c, ast.Name) and c.id == self.name and isinstance(c.ctx, ast.Load) and t:
                self.hits.append(c)
        return t

    def _tainted_inside(self, stmts):
        return any(x is self.comp for s in stmts for x in ast.walk(s))


def reaching_reads(func_node, comp, name):
    """Loads of `name` in func_node's own scope that the value leaked by list comprehension
    `comp` can reach (Python 2.7 semantics)."""
    w = _Walk(func_node, comp, name)
    body = func_node.body if not isinstance(func_node, ast.Lambda) else []
    w.block(body, False, None)
    if w.ever:
        # closures run at call time: a free read of the name sees whatever the variable holds then
        for b in w.closures:
            for x in ast.walk(b):
                if isinstance(x, ast.Name) and x.id == name and isinstance(x.ctx, ast.Load) and x not in w.hits:
                    w.hits.append(x)
    return w.hits
