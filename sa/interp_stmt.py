"""E5 — calls, statements, state joins."""

from __future__ import annotations

import ast
from fractions import Fraction

from . import terms as T
from .consteval import NAN, Dec, Flt, Num, TDict, TList, TTuple, is_num, pure_method, qof
from .interp import (
    MAX_DEPTH,
    BoundMeth,
    Builtin,
    ClassVal,
    Dead,
    EnvObj,
    Choice,
    ExtVal,
    FuncVal,
    Inst,
    Interp,
    LambdaVal,
    ListObj,
    prop_reduce,
    MapObj,
    Outcome,
    Ref,
    State,
    TupleVal,
    ValMeth,
    is_boolish,
    is_numeric,
    mk_and,
    mk_not,
    mk_or,
    same,
    truth_const,
)
from .interp_expr import ExprMixin, const_int_like, deps_of, is_discrete, strish
from .srcmodel import AnalysisError, Func, short
from .terms import ABSENT, ERR, FALSE, TRUE, App, BoolOp, Cmp, Const, Fin, Opaque, P, Term

ORDERED_DICT = ("collections.OrderedDict", "ordereddict.OrderedDict")


def wrap_const_(x):
    from .interp_expr import wrap_const

    return wrap_const(x)


class NonStatic(AnalysisError):
    """Iteration over a sequence the analysis cannot enumerate."""

STR_ONLY_METHODS = (
    "upper", "lower", "replace", "strip", "lstrip", "rstrip", "split", "rsplit", "startswith", "endswith", "format", "join", "title",
    "capitalize", "partition", "rpartition", "find", "index", "isalpha", "isdigit", "casefold", "swapcase", "zfill",
)
MAP_MUTATORS = ("pop", "popitem", "setdefault", "update", "clear", "__setitem__", "__delitem__")
LIST_MUTATORS = ("append", "extend", "insert", "remove", "pop", "clear", "sort", "reverse")


class CallMixin(object):
    def seq_table_mutation(self, st, env, node, module):
        """`name.pop(i)` / `name.reverse()` where the local holds a *table* of sequences (str.split on
        a table of strings): the sequences are values, so the mutation rebinds the local to the
        table of shortened sequences.  Returns the call's value, or None when the shape does not apply."""
        f = node.func
        if not (isinstance(f, ast.Attribute) and isinstance(f.value, ast.Name) and f.attr in ("pop",) and not node.keywords and len(node.args) <= 1):
            return None
        try:
            cur = self.lookup(st, env, f.value.id, f.value, module)
        except AnalysisError:
            return None
        if not (isinstance(cur, Fin) and all(isinstance(x, TTuple) for x in cur.table.values())):
            return None
        idx = self.eval(st, env, node.args[0]) if node.args else Const(-1)
        if not (isinstance(idx, Const) and isinstance(idx.v, int)):
            return None
        fo = st.folder()
        cur = fo.restrict(cur)
        if isinstance(cur, Const):
            cur = Fin((), {(): cur.v})
            return None
        i = idx.v

        def ok(t):
            return -len(t) <= i < len(t)

        bad = fo.fold(lambda t: not ok(t), [cur])
        d = self.decide(st, bad)
        if d is True:
            self.hazard(st, "IndexError", node, module, TRUE, "pop from an empty / too short list")
            raise Dead()
        if d is None:
            self.hazard(st, "IndexError", node, module, bad, "pop index out of range for some inputs")
            self.assume(st, mk_not(bad))
            fo = st.folder()
            cur = fo.restrict(cur)
            if isinstance(cur, Const):
                cur = Fin((), {(): cur.v})
        val = fo.fold(lambda t: t[i], [cur]) if cur.slots else Const(list(cur.table.values())[0][i])
        rest = fo.fold(lambda t: TTuple([x for j, x in enumerate(t) if j != (i if i >= 0 else len(t) + i)]), [cur]) if cur.slots else None
        if rest is None:
            return None
        # rebind in the frame that holds the name
        e = env
        while e is not None:
            frame = st.heap[e.id]
            if f.value.id in frame.vars:
                frame.vars[f.value.id] = rest
                return val
            e = frame.parent
        return None

    def e_Call(self, st, env, node, module):
        if isinstance(node.func, ast.Attribute) and node.func.attr == "pop" and isinstance(node.func.value, ast.Name):
            r_ = self.seq_table_mutation(st, env, node, module)
            if r_ is not None:
                return r_
        fn = self.eval(st, env, node.func)
        args = []
        for a in node.args:
            if isinstance(a, ast.Starred):
                v = self.eval(st, env, a.value)
                if isinstance(v, TupleVal):
                    args.extend(v.items)
                elif isinstance(v, Ref) and st.heap[v.id].kind == "list" and not getattr(st.heap[v.id], "havoc", False):
                    for g_, x_ in st.heap[v.id].items:
                        d_ = self.decide(st, g_)
                        if d_ is False:
                            continue
                        if d_ is None:
                            raise AnalysisError("E5.call", "star-argument with conditionally present elements", node, module)
                        args.append(x_)
                elif isinstance(v, Const) and isinstance(v.v, (tuple, list)):
                    args.extend(wrap_const_(x_) for x_ in v.v)
                else:
                    raise AnalysisError("E5.call", "star-argument of non-tuple", node, module)
            else:
                args.append(self.eval(st, env, a))
        kwargs = {}
        for kw in node.keywords:
            if kw.arg is None:
                v = self.eval(st, env, kw.value)
                if isinstance(v, Const) and isinstance(v.v, dict) and all(isinstance(k_, str) for k_ in v.v):
                    for k_, x_ in v.v.items():
                        kwargs[k_] = wrap_const_(x_)
                    continue
                if isinstance(v, Ref) and st.heap[v.id].kind == "map" and all(isinstance(k_, str) and isinstance(p_, Const) and truth_const(p_.v) for k_, (p_, _) in st.heap[v.id].entries.items()):
                    for k_ in st.heap[v.id].order:
                        kwargs[k_] = st.heap[v.id].entries[k_][1]
                    continue
                raise AnalysisError("E5.call", "**kwargs call", node, module)
            kwargs[kw.arg] = self.eval(st, env, kw.value)
        return self.simp(st, self.call(st, fn, args, kwargs, node, module))

    def e_Lambda(self, st, env, node, module):
        st.heap[env.id].captured = True
        return LambdaVal(node, env, module)

    def call_choice(self, st, fn, args, kwargs, node, module):
        """Call of a callable selected by a condition: both alternatives, each under its condition,
        joined like the branches of an if statement."""
        d = self.decide(st, fn.cond)
        if d is True:
            return self.call(st, fn.a, args, kwargs, node, module)
        if d is False:
            return self.call(st, fn.b, args, kwargs, node, module)
        res = []
        for cond, alt in ((fn.cond, fn.a), (mk_not(fn.cond), fn.b)):
            s2 = st.copy()
            try:
                self.assume(s2, cond)
                s2.pc.append(cond)
                v = self.call(s2, alt, args, kwargs, node, module)
                res.append((s2, v))
            except Dead:
                pass
        if not res:
            raise Dead()
        mstate, mval = res[0]
        for s2, v2 in res[1:]:
            mstate, mval = self.merge_states(mstate, s2, mval, v2)
        if len(res) == 1:
            del mstate.pc[len(st.pc) :]
        st.heap, st.pc, st.dom, st.facts, st.constraints = (mstate.heap, mstate.pc, mstate.dom, mstate.facts, mstate.constraints)
        return mval

    def call(self, st, fn, args, kwargs, node, module):
        if isinstance(fn, Choice):
            return self.call_choice(st, fn, args, kwargs, node, module)
        if isinstance(fn, FuncVal):
            return self.inline(st, fn.func, fn.env, args, kwargs, node, module)
        if isinstance(fn, BoundMeth):
            return self.inline(st, fn.func, None, [fn.recv] + args, kwargs, node, module)
        if isinstance(fn, LambdaVal):
            e = self.alloc(st, EnvObj(fn.env, fn.module))
            params = [a.arg for a in fn.node.args.args]
            for p, a in zip(params, args):
                st.heap[e.id].vars[p] = a
            return self.eval(st, e, fn.node.body)
        if isinstance(fn, ClassVal):
            return self.construct(st, fn.cls, args, kwargs, node, module)
        if isinstance(fn, Builtin):
            return self.call_builtin(st, fn.name, args, kwargs, node, module)
        if isinstance(fn, ExtVal):
            return self.call_ext(st, fn.dotted, args, kwargs, node, module)
        if isinstance(fn, ValMeth):
            return self.call_method(st, fn.recv, fn.name, args, kwargs, node, module)
        if isinstance(fn, Opaque) and hasattr(fn, "recv"):
            return self.call_method(st, fn.recv, fn.attr, args, kwargs, node, module)
        raise AnalysisError("E5.call", "call of %r" % (fn,), node, module)

    def construct(self, st, cls, args, kwargs, node, module):
        hook = getattr(self, "construct_hook", None)
        if hook is not None:
            r = hook(st, cls, args, kwargs, node, module)
            if r is not None:
                return r
        bases = [b.id for b in cls.node.bases if isinstance(b, ast.Name)]
        if cls.module.name == "exceptions" or any(b.endswith("Error") or b == "Exception" for b in bases):
            return App("exc", tuple(a for a in args if isinstance(a, Term)), (cls.name,))
        inst = self.alloc(st, Inst(cls))
        if "__init__" in cls.methods:
            self.inline(st, cls.methods["__init__"], None, [inst] + args, kwargs, node, module)
        return inst

    def is_generator(self, func):
        key = id(func.node)
        cache = self.__dict__.setdefault("_gen_cache", {})
        if key not in cache:
            hit = False
            stack = list(func.node.body)
            while stack:
                n = stack.pop()
                if isinstance(n, (ast.FunctionDef, ast.Lambda, ast.ClassDef)):
                    continue
                if isinstance(n, (ast.Yield, ast.YieldFrom)):
                    hit = True
                    break
                stack.extend(ast.iter_child_nodes(n))
            cache[key] = hit
        return cache[key]

    def e_Yield(self, st, env, node, module):
        e = env
        while e is not None and not hasattr(st.heap[e.id], "gen_items"):
            e = st.heap[e.id].parent
        if e is None:
            raise AnalysisError("E5.expr", "yield outside a modelled generator", node, module)
        frame = st.heap[e.id]
        v = self.eval(st, env, node.value) if node.value is not None else Const(None)
        consumer = getattr(frame, "gen_consumer", None)
        if consumer is not None:
            # `for x in gen(): body` with the generator consumed directly by the loop: the loop body
            # runs at the yield, in the loop's own frame (so what the generator raises before or
            # after a yield surfaces at the loop, exactly as in Python)
            target, body, loop_env, loop_node, loop_module = consumer
            self.bind(st, loop_env, target, v, loop_node, loop_module)
            saved_func = self.current_func
            self.current_func = st.heap[loop_env.id].func if loop_env.id in st.heap else saved_func
            try:
                outs = self.exec_block(body, st, loop_env)
            finally:
                self.current_func = saved_func
            nxt = [o.state for o in outs if o.status in ("normal", "continue")]
            if any(o.status not in ("normal", "continue") for o in outs):
                raise AnalysisError("E5.expr", "break / return in the body of a loop over a generator that is inlined", loop_node, loop_module)
            if not nxt:
                raise Dead()
            cur = nxt[0]
            for x in nxt[1:]:
                cur, _ = self.merge_states(cur, x, None, None)
            if cur is not st:
                st.heap, st.pc, st.dom, st.facts, st.constraints = (cur.heap, cur.pc, cur.dom, cur.facts, cur.constraints)
            return Const(None)
        guard = mk_and(st.pc[frame.gen_pc0 :]) if len(st.pc) > frame.gen_pc0 else TRUE
        frame.gen_items.append((guard, v))
        return Const(None)

    def inline(self, st, func, closure, args, kwargs, node, module):
        model = self.models.get(func.node)
        if model is not None:
            return model(self, st, args, kwargs, node, module)
        # self-recursion is followed while the abstract arguments decide it (bounded re-entry)
        if len(self.call_stack) >= MAX_DEPTH or self.call_stack.count(func.node) >= 3:
            raise AnalysisError("E5.call", "recursion / inlining depth exceeded at %s" % func.qualname, node, module)
        e = self.alloc(st, EnvObj(closure, func.module, func))
        env = st.heap[e.id]
        a = func.node.args
        params = [x.arg for x in a.posonlyargs + a.args]
        defaults = [None] * (len(params) - len(a.defaults)) + list(a.defaults)
        if len(args) > len(params):
            if a.vararg:
                rest = ListObj([(TRUE, x) for x in args[len(params) :]])
                rest.kind_tuple = True
                env.vars[a.vararg.arg] = self.alloc(st, rest)
                args = args[: len(params)]
            else:
                self.hazard(st, "TypeError", node, module, TRUE, "too many arguments for %s" % func.name)
                raise Dead()
        elif a.vararg:
            env.vars[a.vararg.arg] = self.alloc(st, ListObj([]))
        if a.kwarg:
            known = set(params) | set(x.arg for x in a.kwonlyargs)
            extra = MapObj(False, "kwargs")
            for k in kwargs:
                if k not in known:
                    extra.set(k, TRUE, kwargs[k])
            env.vars[a.kwarg.arg] = self.alloc(st, extra)
            kwargs = dict((k, v) for k, v in kwargs.items() if k in known)
        for i, p in enumerate(params):
            if i < len(args):
                env.vars[p] = args[i]
            elif p in kwargs:
                env.vars[p] = kwargs[p]
            elif defaults[i] is not None:
                env.vars[p] = Const(self.ce.eval(func.module, defaults[i], "E5.default"))
            else:
                self.hazard(st, "TypeError", node, module, TRUE, "missing argument %s of %s" % (p, func.name))
                raise Dead()
        for kwo, d in zip(a.kwonlyargs, a.kw_defaults):
            if kwo.arg in kwargs:
                env.vars[kwo.arg] = kwargs[kwo.arg]
            elif d is not None:
                env.vars[kwo.arg] = Const(self.ce.eval(func.module, d, "E5.default"))
        for k in kwargs:
            if k not in params and k not in [x.arg for x in a.kwonlyargs]:
                self.hazard(st, "TypeError", node, module, TRUE, "unexpected keyword %s for %s" % (k, func.name))
                raise Dead()
        self.call_stack.append(func.node)
        self.inline_log.add(func.qualname)
        saved_func = self.current_func
        self.current_func = func
        is_gen = self.is_generator(func)
        consumer = None
        if is_gen:
            # a generator function: the values it yields, in order, as a one-shot sequence
            env.gen_items = []
            env.gen_pc0 = len(st.pc)
            gen_ev0 = len(self.events)
            consumer = getattr(self, "_pending_consumer", None)
            self._pending_consumer = None
            if consumer is not None:
                env.gen_consumer = consumer
        try:
            outs = self.exec_block(func.node.body, st, e)
        finally:
            self.call_stack.pop()
            self.current_func = saved_func
        if is_gen:
            for o in outs:
                if o.status == "return":
                    o.value = None
            if len(outs) != 1 and consumer is None:
                raise AnalysisError("E5.expr", "generator function with several exits", node, module)
            # the body is run eagerly: that is the generator's behaviour only if nothing in it can
            # raise (an exception surfaces at the consuming next() and ends the generator)
            for e_ in self.events[gen_ev0:] if consumer is None else []:
                if e_.kind in ("hazard", "raise", "may_raise", "none_arith"):
                    raise AnalysisError("E5.expr", "generator function %s whose body can raise is not modelled" % func.qualname, node, module)
        rets = []
        for o in outs:
            if o.status == "return":
                rets.append((o.state, o.value))
            elif o.status == "normal":
                rets.append((o.state, Const(None)))
            else:
                raise AnalysisError("E5.call", "break/continue escaping %s" % func.qualname, node, module)
        if not rets:
            raise Dead()
        mstate, mval = rets[0]
        for s2, v2 in rets[1:]:
            try:
                mstate, mval = self.merge_states(mstate, s2, mval, v2)
            except AnalysisError as je:
                # the outermost function of a path-splitting analysis returns nothing the analysis
                # reads (its effects were recorded on the way): its exit states need not be joined
                if je.rule == "E5.join" and getattr(self, "split_unjoinable", False) and len(self.call_stack) == 0 and all(
                    isinstance(v_, Const) and v_.v is None for _, v_ in rets
                ):
                    continue
                raise
        if mstate is not st:
            st.heap, st.pc, st.dom, st.facts, st.constraints = (
                mstate.heap,
                mstate.pc,
                mstate.dom,
                mstate.facts,
                mstate.constraints,
            )
        envo = st.heap.get(e.id)
        if is_gen:
            gen_list = ListObj(list(envo.gen_items))
        if envo is not None and not getattr(envo, "captured", False):
            del st.heap[e.id]  # frame is dead: nothing can reference it any more
        if is_gen:
            return self.alloc(st, gen_list)
        return mval

    # ------------------------------------------------------------------ builtins
    def call_builtin(self, st, name, args, kwargs, node, module):
        hook = getattr(self, "builtin_hook", None)
        if hook is not None:
            r = hook(st, name, args, kwargs, node, module)
            if r is not None:
                return r
        fo = st.folder()
        if name == "float":
            (x,) = args
            return self.conv_float(st, x, node, module)
        if name == "str":
            if not args:
                return Const("")
            return self.to_str(st, args[0], node, module)
        if name == "repr":
            return App("repr", (args[0],)) if isinstance(args[0], Term) else Opaque("repr")
        if name == "int":
            (x,) = args[:1]
            if is_discrete(x):
                def toint(v):
                    try:
                        if isinstance(v, Num):
                            return int(v.q)
                        return int(v)
                    except (ValueError, TypeError):
                        return ERR
                r = fo.fold(toint, [x])
                errs = fo.fold(lambda v: toint(v) is ERR, [x])
                if not (isinstance(errs, Const) and not errs.v):
                    self.hazard(st, "ValueError", node, module, errs, "int() of a non-number")
                    self.assume(st, mk_not(errs))
                    r = st.folder().restrict(r)
                return r
            return P.atom(App("int", (self.to_poly(st, x, node, module),)), "int")
        if name == "bool":
            return self.truth(st, args[0], node)
        if name == "abs":
            return P.atom(App("abs", (self.to_poly(st, args[0], node, module),)))
        if name == "round":
            self.event("round_builtin", node, module, st)
            return P.atom(App("round", tuple(self.to_poly(st, a, node, module) for a in args)))
        if name in ("min", "max"):
            vals = args
            if len(args) == 1:
                vals = [v for g, v in self.iter_values(st, args[0], node, module)]
            if all(is_discrete(v) and not is_numeric(v) for v in vals):
                return fo.fold(lambda *xs: (min if name == "min" else max)(xs), list(vals))
            ps = [self.to_poly(st, v, node, module) for v in vals]
            if all(p.is_const() for p in ps):
                f = min if name == "min" else max
                q = f(p.const_value() for p in ps)
                k = None
                for p in ps:
                    if p.const_value() == q:
                        k = p.kind
                        break
                return P.const(q, k)
            kind = None
            for p in ps:
                kind = T.kind_join(kind, p.kind)
            if any(T.may_nan(p) for p in ps):
                return P.atom(App(name, ps, ("ordered",)), kind)
            ps = sorted(set(ps), key=lambda p: p.sortkey())
            if len(ps) == 1:
                return ps[0]
            return P.atom(App(name, ps), kind)
        if name in ("all", "any"):
            items = self.iter_values(st, args[0], node, module)
            cs = []
            for g, v in items:
                t = self.truth(st, v, node)
                cs.append(mk_or([mk_not(g), t]) if name == "all" else mk_and([g, t]))
            r = mk_and(cs) if name == "all" else mk_or(cs)
            return self.try_fold_bool(st, r)
        if name == "len":
            x = args[0]
            if isinstance(x, Const) and hasattr(x.v, "__len__"):
                return Const(len(x.v))
            if isinstance(x, Fin) and strish(x):
                return fo.fold(len, [x])
            if isinstance(x, TupleVal):
                return Const(len(x.items))
            if isinstance(x, Ref):
                o = st.heap[x.id]
                if o.kind == "list" and all(isinstance(g, Const) for g, _ in o.items):
                    return Const(len([1 for g, _ in o.items if truth_const(g.v)]))
                if o.kind == "map" and all(isinstance(p, Const) for p, _ in o.entries.values()):
                    return Const(len([1 for p, _ in o.entries.values() if truth_const(p.v)]))
                if o.kind == "list" and not getattr(o, "one_shot", False) and not getattr(o, "havoc", False):
                    # conditionally present elements: the length is the number of guards that hold
                    n_ = P.const(0, "int")
                    for g, _ in o.items:
                        if isinstance(g, Const):
                            if truth_const(g.v):
                                n_ = T.p_add(n_, P.const(1, "int"))
                        else:
                            n_ = T.p_add(n_, P.atom(App("ind", (g,)), "int"))
                    n_.len_guards = [g for g, _ in o.items]
                    return n_
            return P.atom(App("len", (x,) if isinstance(x, Term) else ()), "int")
        if name in ("tuple", "list"):
            if not args:
                return TupleVal([]) if name == "tuple" else self.alloc(st, ListObj())
            items = self.iter_values(st, args[0], node, module)
            if name == "list":
                lo = ListObj(items)
                src = args[0]
                if isinstance(src, Ref) and getattr(st.heap[src.id], "kind", "") == "set":
                    lo.hash_ordered = True
                return self.alloc(st, lo)
            if all(isinstance(g, Const) and truth_const(g.v) for g, _ in items):
                return TupleVal([v for _, v in items])
            return self.alloc(st, ListObj(items))
        if name == "sorted":
            items = self.iter_values(st, args[0], node, module)
            lo = ListObj(self.sort_items(st, items, kwargs, node, module))
            return self.alloc(st, lo)
        if name == "iter" and len(args) == 2:
            # iter(callable, sentinel): consumed by s_For as `while True: x = callable(); if x == sentinel: (else) break`
            from .interp import CallIterObj

            return self.alloc(st, CallIterObj(args[0], args[1]))
        if name == "iter" and len(args) == 1:
            items = self.iter_values(st, args[0], node, module)
            lo = ListObj(list(items))
            lo.one_shot = True
            lo.iterator = True
            return self.alloc(st, lo)
        if name == "next" and args and isinstance(args[0], Ref) and st.heap[args[0].id].kind == "list":
            o = st.heap[args[0].id]
            if o.items and all(isinstance(g, Const) and truth_const(g.v) for g, _ in o.items):
                g, v = o.items.pop(0)
                self.event("iterator_consumed", node, module, st, list=args[0].id)
                return v
            if not o.items:
                if len(args) > 1:
                    return args[1]
                self.hazard(st, "StopIteration", node, module, TRUE, "next() on an exhausted iterator")
                raise Dead()
            # conditionally present elements: first present one, default / StopIteration when none
            anyp = mk_or([g for g, _ in o.items])
            out = args[1] if len(args) > 1 else None
            if out is None:
                self.hazard(st, "StopIteration", node, module, mk_not(anyp), "next() on a possibly empty iterator")
                self.assume(st, anyp)
                out = o.items[-1][1]
                seq = o.items[:-1]
            else:
                seq = o.items
            for g, v in reversed(seq):
                out = self.mk_ite(st, g, v, out)
            return out
        if name == "hash":
            x = args[0]
            if isinstance(x, TupleVal) and all(isinstance(i_, Term) for i_ in x.items):
                return App("hash", (App("tuple", x.items),))
            return App("hash", (x,)) if isinstance(x, Term) else Opaque("hash(obj)")
        if name == "isinstance":
            x, c = args
            if isinstance(x, Ref) and st.heap[x.id].kind == "inst" and isinstance(c, ClassVal):
                return Const(st.heap[x.id].cls.node is c.cls.node)
            if isinstance(x, Term) and not isinstance(x, (Opaque,)) and isinstance(c, ClassVal):
                return FALSE
            return App("isinstance", (x if isinstance(x, Term) else Opaque("obj"), Opaque(str(c))))
        if name == "type":
            x = args[0]
            if isinstance(x, Ref) and st.heap[x.id].kind == "map":
                return ExtVal("collections.OrderedDict") if st.heap[x.id].ordered else Builtin("dict")
            if isinstance(x, Ref) and st.heap[x.id].kind == "list":
                return Builtin("list")
            if isinstance(x, Const) and isinstance(x.v, dict):
                return ExtVal("collections.OrderedDict") if getattr(x.v, "ordered", False) else Builtin("dict")
            if isinstance(x, Const) and isinstance(x.v, list):
                return Builtin("list")
            if isinstance(x, TupleVal) or (isinstance(x, Const) and isinstance(x.v, tuple)):
                return Builtin("tuple")
            return App("type", (args[0],)) if isinstance(args[0], Term) else Opaque("type")
        if name == "dict":
            return self.make_dict(st, args, kwargs, False, node, module)
        if name in ("enumerate", "zip", "range", "reversed"):
            lo = ListObj(self.iter_builtin(st, name, args, node, module))
            lo.one_shot = name in ("enumerate", "zip", "reversed")
            return self.alloc(st, lo)
        if name in ("map", "filter"):
            fnv = args[0]
            items = self.iter_values(st, args[1], node, module)
            out = []
            for g, v in items:
                r = self.call(st, fnv, [v], {}, node, module) if not (isinstance(fnv, Const) and fnv.v is None) else v
                if name == "map":
                    out.append((g, r))
                else:
                    out.append((mk_and([g, self.truth(st, r, node)]), v))
            lo = ListObj(out)
            lo.one_shot = True  # an iterator on Python 3, a list on Python 2
            lo.iterator = True
            self.event("lazy_iterator", node, module, st, what="%s() result" % name, list=None)
            return self.alloc(st, lo)
        if name == "getattr" and len(args) in (2, 3) and isinstance(args[1], Const) and isinstance(args[1].v, str) and not kwargs:
            if len(args) == 2:
                return self.simp(st, self.getattr(st, args[0], args[1].v, node, module))
            n_ev = len(self.events)
            try:
                return self.simp(st, self.getattr(st, args[0], args[1].v, node, module))
            except Dead:
                # the attribute is missing: getattr() with a default swallows the AttributeError
                self.events[n_ev:] = [e_ for e_ in self.events[n_ev:] if not (e_.kind == "hazard" and e_.data.get("exc") == "AttributeError")]
                return args[2]
        if name == "hasattr" and len(args) == 2 and isinstance(args[1], Const) and isinstance(args[0], Ref) and st.heap[args[0].id].kind == "inst":
            o_ = st.heap[args[0].id]
            return Const(args[1].v in o_.attrs or args[1].v in o_.cls.methods or args[1].v in o_.cls.class_assigns)
        if name in ("input", "raw_input") and getattr(self, "input_hook", None) is not None:
            return self.input_hook(st, node, module)
        if name == "print":
            self.event("print", node, module, st)
            return Const(None)
        if name == "sum":
            items = self.iter_values(st, args[0], node, module)
            acc = self.to_poly(st, args[1], node, module) if len(args) > 1 else P.const(0, "int")
            for g, v in items:
                if not (isinstance(g, Const) and truth_const(g.v)):
                    raise AnalysisError("E5.call", "sum() over guarded list", node, module)
                acc = T.p_add(acc, self.to_poly(st, v, node, module))
            return acc
        if name in ("set", "frozenset"):
            items = self.iter_values(st, args[0], node, module) if args else []
            lo = ListObj(items)
            lo.kind = "set"
            lo.hash_ordered = True
            return self.alloc(st, lo)
        if name.endswith("Error") or name in ("Exception",):
            return App("exc", tuple(a for a in args if isinstance(a, Term)), (name,))
        raise AnalysisError("E5.call", "builtin %s not modelled" % name, node, module)

    def try_fold_bool(self, st, c):
        """Fold a boolean structure of Fin atoms into one table when small enough."""
        atoms = []

        def collect(x):
            if isinstance(x, BoolOp):
                return all(collect(a) for a in x.args)
            if isinstance(x, (Fin, Const)):
                atoms.append(x)
                return True
            return False

        if not collect(c):
            return prop_reduce(c)
        fo = st.folder()
        if not fo.can_fold(atoms):
            return prop_reduce(c)
        nrows = 1
        for sl in set(x for a in atoms if isinstance(a, Fin) for x in a.slots):
            nrows *= len(fo.domain(sl))
        if nrows > getattr(self, "bool_fold_limit", 8192):
            return prop_reduce(c)
        slots = set()
        for a in atoms:
            if isinstance(a, Fin):
                slots.update(a.slots)
        slots, rows = fo.rows(slots)
        if rows is None:
            return c
        MISS = object()
        index = dict((s_, i) for i, s_ in enumerate(slots))

        def ev(x, r):
            if isinstance(x, Const):
                return bool(truth_const(x.v))
            if isinstance(x, Fin):
                v = x.table.get(tuple(r[index[s_]] for s_ in x.slots), MISS)
                return MISS if v is MISS else bool(truth_const(v))
            if x.op == "not":
                v = ev(x.args[0], r)
                return MISS if v is MISS else (not v)
            # an operand may be undefined on this row (it was computed under the assumption that
            # another operand did not decide the result): Kleene connectives, whatever the order
            miss = False
            for a in x.args:
                v = ev(a, r)
                if v is MISS:
                    miss = True
                    continue
                if x.op == "and" and not v:
                    return False
                if x.op == "or" and v:
                    return True
            return MISS if miss else x.op == "and"

        table = {}
        for r in rows:
            v = ev(c, r)
            if v is not MISS:
                table[r] = v
        return fo.simplify(Fin(slots, table))

    def conv_float(self, st, x, node, module):
        if isinstance(x, Const):
            v = x.v
            if isinstance(v, str):
                if v.strip().lower() in ("nan", "+nan", "-nan"):
                    return Const(NAN)
                try:
                    return Const(Flt(Fraction(v.strip())))
                except Exception:
                    self.hazard(st, "ValueError", node, module, TRUE, "float(%r)" % v)
                    raise Dead()
            if is_num(v):
                return Const(Flt(qof(v)))
        if isinstance(x, App) and x.op == "ite":
            return self.mk_ite(
                st, x.args[0], self.conv_float(st, x.args[1], node, module), self.conv_float(st, x.args[2], node, module)
            )
        if isinstance(x, Fin) and is_discrete(x) and all(isinstance(v_, str) for v_ in x.table.values()):
            # a table of strings: float() row by row (the builtin's own grammar), ValueError where it fails
            fo = st.folder()
            r0 = fo.restrict(x)
            if isinstance(r0, Const):
                return self.conv_float(st, r0, node, module)

            def conv(s_):
                try:
                    f_ = float(s_)
                except ValueError:
                    return ERR
                if f_ != f_:
                    return NAN
                if f_ in (float("inf"), float("-inf")):
                    return Flt(Fraction(10) ** 400 * (1 if f_ > 0 else -1))
                return Flt(Fraction(f_))  # the double float() really returns (7.50000000000000000000001 -> 7.5)

            r = fo.fold(conv, [r0])
            errs = fo.fold(lambda s_: conv(s_) is ERR, [r0])
            if not (isinstance(errs, Const) and not errs.v):
                self.hazard(st, "ValueError", node, module, errs, "float() of a non-numeric string")
                if isinstance(errs, Const):
                    raise Dead()
                self.assume(st, mk_not(errs))
                r = st.folder().restrict(r) if isinstance(r, Fin) else r
            return r
        if isinstance(x, (Opaque,)) or strish(x):
            self.event("may_raise", node, module, st, exc="ValueError")
            return P.atom(App("float", (x,)), "flt")
        p = self.to_poly(st, x, node, module)
        if p.kind == "flt":
            return p
        return P.atom(App("float", (p,)), "flt")

    def make_dict(self, st, args, kwargs, ordered, node, module):
        m = MapObj(ordered, "OrderedDict" if ordered else "dict")
        if args:
            src = args[0]
            if isinstance(src, Ref) and st.heap[src.id].kind == "map":
                o = st.heap[src.id]
                if ordered and not o.ordered:
                    self.event("ordered_from_plain", node, module, st)
                m.entries = dict(o.entries)
                m.order = list(o.order)
                m.input_ordered = o.input_ordered
            elif isinstance(src, Const) and isinstance(src.v, dict):
                for k in src.v:
                    m.set(k, TRUE, Const(src.v[k]))
            else:
                for g, it in self.iter_values(st, src, node, module):
                    if isinstance(it, Const) and isinstance(it.v, (tuple, list)) and len(it.v) == 2:
                        k, v = Const(it.v[0]), Const(it.v[1])
                    elif isinstance(it, TupleVal) and len(it.items) == 2:
                        k, v = it.items
                    else:
                        raise AnalysisError("E5.call", "dict() item is not a pair", node, module)
                    if not isinstance(k, Const):
                        raise AnalysisError("E5.call", "dict() with symbolic key", node, module)
                    m.set(k.v, g, v)
                if isinstance(src, Ref) and getattr(st.heap[src.id], "sorted_from", None):
                    pass
        for k, v in kwargs.items():
            m.set(k, TRUE, v)
        return self.alloc(st, m)

    def positional_cases(self, st, lists, node, module):
        """Positions in a sequence with conditionally present elements depend on which of the earlier
        elements exist.  Splits on the distinct non-constant element guards and yields
        (case condition, [concrete value list per input list]) for every feasible case."""
        guards = {}
        for items in lists:
            for g, _ in items:
                if not isinstance(g, Const):
                    guards.setdefault(g.sortkey(), g)
        if not guards:
            yield TRUE, [[v for g, v in items if truth_const(g.v)] for items in lists]
            return
        if len(guards) > 6:
            raise AnalysisError("E5.loop", "positional iteration over a sequence with %d independent optional elements" % len(guards), node, module)
        keys = sorted(guards)
        import itertools

        for bits in itertools.product((True, False), repeat=len(keys)):
            choice = dict(zip(keys, bits))
            cond = mk_and([guards[k] if choice[k] else mk_not(guards[k]) for k in keys])
            cond = self.try_fold_bool(st, cond) if isinstance(cond, BoolOp) else cond
            if self.decide(st, cond) is False:
                continue
            concrete = []
            for items in lists:
                concrete.append([v for g, v in items if (truth_const(g.v) if isinstance(g, Const) else choice[g.sortkey()])])
            yield cond, concrete

    def iter_builtin(self, st, name, args, node, module):
        if name == "range":
            if not all(isinstance(a, Const) and isinstance(a.v, int) for a in args):
                raise AnalysisError("E5.loop", "range() with symbolic bounds", node, module)
            return [(TRUE, Const(i)) for i in range(*[a.v for a in args])]
        if name == "enumerate":
            items = self.iter_values(st, args[0], node, module)
            start = args[1].v if len(args) > 1 and isinstance(args[1], Const) else 0
            out = []
            for cond, (concrete,) in self.positional_cases(st, [items], node, module):
                for i, v in enumerate(concrete):
                    out.append((cond, TupleVal([Const(start + i), v])))
            return out
        if name == "zip":
            lists = [self.iter_values(st, a, node, module) for a in args]
            out = []
            for cond, concrete in self.positional_cases(st, lists, node, module):
                for row in zip(*concrete):
                    out.append((cond, TupleVal(list(row))))
            return out
        if name == "reversed":
            return list(reversed(self.iter_values(st, args[0], node, module)))
        raise AnalysisError("E5.loop", name, node, module)

    # ------------------------------------------------------------------ external calls

    # ------------------------------------------------------------------ regular expressions on tables
    # Opt-in (`regex_on_tables`): a pattern is data of the source and its semantics are those of
    # Python's re; applied to a table of representative strings it is evaluated row by row.  A
    # match object is the value ("re-match", whole match, groups) or None.
    def regex_ext(self, st, dotted, args, kwargs, node, module):
        import re as _re

        if dotted == "re.compile" and args and isinstance(args[0], Const) and isinstance(args[0].v, str):
            if len(args) > 1 or kwargs:
                raise AnalysisError("E5.regex", "regex flags are not modelled here", node, module)
            o = Opaque("regex:" + args[0].v)
            try:
                o.re_compiled = _re.compile(args[0].v)
            except _re.error as e:
                self.hazard(st, "re.error", node, module, TRUE, "invalid pattern: %s" % e)
                raise Dead()
            return o
        if dotted in ("re.match", "re.fullmatch", "re.search", "re.split", "re.findall") and len(args) >= 2 and isinstance(args[0], Const) and isinstance(args[0].v, str):
            o = Opaque("regex:" + args[0].v)
            rest = list(args[1:])
            fl = 0
            fv = kwargs.get("flags") if kwargs else None
            if fv is None and len(rest) == 2 and dotted != "re.split":
                fv = rest.pop()
            if fv is not None:
                # re.I / re.IGNORECASE / combinations with |
                names = []
                if isinstance(fv, ExtVal) and fv.dotted.startswith("re."):
                    names = [fv.dotted[3:]]
                elif isinstance(fv, Const) and isinstance(fv.v, int):
                    fl = fv.v
                else:
                    raise AnalysisError("E5.regex", "regex flags are not modelled here", node, module)
                for nm in names:
                    if not hasattr(_re, nm):
                        raise AnalysisError("E5.regex", "unknown regex flag %s" % nm, node, module)
                    fl |= int(getattr(_re, nm))
                kwargs = dict((k, v) for k, v in (kwargs or {}).items() if k != "flags")
            try:
                o.re_compiled = _re.compile(args[0].v, fl)
            except _re.error as e:
                self.hazard(st, "re.error", node, module, TRUE, "invalid pattern: %s" % e)
                raise Dead()
            return self.regex_call(st, o, dotted[3:], rest, kwargs, node, module)
        if dotted == "re.sub" and len(args) >= 3 and not kwargs and all(isinstance(a, Const) and isinstance(a.v, str) for a in args[:2]):
            # re.sub(pattern, replacement, string[, count]) with constant pattern and replacement
            o = Opaque("regex:" + args[0].v)
            o.re_compiled = _re.compile(args[0].v)
            return self.regex_call(st, o, "sub", [args[2], args[1]] + list(args[3:]), kwargs, node, module)
        return None

    def regex_call(self, st, rx, name, args, kwargs, node, module):
        if kwargs or not args:
            raise AnalysisError("E5.regex", "regex call with keyword arguments", node, module)
        s_ = args[0]
        if isinstance(s_, App) and s_.op == "ite":
            a_ = self.regex_call(st, rx, name, [s_.args[1]] + list(args[1:]), kwargs, node, module)
            b_ = self.regex_call(st, rx, name, [s_.args[2]] + list(args[1:]), kwargs, node, module)
            return self.mk_ite(st, s_.args[0], a_, b_)
        if isinstance(s_, Fin):
            s_ = st.folder().restrict(s_)
        if not (isinstance(s_, (Fin, Const)) and all(isinstance(x, str) for x in (s_.table.values() if isinstance(s_, Fin) else [s_.v]))):
            raise AnalysisError("E5.regex", "regex applied to %r" % (repr(s_)[:200],), node, module)
        extra = [a.v for a in args[1:] if isinstance(a, Const)]
        if len(extra) != len(args) - 1:
            raise AnalysisError("E5.regex", "regex call with symbolic extra arguments", node, module)
        cre = rx.re_compiled

        def run(x):
            if name in ("match", "fullmatch", "search"):
                m = getattr(cre, name)(x, *extra)
                if m is None:
                    return None
                return ("re-match", m.group(0), TTuple(list(m.groups())))
            if name == "split":
                return TTuple(cre.split(x, *extra))
            if name == "findall":
                return TTuple([y if isinstance(y, str) else TTuple(list(y)) for y in cre.findall(x)])
            if name == "sub" and extra and isinstance(extra[0], str):
                return cre.sub(extra[0], x, *extra[1:])
            raise AnalysisError("E5.regex", "regex method %s is not modelled" % name, node, module)

        if isinstance(s_, Const):
            return Const(run(s_.v))
        return st.folder().fold(run, [s_])

    @staticmethod
    def is_regex_match(x):
        vals = x.table.values() if isinstance(x, Fin) else [x.v] if isinstance(x, Const) else []
        vals = [v for v in vals if v is not None]
        return bool(vals) and all(isinstance(v, tuple) and len(v) == 3 and v[0] == "re-match" for v in vals)

    def regex_match_method(self, st, recv, name, args, kwargs, node, module):
        """methods of a match object; on rows where the match failed (None) the call raises"""
        fo = st.folder()
        if isinstance(recv, Fin):
            nonec = fo.fold(lambda m: m is None, [recv])
            d = self.decide(st, nonec)
            if d is not False:
                self.hazard(st, "AttributeError", node, module, nonec, "method %s of a failed match (None)" % name)
                if d is True:
                    raise Dead()
                self.assume(st, mk_not(nonec))
                recv = st.folder().restrict(recv)
                fo = st.folder()
        idx = [a.v for a in args if isinstance(a, Const)]
        if len(idx) != len(args) or kwargs:
            raise AnalysisError("E5.regex", "match-object call with symbolic arguments", node, module)

        def meth(m):
            try:
                if name == "groups":
                    return m[2]
                if name == "group":
                    if not idx:
                        return m[1]
                    if len(idx) == 1:
                        return m[1] if idx[0] == 0 else m[2][idx[0] - 1]
                    return TTuple([m[1] if i == 0 else m[2][i - 1] for i in idx])
            except IndexError:
                return ERR
            raise AnalysisError("E5.regex", "match-object method %s is not modelled" % name, node, module)

        return Const(meth(recv.v)) if isinstance(recv, Const) else fo.fold(meth, [recv])

    def call_ext(self, st, dotted, args, kwargs, node, module):
        hook = getattr(self, "ext_hook", None)
        if hook is not None:
            r = hook(st, dotted, args, kwargs, node, module)
            if r is not None:
                return r
        if getattr(self, "regex_on_tables", False) and dotted.startswith("re."):
            r = self.regex_ext(st, dotted, args, kwargs, node, module)
            if r is not None:
                return r
        if dotted == "decimal.Decimal":
            (x,) = args
            if isinstance(x, Const):
                v = x.v
                if isinstance(v, str):
                    try:
                        return Const(Dec(Fraction(v.strip()), v))
                    except Exception:
                        self.hazard(st, "InvalidOperation", node, module, TRUE, "Decimal(%r)" % v)
                        raise Dead()
                if isinstance(v, int) and not isinstance(v, bool):
                    return Const(Dec(Fraction(v), str(v)))
                if isinstance(v, Flt):
                    # a literal double: Decimal() takes its exact binary expansion
                    self.event("decimal_from_float", node, module, st)
                    return Const(Dec(Fraction(float(v.q)), "Decimal(%s)" % (v.text if v.text is not None else v.q)))
            if isinstance(x, Fin) and is_discrete(x) and strish(x):
                def d(s):
                    try:
                        t_ = s.strip().replace("_", "")
                        if t_.lower().lstrip("+-") in ("nan", "snan"):
                            return NAN
                        if t_.lower().lstrip("+-") in ("inf", "infinity"):
                            return Dec(Fraction(10) ** 400 * (-1 if t_.startswith("-") else 1), s)
                        return Dec(Fraction(t_), s)
                    except Exception:
                        return ERR
                fo_ = st.folder()
                r_ = fo_.fold(d, [x])
                errs_ = fo_.fold(lambda s_: d(s_) is ERR, [x])
                if not (isinstance(errs_, Const) and not errs_.v):
                    self.hazard(st, "InvalidOperation", node, module, errs_, "Decimal() of a non-numeric string")
                    if isinstance(errs_, Const):
                        raise Dead()
                    self.assume(st, mk_not(errs_))
                    r_ = st.folder().restrict(r_) if isinstance(r_, Fin) else r_
                return r_
            p = self.to_poly(st, x, node, module)
            if p.kind in ("flt", "mixed"):
                self.event("decimal_from_float", node, module, st)
            return P.atom(App("Decimal", (p,)), "dec")
        if dotted == "functools.reduce" and len(args) in (2, 3) and not kwargs:
            items = list(self.iter_values(st, args[1], node, module))
            if not all(isinstance(g, Const) and truth_const(g.v) for g, _ in items):
                raise AnalysisError("E5.call", "reduce() over conditionally present elements", node, module)
            vals = [v for _, v in items]
            if len(args) == 3:
                acc = args[2]
            elif vals:
                acc, vals = vals[0], vals[1:]
            else:
                self.hazard(st, "TypeError", node, module, TRUE, "reduce() of an empty sequence without initial value")
                raise Dead()
            for v in vals:
                acc = self.call(st, args[0], [acc, v], {}, node, module)
            return acc
        if dotted == "itertools.groupby" and 1 <= len(args) <= 2 and set(kwargs) <= {"key"}:
            # consecutive elements with equal keys form a group (elements and keys must be static)
            keyf = kwargs.get("key", args[1] if len(args) > 1 else None)
            items = list(self.iter_values(st, args[0], node, module))
            if not all(isinstance(g, Const) and truth_const(g.v) for g, _ in items):
                raise AnalysisError("E5.call", "groupby() over conditionally present elements", node, module)
            groups = []
            for _, v in items:
                k = v if keyf is None or (isinstance(keyf, Const) and keyf.v is None) else self.call(st, keyf, [v], {}, node, module)
                if isinstance(k, Fin):
                    k = st.folder().restrict(k)
                if not isinstance(k, Const):
                    raise AnalysisError("E5.call", "groupby() with a key that is not static", node, module)
                if groups and T.ckey(groups[-1][0].v) == T.ckey(k.v):
                    groups[-1][1].append(v)
                else:
                    groups.append((k, [v]))
            out = []
            for k, vs in groups:
                sub = ListObj([(TRUE, x) for x in vs])
                sub.one_shot = True
                sub.iterator = True
                out.append((TRUE, TupleVal([k, self.alloc(st, sub)])))
            lo = ListObj(out)
            lo.one_shot = True
            lo.iterator = True
            return self.alloc(st, lo)
        if dotted in ("itertools.chain", "itertools.chain.from_iterable") and not kwargs:
            srcs = args
            if dotted.endswith("from_iterable"):
                srcs = [v_ for _, v_ in self.iter_values(st, args[0], node, module)]
            out_ = []
            for src_ in srcs:
                out_.extend(self.iter_values(st, src_, node, module))
            lo = ListObj(out_)
            lo.one_shot = True
            lo.iterator = True
            return self.alloc(st, lo)
        if dotted == "collections.defaultdict":
            if len(args) > 1 or kwargs:
                raise AnalysisError("E5.call", "defaultdict() with initial content", node, module)
            m = MapObj(False, "defaultdict")
            m.default_factory = args[0] if args and not (isinstance(args[0], Const) and args[0].v is None) else None
            return self.alloc(st, m)
        if dotted in ("copy.copy", "copy.deepcopy"):
            (x,) = args
            if isinstance(x, Ref):
                o = st.heap[x.id]
                if o.kind in ("map", "list", "set"):
                    return self.alloc(st, o.copy())
                raise AnalysisError("E5.call", "copy of instance", node, module)
            if isinstance(x, Const) and isinstance(x.v, dict):
                return self.make_dict(st, [x], {}, getattr(x.v, "ordered", False), node, module)
            return x
        if dotted in ORDERED_DICT:
            return self.make_dict(st, args, kwargs, True, node, module)
        if dotted == "json.dumps":
            return Opaque("json.dumps", set().union(*[deps_of(a) for a in args if isinstance(a, Term)]) if args else ())
        if dotted in ("bisect.bisect_left", "bisect.bisect_right", "bisect.bisect") and len(args) == 2 and not kwargs:
            # position of x in a constant sorted sequence: a threshold chain over x
            seq = args[0]
            elts = None
            if isinstance(seq, Const) and isinstance(seq.v, (list, tuple)):
                from .interp_expr import wrap_const

                elts = [wrap_const(e) for e in seq.v]
            elif isinstance(seq, TupleVal):
                elts = list(seq.items)
            elif isinstance(seq, Ref) and st.heap[seq.id].kind == "list" and all(isinstance(g, Const) and truth_const(g.v) for g, _ in st.heap[seq.id].items):
                elts = [x for _, x in st.heap[seq.id].items]
            if elts is not None:
                sym = ">=" if dotted.endswith("left") else ">"
                out = Const(len(elts))
                for i in range(len(elts) - 1, -1, -1):
                    c = self.compare_sym(st, sym, elts[i], args[1], node, module, False)
                    out = self.mk_ite(st, c, Const(i), out)
                return out
        OPS = {"operator.mul": ast.Mult, "operator.add": ast.Add, "operator.sub": ast.Sub, "operator.truediv": ast.Div, "operator.floordiv": ast.FloorDiv, "operator.mod": ast.Mod, "operator.pow": ast.Pow}
        if dotted in OPS and len(args) == 2 and not kwargs:
            return self.binop(st, OPS[dotted](), args[0], args[1], node, module)
        if dotted in ("operator.eq", "operator.ne", "operator.lt", "operator.le", "operator.gt", "operator.ge") and len(args) == 2 and not kwargs:
            sym = {"eq": "==", "ne": "!=", "lt": "<", "le": "<=", "gt": ">", "ge": ">="}[dotted[9:]]
            return self.compare_sym(st, sym, args[0], args[1], node, module, False)
        if dotted == "operator.neg" and len(args) == 1:
            return self.binop(st, ast.Sub(), Const(0), args[0], node, module)
        if getattr(self, "ext_hook", None) is None and not dotted.startswith(("argparse.", "sys.", "json.")):
            # a function of another module that is not modelled: what it returns is unknown, and a
            # rule that meets an unknown value can neither accept nor reject it
            raise AnalysisError("E5.ext", "call of %s is not modelled" % dotted, node, module)
        self.event("ext_call", node, module, st, dotted=dotted)
        deps = set()
        for a in args:
            if isinstance(a, Term):
                deps |= deps_of(a)
        return Opaque("ext:" + dotted, deps)

    # ------------------------------------------------------------------ methods on abstract values
    def call_method(self, st, recv, name, args, kwargs, node, module):
        hook = getattr(self, "method_hook", None)
        if hook is not None:
            r = hook(st, recv, name, args, kwargs, node, module)
            if r is not None:
                return r
        if getattr(self, "regex_on_tables", False):
            if isinstance(recv, Opaque) and getattr(recv, "re_compiled", None) is not None:
                return self.regex_call(st, recv, name, list(args), kwargs, node, module)
            if isinstance(recv, (Fin, Const)) and self.is_regex_match(recv):
                return self.regex_match_method(st, recv, name, args, kwargs, node, module)
        fo = st.folder()
        if isinstance(recv, Ref):
            o = st.heap[recv.id]
            if o.kind == "map":
                return self.map_method(st, recv, o, name, args, kwargs, node, module)
            if o.kind in ("list", "set"):
                return self.list_method(st, recv, o, name, args, kwargs, node, module)
        if isinstance(recv, Const) and isinstance(recv.v, (dict, list)):
            cont = recv.v
            if name in MAP_MUTATORS + LIST_MUTATORS and not (isinstance(cont, dict) and name == "pop" and False):
                kw_ = {}
                if name == "setdefault" and args and isinstance(node, ast.Call) and isinstance(node.func, ast.Attribute):
                    kw_ = dict(key=args[0], value=args[1] if len(args) > 1 else Const(None), table=short(node.func.value))
                self.event("global_write", node, module, st, what="%s() on a constant table" % name, **kw_)
                return Opaque("mutated-table")
            if isinstance(cont, dict):
                if name == "get":
                    k = args[0]
                    d = args[1] if len(args) > 1 else Const(None)
                    if isinstance(k, Fin):
                        k = fo.restrict(k)
                    if isinstance(k, Const):
                        return Const(cont[k.v]) if k.v in cont else d
                    if isinstance(k, Fin):
                        hit = fo.fold(lambda x: x in cont, [k])
                        val = fo.fold(lambda x: cont.get(x, ERR), [k])
                        return self.mk_ite(st, hit, val, d)
                    if isinstance(k, App) and k.op == "cat" and all(is_discrete(p) for p in k.args) and fo.can_fold(k.args):
                        hit = fo.fold(lambda *ps: "".join(ps) in cont, list(k.args))
                        val = fo.fold(lambda *ps: cont.get("".join(ps), ERR), list(k.args))
                        return self.mk_ite(st, hit, val, d)
                    if isinstance(k, App) and k.op == "ite":
                        # the lookup distributes over a gated key
                        a_ = self.call_method(st, recv, name, [k.args[1]] + list(args[1:]), kwargs, node, module)
                        b_ = self.call_method(st, recv, name, [k.args[2]] + list(args[1:]), kwargs, node, module)
                        return self.mk_ite(st, k.args[0], a_, b_)
                    raise AnalysisError("E5.call", "table.get with key %r" % (k,), node, module)
                if name in ("keys", "values", "items"):
                    if not getattr(cont, "ordered", False):
                        self.event("plain_dict_iter", node, module, st, what="%s() of a plain dict table" % name)
                    if name == "keys":
                        return self.alloc(st, ListObj([(TRUE, Const(k)) for k in cont]))
                    if name == "values":
                        return self.alloc(st, ListObj([(TRUE, Const(cont[k])) for k in cont]))
                    return self.alloc(st, ListObj([(TRUE, TupleVal([Const(k), Const(cont[k])])) for k in cont]))
                if name == "copy":
                    return self.make_dict(st, [recv], {}, getattr(cont, "ordered", False), node, module)
            if isinstance(cont, list):
                if name == "index" and isinstance(args[0], Const):
                    try:
                        return Const(cont.index(args[0].v))
                    except ValueError:
                        self.hazard(st, "ValueError", node, module, TRUE, "list.index miss")
                        raise Dead()
                if name == "count" and isinstance(args[0], Const):
                    return Const(cont.count(args[0].v))
                if name == "copy":
                    return self.alloc(st, ListObj([(TRUE, Const(x)) for x in cont]))
        if (isinstance(recv, (Const, Fin)) and strish(recv)) or (isinstance(recv, App) and recv.op in ("cat", "join")):
            return self.str_method(st, recv, name, args, kwargs, node, module)
        if isinstance(recv, P) or (isinstance(recv, Const) and isinstance(recv.v, Num)):
            p = self.to_poly(st, recv, node, module)
            if name == "quantize":
                exp = args[0] if args else kwargs.get("exp")
                mode = kwargs.get("rounding", args[1] if len(args) > 1 else None)
                if not (isinstance(exp, Const) and isinstance(exp.v, Num)):
                    raise AnalysisError("E5.call", "quantize with non-constant exponent", node, module)
                if mode is None:
                    self.event("quantize_ambient_rounding", node, module, st)
                    mname = "<context>"
                elif isinstance(mode, ExtVal):
                    mname = mode.dotted
                elif isinstance(mode, Const) and isinstance(mode.v, str):
                    mname = "decimal." + mode.v
                else:
                    raise AnalysisError("E5.call", "quantize with symbolic rounding mode", node, module)
                if p.kind == "flt":
                    self.hazard(st, "AttributeError", node, module, TRUE, "float has no quantize")
                return P.atom(App("quant", (p,), (str(exp.v.q), mname)), "dec")
            if name == "scaleb" and len(args) == 1 and isinstance(args[0], Const) and isinstance(args[0].v, int) and not isinstance(args[0].v, bool):
                # exact: multiplication by a power of ten
                return T.p_mul(p, P.const(Fraction(10) ** args[0].v, p.kind))
            if name in ("copy_abs", "normalize", "to_integral_value", "sqrt", "ln", "exp", "__round__"):
                return P.atom(App("decmeth:" + name, (p,)), p.kind)
            raise AnalysisError("E5.call", "numeric method %s" % name, node, module)
        if isinstance(recv, App) and recv.op == "ite":
            # methods distribute over a gated value
            a = self.call_method(st, recv.args[1], name, args, kwargs, node, module)
            b = self.call_method(st, recv.args[2], name, args, kwargs, node, module)
            return self.mk_ite(st, recv.args[0], a, b)
        if isinstance(recv, (Opaque, App)):
            deps = deps_of(recv)
            for a in args:
                if isinstance(a, Term):
                    deps |= deps_of(a)
            if name in ("startswith", "endswith") and args and isinstance(args[0], Const):
                return App(name, (recv, args[0]))
            sig = ",".join([repr(a.v) if isinstance(a, Const) else "?" for a in args] + ["%s=%s" % (k, repr(v.v) if isinstance(v, Const) else "?") for k, v in sorted(kwargs.items())])
            return Opaque("meth:%s(%s)" % (name, sig), deps | {"opaque:" + recv.tag if isinstance(recv, Opaque) else "app"})
        if isinstance(recv, TupleVal):
            if name == "index" or name == "count":
                raise AnalysisError("E5.call", "tuple.%s" % name, node, module)
        if isinstance(recv, Fin) and name in STR_ONLY_METHODS:
            # a string method on a table some of whose rows are not strings (a number, None): those
            # rows raise AttributeError
            fo = st.folder()
            r0 = fo.restrict(recv)
            if isinstance(r0, Fin):
                bad = fo.fold(lambda x: not isinstance(x, str), [r0])
                d = self.decide(st, bad)
                if d is True:
                    self.hazard(st, "AttributeError", node, module, TRUE, "%s() of a value that is not a string" % name)
                    raise Dead()
                if d is None:
                    self.hazard(st, "AttributeError", node, module, bad, "%s() of a value that is not a string for some inputs (%s)" % (name, sorted(set(type(x).__name__ for x in r0.table.values() if not isinstance(x, str)))))
                    self.assume(st, mk_not(bad))
                    return self.call_method(st, st.folder().restrict(recv), name, args, kwargs, node, module)
        raise AnalysisError("E5.call", "method %s of %r" % (name, recv), node, module)

    def str_method(self, st, recv, name, args, kwargs, node, module):
        fo = st.folder()
        if name == "format":
            return self.format(st, recv, args, kwargs, node, module)
        if name == "join":
            items = self.iter_values(st, args[0], node, module)
            src = args[0]
            if isinstance(src, Ref) and getattr(st.heap[src.id], "hash_ordered", False):
                self.event("hash_order_flow", node, module, st, what="join over a set")
            if all(isinstance(g, Const) and truth_const(g.v) for g, _ in items) and len(items) <= 16:
                parts = []
                for i, (_, v) in enumerate(items):
                    if i:
                        parts.append(recv)
                    parts.append(v if strish(v) else self.to_str(st, v, node, module))
                r = self.cat(st, parts)
                return r
            # conditionally present elements that are all tables over few slots: the joined text is
            # itself a table
            flat = [x for g, v in items for x in (g, v)]
            if isinstance(recv, Const) and isinstance(recv.v, str) and items and all(isinstance(x, (Const, Fin)) for x in flat) and fo.can_fold(flat) and not getattr(self, "keep_pieces", False):
                nslots = set(s_ for x in flat if isinstance(x, Fin) for s_ in x.slots)
                # an element's text is undefined on the rows where it is absent: any text will do there
                comp = []
                for x in flat:
                    if isinstance(x, Fin):
                        sl_, rows_ = fo.rows(x.slots)
                        if rows_ is not None:
                            ix_ = [sl_.index(s_) for s_ in x.slots]
                            miss_ = [k_ for k_ in (tuple(r_[i_] for i_ in ix_) for r_ in rows_) if k_ not in x.table]
                            if miss_:
                                t_ = dict(x.table)
                                for k_ in miss_:
                                    t_[k_] = ""
                                x = Fin(x.slots, t_)
                    comp.append(x)
                flat = comp
                if len(nslots) <= 3:
                    def joined(*xs):
                        out_ = []
                        for i_ in range(0, len(xs), 2):
                            if truth_const(xs[i_]):
                                if not isinstance(xs[i_ + 1], str):
                                    return ERR
                                out_.append(xs[i_ + 1])
                        return recv.v.join(out_)

                    r_ = fo.fold(joined, flat)
                    if not (isinstance(r_, Fin) and ERR in r_.table.values()) and not (isinstance(r_, Const) and r_.v is ERR):
                        return r_
            elems = []
            for g, v in items:
                elems.append(App("item", (g, v if isinstance(v, Term) else Opaque("obj"))))
            return App("join", (recv,) + tuple(elems))
        if name in ("index", "rindex") and is_discrete(recv) and strish(recv) and args and all(is_discrete(a) for a in args) and not kwargs and fo.can_fold([recv] + args):
            def ix(s_, *xs):
                try:
                    return getattr(s_, name)(*xs)
                except (ValueError, TypeError):
                    return ERR

            r = fo.fold(ix, [recv] + args)
            errs = fo.fold(lambda s_, *xs: ix(s_, *xs) is ERR, [recv] + args)
            if not (isinstance(errs, Const) and not errs.v):
                self.hazard(st, "ValueError", node, module, errs, "str.%s(): substring not found" % name)
                if isinstance(errs, Const):
                    raise Dead()
                self.assume(st, mk_not(errs))
                r = st.folder().restrict(r) if isinstance(r, Fin) else r
            return r
        if is_discrete(recv) and all(is_discrete(a) for a in args) and not kwargs and fo.can_fold([recv] + args):
            def meth(s, *xs):
                r = pure_method(s, name, list(xs))
                if r is NotImplemented:
                    raise AnalysisError("E5.call", "str.%s not modelled" % name, node, module)
                if isinstance(r, list):
                    return TTuple(r)
                return r
            return fo.fold(meth, [recv] + args)
        return Opaque("strmeth:" + name, deps_of(recv))

    def map_method(self, st, ref, o, name, args, kwargs, node, module):
        if name == "__contains__" and len(args) == 1:
            return self.contains(st, ref, args[0], node, module)
        if name == "__getitem__" and len(args) == 1:
            return self.subscript(st, ref, args[0], node, module)
        if name == "__len__" and not args:
            return self.call_builtin(st, "len", [ref], {}, node, module)
        if name == "get":
            d = args[1] if len(args) > 1 else Const(None)
            return self.map_get(st, o, args[0], node, module, False, d)
        if name in ("keys", "values", "items"):
            if o.input_ordered:
                self.event("input_order_iter", node, module, st, what="%s() of the parsed metric map" % name)
            out = []
            for k in o.order:
                p, v = o.entries[k]
                item = Const(k) if name == "keys" else v if name == "values" else TupleVal([Const(k), v])
                out.append((p, item))
            lo = ListObj(out)
            lo.from_map = (ref.id, o.ordered, o.origin)
            return self.alloc(st, lo)
        if name == "copy":
            return self.alloc(st, o.copy())
        if name == "pop":
            self.event("map_mutation", node, module, st, what="pop", map=ref.id)
            k = args[0]
            if isinstance(k, Const) and k.v in o.entries:
                p, v = o.entries[k.v]
                o.entries[k.v] = (FALSE, v)
                if len(args) > 1:
                    return self.mk_ite(st, p, v, args[1])
                return v
            return args[1] if len(args) > 1 else Opaque("pop")
        if name == "setdefault":
            self.event("map_mutation", node, module, st, what="setdefault", map=ref.id)
            k = args[0]
            d = args[1] if len(args) > 1 else Const(None)
            if isinstance(k, Fin):
                k = st.folder().restrict(k)
            if isinstance(k, Const):
                if k.v in o.entries:
                    p, v = o.entries[k.v]
                    nv = self.mk_ite(st, p, v, d)
                else:
                    nv = d
                o.set(k.v, TRUE, nv)
                return nv
            if isinstance(k, Fin):
                # a key that is a table: for each key it can be, the entry keeps its value where it is
                # present and takes the default otherwise; the call returns the entry's value
                fo_ = st.folder()
                result = None
                for kv in sorted(set(k.table.values()), key=T.ckey):
                    c = fo_.fold(lambda x, kv=kv: x == kv, [k])
                    if kv in o.entries:
                        p0, v0 = o.entries[kv]
                        kept = self.mk_ite(st, p0, v0, d)
                        o.set(kv, mk_or([p0, c]), self.mk_ite(st, c, kept, v0))
                    else:
                        kept = d
                        o.set(kv, c, d)
                    result = kept if result is None else self.mk_ite(st, c, kept, result)
                return result
        if name in ("update", "clear", "popitem"):
            self.event("map_mutation", node, module, st, what=name, map=ref.id)
            if name == "update" and args and isinstance(args[0], Ref) and st.heap[args[0].id].kind == "map":
                src = st.heap[args[0].id]
                for k in src.order:
                    p, v = src.entries[k]
                    if k in o.entries:
                        p0, v0 = o.entries[k]
                        o.set(k, mk_or([p0, p]), self.mk_ite(st, p, v, v0))
                    else:
                        o.set(k, p, v)
                for k, v in kwargs.items():
                    o.set(k, TRUE, v)
                return Const(None)
            if name == "update" and (args or kwargs):
                # update(iterable of (key, value) pairs) / update(**kw)
                pairs = self.iter_values(st, args[0], node, module) if args else []
                for g, item in pairs:
                    if not (isinstance(item, TupleVal) and len(item.items) == 2 and isinstance(item.items[0], Const)):
                        raise AnalysisError("E5.call", "dict.update() with a non-constant key", node, module)
                    k, v = item.items[0].v, item.items[1]
                    if k in o.entries:
                        p0, v0 = o.entries[k]
                        o.set(k, mk_or([p0, g]), self.mk_ite(st, g, v, v0))
                    else:
                        o.set(k, g, v)
                for k, v in kwargs.items():
                    o.set(k, TRUE, v)
                return Const(None)
            if name == "clear":
                for k in o.order:
                    o.entries[k] = (FALSE, o.entries[k][1])
                return Const(None)
        raise AnalysisError("E5.call", "dict method %s" % name, node, module)

    def sort_items(self, st, items, kwargs, node, module):
        """sorted()/list.sort() on a list whose sort keys are constants."""
        hook = getattr(self, "sort_hook", None)
        if hook is not None:
            r = hook(st, items, kwargs, node, module)
            if r is not None:
                return r
        keyf = kwargs.get("key")
        rev = kwargs.get("reverse")
        if rev is not None and not isinstance(rev, Const):
            raise AnalysisError("E5.call", "sorted() with symbolic reverse", node, module)
        if set(kwargs) - {"key", "reverse"}:
            raise AnalysisError("E5.call", "sorted() with %s" % sorted(kwargs), node, module)

        def skey(v):
            if keyf is not None and not (isinstance(keyf, Const) and keyf.v is None):
                v = self.call(st, keyf, [v], {}, node, module)
            if isinstance(v, Fin):
                v = st.folder().restrict(v)
            if isinstance(v, Const):
                return v.v
            if isinstance(v, TupleVal) and v.items and all(isinstance(x, Const) for x in v.items):
                return tuple(x.v for x in v.items)
            if isinstance(v, TupleVal) and v.items and isinstance(v.items[0], Const):
                partial.add(len(keys_))
                return (v.items[0].v,)
            raise AnalysisError("E5.call", "sorting symbolic values", node, module)

        partial = set()  # positions whose key is known in its first component only
        keys_ = []
        for _, v in items:
            keys_.append(skey(v))
        keys = keys_
        norm = [k if isinstance(k, tuple) else (k,) for k in keys]
        firsts = [T.ckey(k[0]) for k in norm]
        for i in partial:
            if firsts.count(firsts[i]) > 1:
                # the order among these elements depends on components that are not constants
                raise AnalysisError("E5.call", "sorting with duplicate sort keys", node, module)
        # fully constant keys: ties keep the order of the sequence (the sort is stable, also with
        # reverse=True) - whether that order is the input's field order is the order rules' matter
        try:
            order = sorted(range(len(items)), key=lambda i: norm[i], reverse=bool(rev is not None and truth_const(rev.v)))
        except TypeError:
            self.event("mixed_sort", node, module, st)
            raise AnalysisError("E5.call", "sorting mixed types", node, module)
        return [items[i] for i in order]

    def list_method(self, st, ref, o, name, args, kwargs, node, module):
        if name == "__contains__" and len(args) == 1:
            return self.contains(st, ref, args[0], node, module)
        if name == "__getitem__" and len(args) == 1:
            return self.subscript(st, ref, args[0], node, module)
        if name == "__len__" and not args:
            return self.call_builtin(st, "len", [ref], {}, node, module)
        if name == "sort" and not args:
            o.items[:] = self.sort_items(st, list(o.items), kwargs, node, module)
            self.event("list_store", node, module, st, list=ref.id)
            return Const(None)
        if name == "reverse" and not args:
            o.items.reverse()
            self.event("list_store", node, module, st, list=ref.id)
            return Const(None)
        if name in ("append", "add"):
            if self.havoc_depth > 0:
                o.havoc = True
                if not hasattr(o, "havoc_items"):
                    o.havoc_items = []
                o.havoc_items.append(args[0])
                return Const(None)
            o.items.append((TRUE, args[0]))
            return Const(None)
        if name == "extend":
            o.items.extend(self.iter_values(st, args[0], node, module))
            return Const(None)
        if name == "copy":
            return self.alloc(st, o.copy())
        if name in ("index", "count") and len(args) == 1 and isinstance(args[0], Const) and all(
            isinstance(g, Const) and truth_const(g.v) and isinstance(v, Const) for g, v in o.items
        ):
            vals = [v.v for _, v in o.items]
            if name == "count":
                return Const(vals.count(args[0].v))
            if args[0].v in vals:
                return Const(vals.index(args[0].v))
            self.hazard(st, "ValueError", node, module, TRUE, "list.index miss")
            raise Dead()
        if o.kind == "set" and name in ("difference", "intersection", "union") and len(args) == 1:
            other = args[0]
            out = []
            if name == "union":
                out = list(o.items) + self.iter_values(st, other, node, module)
            else:
                for g, v in o.items:
                    c = self.contains(st, other, v, node, module)
                    out.append((mk_and([g, mk_not(c) if name == "difference" else c]), v))
            lo = ListObj(out)
            lo.kind = "set"
            lo.hash_ordered = True
            return self.alloc(st, lo)
        raise AnalysisError("E5.call", "list method %s" % name, node, module)

    # ------------------------------------------------------------------ iteration
    def iter_values(self, st, v, node, module):
        if isinstance(v, Const):
            c = v.v
            if isinstance(c, dict):
                if not getattr(c, "ordered", False):
                    self.event("plain_dict_iter", node, module, st, what="iteration over a plain dict table")
                return [(TRUE, Const(k)) for k in c]
            if isinstance(c, (list, tuple)):
                return [(TRUE, Const(x)) for x in c]
            if isinstance(c, str):
                return [(TRUE, Const(ch)) for ch in c]
        if isinstance(v, TupleVal):
            return [(TRUE, x) for x in v.items]
        if isinstance(v, Ref):
            o = st.heap[v.id]
            if o.kind in ("list", "set"):
                if getattr(o, "havoc", False):
                    raise NonStatic("E5.loop", "iteration over a list with statically unknown contents", node, module)
                if getattr(o, "one_shot", False):
                    # consuming an iterator is a state change of that object (Python 3)
                    self.event("iterator_consumed", node, module, st, list=v.id)
                    items_ = list(o.items)
                    o.items = []
                    return items_
                if getattr(o, "hash_ordered", False):
                    self.event("hash_order_flow", node, module, st, what="iteration over a set")
                    if getattr(self, "reverse_sets", False):
                        # the second object model: a set hands out its elements in another order
                        return list(reversed(o.items))
                return list(o.items)
            if o.kind == "map":
                if o.input_ordered:
                    self.event("input_order_iter", node, module, st, what="iteration over the parsed metric map")
                elif not o.ordered:
                    self.event("plain_dict_iter", node, module, st, what="iteration over a plain dict")
                return [(o.entries[k][0], Const(k)) for k in o.order]
        if isinstance(v, Fin):
            r = st.folder().restrict(v)
            if isinstance(r, Const) and isinstance(r.v, (str, tuple, list)):
                return [(TRUE, wrap_const_(ch)) for ch in r.v]
            # a table of strings / sequences that all have the same length: element-wise tables
            lens = set(len(x) if isinstance(x, str) else None for x in r.table.values())
            if len(lens) == 1 and None not in lens:
                n_ = lens.pop()
                fo_ = st.folder()
                return [(TRUE, fo_.fold(lambda s_, i=i: s_[i], [r])) for i in range(n_)]
            # a table of tuples (the result of str.split on a table of strings) of varying length:
            # element i exists on the rows whose tuple is longer than i
            if all(isinstance(x, TTuple) for x in r.table.values()) and len(set(len(x) for x in r.table.values())) <= 4:
                fo_ = st.folder()
                out_ = []
                for i in range(max(len(x) for x in r.table.values())):
                    g_ = fo_.fold(lambda t_, i=i: len(t_) > i, [r])
                    rows_ = dict((k_, x_[i]) for k_, x_ in r.table.items() if len(x_) > i)
                    out_.append((g_, fo_.simplify(Fin(r.slots, rows_))))
                return out_
        if isinstance(v, App) and v.op == "ite":
            # a sequence selected by a condition: the elements of either alternative, each under the
            # alternative's condition (element-wise when both have the same number of definite elements)
            c_ = v.args[0]
            ia = self.iter_values(st, v.args[1], node, module)
            ib = self.iter_values(st, v.args[2], node, module)
            definite = lambda its: all(isinstance(g_, Const) and truth_const(g_.v) for g_, _ in its)
            if len(ia) == len(ib) and definite(ia) and definite(ib):
                try:
                    return [(TRUE, self.mk_ite(st, c_, x_, y_)) for (_, x_), (_, y_) in zip(ia, ib)]
                except AnalysisError:
                    pass
            nc_ = mk_not(c_)
            return [(mk_and([c_, g_]), x_) for g_, x_ in ia] + [(mk_and([nc_, g_]), x_) for g_, x_ in ib]
        if isinstance(v, App) and v.op == "cat":
            from .interp_expr import piece_lengths

            total = 0
            okl = True
            for p_ in v.args:
                ls = piece_lengths(st, p_)
                if ls is None or len(ls) != 1:
                    okl = False
                    break
                total += list(ls)[0]
            if okl:
                return [(TRUE, self.simp(st, self.cat_index(st, v, i, node, module))) for i in range(total)]
        raise NonStatic("E5.loop", "iteration over non-static sequence %r" % (v,), node, module)

    def e_ListComp(self, st, env, node, module):
        return self.alloc(st, ListObj(self.comprehension(st, env, node, module)))

    def e_GeneratorExp(self, st, env, node, module):
        lo = ListObj(self.comprehension(st, env, node, module))
        # a generator object: consumed by whoever iterates it, and always true as a condition
        lo.one_shot = True
        lo.iterator = True
        return self.alloc(st, lo)

    def e_SetComp(self, st, env, node, module):
        lo = ListObj(self.comprehension(st, env, node, module))
        lo.kind = "set"
        lo.hash_ordered = True
        return self.alloc(st, lo)

    def comprehension(self, st, env, node, module):
        out = []
        cenv = self.alloc(st, EnvObj(env, module))

        def rec(gi, guard):
            if gi == len(node.generators):
                saved = (dict(st.dom), set(st.facts), list(st.constraints))
                try:
                    self.assume(st, guard)
                    out.append((guard, self.eval(st, cenv, node.elt)))
                except Dead:
                    pass
                st.dom, st.facts, st.constraints = saved
                return
            gen = node.generators[gi]
            it = self.eval(st, cenv, gen.iter)
            for g, v in self.iter_values(st, it, node, module):
                self.bind(st, cenv, gen.target, v, node, module)
                gg = mk_and([guard, g])
                ok = True
                saved = (dict(st.dom), set(st.facts), list(st.constraints))
                try:
                    self.assume(st, gg)
                    for cond in gen.ifs:
                        c = self.truth(st, self.eval(st, cenv, cond), cond)
                        gg = mk_and([gg, c])
                        self.assume(st, c)
                except Dead:
                    ok = False
                st.dom, st.facts, st.constraints = saved
                if ok:
                    rec(gi + 1, gg)

        rec(0, TRUE)
        if not getattr(st.heap.get(cenv.id), "captured", False):
            st.heap.pop(cenv.id, None)
        return out


class StmtMixin(object):
    def bind(self, st, env, target, value, node, module):
        if isinstance(target, ast.Name):
            st.heap[env.id].vars[target.id] = value
            return
        if isinstance(target, (ast.Tuple, ast.List)):
            if isinstance(value, Const) and isinstance(value.v, (tuple, list)):
                value = TupleVal([Const(x) for x in value.v])
            if isinstance(value, Ref) and st.heap[value.id].kind == "list":
                o = st.heap[value.id]
                if all(isinstance(g, Const) and truth_const(g.v) for g, _ in o.items):
                    value = TupleVal([v for _, v in o.items])
                elif all(isinstance(g, (Const, Fin)) for g, _ in o.items):
                    # elements present under table conditions: the unpack succeeds on the rows where
                    # exactly as many elements are present as there are targets
                    n = len(target.elts)
                    fo = st.folder()
                    gs = [g for g, _ in o.items]
                    okc = fo.fold(lambda *bs: sum(1 for b in bs if truth_const(b)) == n and all(truth_const(b) for b in bs[:n]), gs) if fo.can_fold(gs) else None
                    if okc is None:
                        raise AnalysisError("E5.assign", "unpacking of conditionally present elements", node, module)
                    d = self.decide(st, okc)
                    if d is False:
                        self.hazard(st, "ValueError", node, module, TRUE, "unpacking length mismatch")
                        raise Dead()
                    if d is None:
                        self.hazard(st, "ValueError", node, module, mk_not(okc), "unpacking length mismatch for some inputs")
                        self.assume(st, okc)
                    value = TupleVal([self.simp(st, v) for _, v in o.items[:n]])
                    if getattr(o, "one_shot", False):
                        o.items = []
            if isinstance(value, Fin) and all(isinstance(x, (tuple, list)) for x in value.table.values()):
                # a table of sequences: arity mismatch is a ValueError under its condition
                fo = st.folder()
                n = len(target.elts)
                r = fo.restrict(value)
                if isinstance(r, Const):
                    return self.bind(st, env, target, r, node, module)
                bad = fo.fold(lambda x: len(x) != n, [r])
                d = self.decide(st, bad)
                if d is True:
                    self.hazard(st, "ValueError", node, module, TRUE, "unpacking length mismatch")
                    raise Dead()
                if d is None:
                    self.hazard(st, "ValueError", node, module, bad, "unpacking length mismatch for some inputs")
                    self.assume(st, mk_not(bad))
                    r = st.folder().restrict(value)
                    if isinstance(r, Const):
                        return self.bind(st, env, target, r, node, module)
                fo = st.folder()
                for i, t in enumerate(target.elts):
                    self.bind(st, env, t, fo.fold(lambda x, i=i: x[i], [r]), node, module)
                return
            if not isinstance(value, TupleVal):
                if isinstance(value, (Opaque, App)):
                    self.event("may_raise", node, module, st, exc="ValueError")
                    for i, t in enumerate(target.elts):
                        self.bind(st, env, t, Opaque("unpack%d" % i, deps_of(value)), node, module)
                    return
                raise AnalysisError("E5.assign", "unpacking of %r" % (value,), node, module)
            if len(value.items) != len(target.elts):
                self.hazard(st, "ValueError", node, module, TRUE, "unpacking length mismatch")
                raise Dead()
            for t, v in zip(target.elts, value.items):
                self.bind(st, env, t, v, node, module)
            return
        if isinstance(target, ast.Attribute):
            base = self.eval(st, env, target.value)
            if isinstance(base, Ref) and st.heap[base.id].kind == "inst":
                setter = getattr(st.heap[base.id].cls, "setters", {}).get(target.attr)
                if setter is not None and target.attr not in st.heap[base.id].attrs:
                    # a store to a property runs its setter
                    self.inline(st, setter, None, [base, value], {}, target, module)
                    return
                st.heap[base.id].attrs[target.attr] = value
                self.event("attr_write", target, module, st, attr=target.attr, value=value)
                return
            if isinstance(base, (ExtVal,)):
                self.event("global_write", target, module, st, what="attribute of %s" % base.dotted)
                return
            raise AnalysisError("E5.assign", "attribute store on %r" % (base,), node, module)
        if isinstance(target, ast.Subscript):
            base = self.eval(st, env, target.value)
            idx = self.eval(st, env, target.slice)
            if isinstance(base, Ref) and st.heap[base.id].kind == "map":
                o = st.heap[base.id]
                self.event("map_store", target, module, st, map=base.id, key=idx, value=value)
                if isinstance(idx, Fin):
                    idx = st.folder().restrict(idx)
                if isinstance(idx, Const):
                    if getattr(o, "module_table", False) and self.current_func is not None:
                        self.event("global_write", target, module, st, what="store into a module-level table")
                    o.set(idx.v, TRUE, value)
                    return
                if isinstance(idx, Fin):
                    fo = st.folder()
                    for k in sorted(set(idx.table.values()), key=T.ckey):
                        c = fo.fold(lambda x, k=k: x == k, [idx])
                        if k in o.entries:
                            p0, v0 = o.entries[k]
                            o.set(k, mk_or([p0, c]), self.mk_ite(st, c, value, v0))
                        else:
                            o.set(k, c, value)
                    return
                raise AnalysisError("E5.assign", "store with symbolic key %r" % (idx,), node, module)
            if isinstance(base, Const) and isinstance(base.v, (dict, list)):
                self.event("global_write", target, module, st, what="store into a constant table", key=idx, value=value, table=short(target.value))
                return
            if isinstance(base, Ref) and st.heap[base.id].kind == "list" and isinstance(idx, Const) and isinstance(idx.v, int):
                o = st.heap[base.id]
                if all(isinstance(g, Const) and truth_const(g.v) for g, _ in o.items) and -len(o.items) <= idx.v < len(o.items):
                    self.event("list_store", target, module, st, list=base.id)
                    o.items[idx.v] = (TRUE, value)
                    return
            raise AnalysisError("E5.assign", "subscript store on %r" % (base,), node, module)
        raise AnalysisError("E5.assign", "assignment target %s" % type(target).__name__, node, module)

    # ------------------------------------------------------------------
    def exec_block(self, stmts, st, env):
        outs = []
        cur = st
        for idx, s in enumerate(stmts):
            try:
                res = self.exec_stmt(s, cur, env)
            except Dead:
                cur = None
                break
            normals = [o for o in res if o.status == "normal"]
            outs.extend(o for o in res if o.status != "normal")
            if not normals:
                cur = None
                break
            if len(normals) > 1:
                groups = self.join_groups([o.state for o in normals])
                if len(groups) > 1:
                    # path splitting: the rest of the block once per state
                    for g in groups:
                        outs.extend(self.exec_block(stmts[idx + 1 :], g, env))
                    return outs
                cur = groups[0]
            else:
                cur = normals[0].state
        if cur is not None:
            outs.append(Outcome("normal", cur))
        return outs

    def exec_stmt(self, s, st, env):
        module = st.heap[env.id].module
        m = getattr(self, "s_" + type(s).__name__, None)
        if m is None:
            raise AnalysisError("E5.stmt", "unsupported statement %s" % type(s).__name__, s, module)
        if not getattr(self, "split_unjoinable", False) or isinstance(s, (ast.If, ast.For, ast.While, ast.Try, ast.With, ast.FunctionDef)):
            return m(s, st, env, module)
        from .interp import SplitOn

        # path-splitting mode: a simple statement whose expression selects between values of
        # different shape is interpreted once per case (what it recorded so far is rolled back)
        before = st.copy()
        marks = [len(self.events)] + [len(r) for r in getattr(self, "recorders", [])]
        try:
            return m(s, st, env, module)
        except SplitOn as sp:
            del self.events[marks[0] :]
            for r, k in zip(getattr(self, "recorders", []), marks[1:]):
                del r[k:]
            outs = []
            for cond in (sp.cond, mk_not(sp.cond)):
                s2 = before.copy()
                try:
                    self.assume(s2, cond)
                    s2.pc.append(cond)
                    outs.extend(self.exec_stmt(s, s2, env))
                except Dead:
                    pass
            if not outs:
                raise Dead()
            return outs

    def s_Expr(self, s, st, env, module):
        if isinstance(s.value, ast.Constant):
            return [Outcome("normal", st)]
        self.eval(st, env, s.value)
        return [Outcome("normal", st)]

    def s_Pass(self, s, st, env, module):
        return [Outcome("normal", st)]

    def s_Assign(self, s, st, env, module):
        v = self.eval(st, env, s.value)
        for t in s.targets:
            self.bind(st, env, t, v, s, module)
        return [Outcome("normal", st)]

    def s_AnnAssign(self, s, st, env, module):
        if s.value is not None:
            self.bind(st, env, s.target, self.eval(st, env, s.value), s, module)
        return [Outcome("normal", st)]

    def s_AugAssign(self, s, st, env, module):
        cur = self.eval(st, env, _as_load(s.target))
        rhs = self.eval(st, env, s.value)
        if isinstance(cur, Ref) and st.heap[cur.id].kind == "list" and isinstance(s.op, ast.Add):
            st.heap[cur.id].items.extend(self.iter_values(st, rhs, s, module))
            return [Outcome("normal", st)]
        v = self.binop(st, s.op, cur, rhs, s, module)
        self.bind(st, env, s.target, v, s, module)
        return [Outcome("normal", st)]

    def s_Return(self, s, st, env, module):
        v = self.eval(st, env, s.value) if s.value is not None else Const(None)
        return [Outcome("return", st, v)]

    def s_Break(self, s, st, env, module):
        return [Outcome("break", st)]

    def s_Continue(self, s, st, env, module):
        return [Outcome("continue", st)]

    def s_Raise(self, s, st, env, module):
        exc = None
        name = None
        if s.exc is not None:
            node = s.exc.func if isinstance(s.exc, ast.Call) else s.exc
            try:
                exc = self.eval(st, env, node)
            except AnalysisError:
                exc = None
            if isinstance(exc, ClassVal):
                name = exc.cls.name
            elif isinstance(exc, Builtin):
                name = exc.name
            elif isinstance(exc, ExtVal):
                name = exc.dotted
            if isinstance(s.exc, ast.Call):
                # the message is evaluated before the exception is raised: it can itself raise
                for a in list(s.exc.args) + [kw.value for kw in s.exc.keywords]:
                    try:
                        self.eval(st, env, a)
                    except AnalysisError:
                        pass
        if name is None and s.exc is not None:
            # `raise helper(...)` / `raise err`: the exception object is a value; its class is what
            # the expression evaluates to
            val = self.eval(st, env, s.exc)
            if isinstance(val, App) and val.op == "exc" and val.attrs:
                name = val.attrs[0]
            elif isinstance(val, Ref) and st.heap[val.id].kind == "inst":
                name = st.heap[val.id].cls.name
            elif isinstance(val, ClassVal):
                name = val.cls.name
            if name is None:
                raise AnalysisError("E5.raise", "cannot tell which exception %s raises" % short(s), s, module)
        self.event("raise", s, module, st, exc=name, snapshot=(st.copy() if getattr(self, "try_depth", 0) > 0 else None))
        raise Dead()

    def s_Assert(self, s, st, env, module):
        c = self.truth(st, self.eval(st, env, s.test), s.test)
        d = self.decide(st, c)
        self.event("assert", s, module, st, cond=c, decided=d)
        if d is False:
            self.hazard(st, "AssertionError", s, module, TRUE, "assertion always fails")
            raise Dead()
        if d is None:
            self.hazard(st, "AssertionError", s, module, mk_not(c), "assertion %s may fail" % short(s.test))
            self.assume(st, c)
        return [Outcome("normal", st)]

    def s_FunctionDef(self, s, st, env, module):
        envo = st.heap[env.id]
        outer = envo.func
        f = Func(module, s, cls=outer.cls if outer else None, outer=outer)
        envo.captured = True
        envo.vars[s.name] = FuncVal(f, env)
        return [Outcome("normal", st)]

    def s_Global(self, s, st, env, module):
        self.event("global_stmt", s, module, st, names=list(s.names))
        return [Outcome("normal", st)]

    def s_Delete(self, s, st, env, module):
        for t in s.targets:
            if isinstance(t, ast.Name):
                st.heap[env.id].vars.pop(t.id, None)
                continue
            if isinstance(t, (ast.Tuple, ast.List)) and all(isinstance(x, ast.Name) for x in t.elts):
                for x in t.elts:
                    st.heap[env.id].vars.pop(x.id, None)
                continue
            if isinstance(t, ast.Subscript):
                base = self.eval(st, env, t.value)
                idx = self.eval(st, env, t.slice)
                if isinstance(base, Ref) and st.heap[base.id].kind == "map" and isinstance(idx, Const):
                    o = st.heap[base.id]
                    self.event("map_mutation", s, module, st, what="del", map=base.id)
                    if idx.v in o.entries:
                        o.entries[idx.v] = (FALSE, o.entries[idx.v][1])
                    continue
                if isinstance(base, Const):
                    self.event("global_write", s, module, st, what="del on a constant table")
                    continue
            raise AnalysisError("E5.stmt", "del target", s, module)
        return [Outcome("normal", st)]

    def s_If(self, s, st, env, module):
        c = self.truth(st, self.eval(st, env, s.test), s.test)
        c = self.try_fold_bool(st, c) if isinstance(c, BoolOp) else c
        d = self.decide(st, c)
        if d is True:
            return self.exec_block(s.body, st, env)
        if d is False:
            return self.exec_block(s.orelse, st, env)
        st2 = st.copy()
        outs = []
        try:
            self.assume(st, c)
            st.pc.append(c)
            outs.extend(self.exec_block(s.body, st, env))
        except Dead:
            pass
        try:
            nc = mk_not(c)
            self.assume(st2, nc)
            st2.pc.append(nc)
            outs.extend(self.exec_block(s.orelse, st2, env))
        except Dead:
            pass
        return self.merge_outcomes(outs)

    def merge_outcomes(self, outs):
        normals = [o for o in outs if o.status == "normal"]
        rest = [o for o in outs if o.status != "normal"]
        if len(normals) > 1:
            normals = [Outcome("normal", g) for g in self.join_groups([o.state for o in normals])]
        return rest + normals

    def join_groups(self, states):
        """Joins path states.  Normally into one; in path-splitting mode (`split_unjoinable`) two
        states in which some live variable holds values of different shape (a tuple of one / of
        two elements, None / a tuple) are kept apart and the code that follows is interpreted for
        each of them."""
        if not getattr(self, "split_unjoinable", False):
            cur = states[0]
            for x in states[1:]:
                cur, _ = self.merge_states(cur, x, None, None)
            return [cur]

        def unjoinable_vars(stt):
            out = set()
            for i_, o_ in stt.heap.items():
                if o_.kind == "env":
                    for k_, v_ in o_.vars.items():
                        if isinstance(v_, Opaque) and v_.tag.startswith("unjoinable:"):
                            out.add((i_, k_))
            return out

        groups = []
        for x in states:
            placed = False
            for gi, g in enumerate(groups):
                try:
                    m, _ = self.merge_states(g, x, None, None)
                except AnalysisError:
                    continue
                if unjoinable_vars(m) - unjoinable_vars(g) - unjoinable_vars(x):
                    continue
                groups[gi] = m
                placed = True
                break
            if not placed:
                groups.append(x)
        if len(groups) > 8:
            raise AnalysisError("E5.join", "more than 8 path states that cannot be joined")
        return groups

    def for_calliter(self, s, st, env, module, obj):
        """`for x in iter(f, sentinel): body else: orelse` is the retry loop
        `while True: t = f(); if t == sentinel: orelse; break; x = t; body`."""
        for sub in s.orelse:
            for n in ast.walk(sub):
                if isinstance(n, (ast.Break, ast.Continue)):
                    raise AnalysisError("E4.stmt", "break/continue in the else branch of a sentinel loop", s, module)
        uid = "%d_%d" % (s.lineno, s.col_offset)
        fn, sent, tmp = "__iterfn_" + uid, "__itersent_" + uid, "__itertmp_" + uid
        st.heap[env.id].vars[fn] = obj.callable
        st.heap[env.id].vars[sent] = obj.sentinel

        def L(n):
            return ast.copy_location(n, s)

        call = L(ast.Call(func=L(ast.Name(id=fn, ctx=ast.Load())), args=[], keywords=[]))
        a1 = L(ast.Assign(targets=[L(ast.Name(id=tmp, ctx=ast.Store()))], value=call))
        test = L(ast.Compare(left=L(ast.Name(id=tmp, ctx=ast.Load())), ops=[ast.Eq()], comparators=[L(ast.Name(id=sent, ctx=ast.Load()))]))
        stop = L(ast.If(test=test, body=list(s.orelse) + [L(ast.Break())], orelse=[]))
        a2 = L(ast.Assign(targets=[s.target], value=L(ast.Name(id=tmp, ctx=ast.Load()))))
        loop = L(ast.While(test=L(ast.Constant(value=True)), body=[a1, stop, a2] + list(s.body), orelse=[]))
        return self.s_While(loop, st, env, module)

    def for_over_generator(self, s, st, env, module):
        """`for x in gen(...): body` where gen is a generator function of the package whose body can
        raise (or simply always): the generator is inlined with the loop body run at each yield.
        Returns None when the shape does not apply."""
        if not isinstance(s.iter, ast.Call):
            return None
        for sub in s.body:
            for n in ast.walk(sub):
                if isinstance(n, (ast.Break, ast.Return, ast.Yield, ast.YieldFrom)):
                    return None
        try:
            fn = self.eval(st, env, s.iter.func)
        except AnalysisError:
            return None
        func = fn.func if isinstance(fn, (FuncVal, BoundMeth)) else None
        if func is None or not self.is_generator(func):
            return None
        # only generators that can raise need this (the eager model is exact otherwise), but the
        # inlined form is always right
        args = [self.eval(st, env, a) for a in s.iter.args if not isinstance(a, ast.Starred)]
        if len(args) != len(s.iter.args) or any(kw.arg is None for kw in s.iter.keywords):
            return None
        kwargs = dict((kw.arg, self.eval(st, env, kw.value)) for kw in s.iter.keywords)
        self._pending_consumer = (s.target, s.body, env, s, module)
        try:
            if isinstance(fn, BoundMeth):
                self.inline(st, func, None, [fn.recv] + args, kwargs, s.iter, module)
            else:
                self.inline(st, func, fn.env, args, kwargs, s.iter, module)
        finally:
            self._pending_consumer = None
        if s.orelse:
            return self.exec_block(s.orelse, st, env)
        return [Outcome("normal", st)]

    def s_For(self, s, st, env, module):
        r_ = self.for_over_generator(s, st, env, module)
        if r_ is not None:
            return r_
        it = self.eval(st, env, s.iter)
        if isinstance(it, Ref) and st.heap[it.id].kind == "calliter":
            return self.for_calliter(s, st, env, module, st.heap[it.id])
        try:
            items = self.iter_values(st, it, s, module)
        except NonStatic:
            hook = getattr(self, "input_loop_hook", None)
            if hook is not None:
                res = hook(s, st, env, module, it)
                if res is not None:
                    return res
            if self.havoc_allowed is None or not self.havoc_allowed(self.current_func, s):
                raise
            return self.havoc_for(s, st, env, module, it)
        outs = []
        breaks = []
        cur = st
        for g, v in items:
            if not (isinstance(g, Const) and truth_const(g.v)):
                d = self.decide(cur, g)
                if d is False:
                    continue
                if d is None:
                    # guarded element: run the body under the guard and join with skipping it
                    skip = cur.copy()
                    res = []
                    try:
                        self.assume(cur, g)
                        cur.pc.append(g)
                        self.bind(cur, env, s.target, v, s, module)
                        res = self.exec_block(s.body, cur, env)
                    except Dead:
                        res = []
                    try:
                        ng = mk_not(g)
                        self.assume(skip, ng)
                        skip.pc.append(ng)
                        res.append(Outcome("normal", skip))
                    except Dead:
                        pass
                    nxt = []
                    for o in res:
                        if o.status in ("normal", "continue"):
                            nxt.append(o.state)
                        elif o.status == "break":
                            breaks.append(o.state)
                        else:
                            outs.append(o)
                    if not nxt:
                        cur = None
                        break
                    cur = nxt[0]
                    for x in nxt[1:]:
                        cur, _ = self.merge_states(cur, x, None, None)
                    continue
            self.bind(cur, env, s.target, v, s, module)
            res = self.exec_block(s.body, cur, env)
            nxt = []
            for o in res:
                if o.status in ("normal", "continue"):
                    nxt.append(o.state)
                elif o.status == "break":
                    breaks.append(o.state)
                else:
                    outs.append(o)
            if not nxt:
                cur = None
                break
            cur = nxt[0]
            for x in nxt[1:]:
                cur, _ = self.merge_states(cur, x, None, None)
        finals = []
        if cur is not None:
            if s.orelse:
                res = self.exec_block(s.orelse, cur, env)
                for o in res:
                    if o.status == "normal":
                        finals.append(o.state)
                    else:
                        outs.append(o)
            else:
                finals.append(cur)
        finals.extend(breaks)
        if finals:
            cur = finals[0]
            for x in finals[1:]:
                cur, _ = self.merge_states(cur, x, None, None)
            outs.append(Outcome("normal", cur))
        return outs

    def havoc_for(self, s, st, env, module, it):
        """Loop over a statically unknown sequence, summarised by one body execution on a fresh
        element symbol.  Only for loops without loop-carried scalar dependences (checked): every
        name the body writes is written unconditionally at the top level of the body before it is
        read.  Lists appended to inside become 'unknown contents'."""
        written = []

        def collect(n):
            for c in ast.iter_child_nodes(n):
                if isinstance(c, (ast.ListComp, ast.GeneratorExp, ast.SetComp, ast.DictComp, ast.Lambda)):
                    continue  # comprehension variables are scoped to the comprehension
                if isinstance(c, ast.Name) and isinstance(c.ctx, ast.Store):
                    written.append(c.id)
                collect(c)

        collect(s)
        tnames = set(x.id for x in ast.walk(s.target) if isinstance(x, ast.Name))
        for name in set(written) - tnames:
            ok = False
            for b in s.body:
                mentions = [x for x in ast.walk(b) if isinstance(x, ast.Name) and x.id == name]
                if not mentions:
                    continue
                if isinstance(b, ast.Assign) and any(isinstance(t, ast.Name) and t.id == name for t in b.targets):
                    reads = [x for x in ast.walk(b.value) if isinstance(x, ast.Name) and x.id == name]
                    ok = not reads
                elif isinstance(b, ast.For):
                    # inner loop variable / inner-loop locals: judged when that loop is summarised
                    ok = all(isinstance(x.ctx, ast.Store) or True for x in mentions)
                break
            if not ok:
                raise AnalysisError(
                    "E5.loop", "loop over a non-static sequence carries %r across iterations" % name, s, module
                )
        hev = self.event("havoc_loop", s, module, st, iterable=it)
        if isinstance(it, Ref) and hasattr(st.heap[it.id], "havoc_items"):
            hev.data["iterable_items"] = list(st.heap[it.id].havoc_items)
        self.havoc_depth += 1
        npc = len(st.pc)
        try:
            elem = Opaque("elem@%d" % s.lineno, ["havoc:%d" % s.lineno], is_str=True)
            hev.data["elem"] = elem
            self.bind(st, env, s.target, elem, s, module)
            outs = self.exec_block(s.body, st, env)
        finally:
            self.havoc_depth -= 1
        hev.data["outcomes"] = [(o.status, mk_and(o.state.pc[npc:])) for o in outs]
        finals = []
        rest = []
        for o in outs:
            if o.status in ("normal", "continue", "break"):
                finals.append(o.state)
            else:
                rest.append(o)
        if finals:
            cur = finals[0]
            for x in finals[1:]:
                cur, _ = self.merge_states(cur, x, None, None)
            rest.append(Outcome("normal", cur))
        return rest

    def s_While(self, s, st, env, module):
        """Retry loops only (`while True:` around a read of fresh input), when a rule enabled the
        summary: one symbolic iteration.  The paths that go round again must leave every heap object
        unchanged and every name they bind must be rebound before it is read (so the next iteration
        starts from the same state with fresh input); the loop's effect is then the join of its
        break paths.  Anything else is not interpreted."""
        if not getattr(self, "retry_loops", False):
            raise AnalysisError("E5.stmt", "while loop on an evaluated path", s, module)
        if s.orelse:
            raise AnalysisError("E5.stmt", "while loop with an else branch", s, module)
        exits = []
        outs = []
        again = []
        test0 = self.truth(st, self.eval(st, env, s.test), s.test)
        d0 = self.decide(st, test0)
        if d0 is False:
            return [Outcome("normal", st)]
        if d0 is None:
            # the loop may be skipped altogether
            skip = st.copy()
            try:
                nt = mk_not(test0)
                self.assume(skip, nt)
                skip.pc.append(nt)
                exits.append(skip)
            except Dead:
                pass
            self.assume(st, test0)
            st.pc.append(test0)
        # names bound by statements of the body (comprehension variables are scoped to the comprehension)
        bound = set()

        def collect(n):
            for c in ast.iter_child_nodes(n):
                if isinstance(c, (ast.ListComp, ast.GeneratorExp, ast.SetComp, ast.DictComp, ast.Lambda, ast.FunctionDef)):
                    continue
                if isinstance(c, ast.Name) and isinstance(c.ctx, ast.Store):
                    bound.add(c.id)
                collect(c)

        collect(s)
        before = st.copy()
        res = self.exec_block(s.body, st, env)
        for o in res:
            if o.status == "break":
                exits.append(o.state)
            elif o.status in ("normal", "continue"):
                # back at the loop head: the condition decides between leaving and asking again
                s1 = o.state
                try:
                    t1 = self.truth(s1, self.eval(s1, env, s.test), s.test)
                    d1 = self.decide(s1, t1)
                except Dead:
                    continue
                if d1 is False:
                    exits.append(s1)
                    continue
                if d1 is None:
                    leave = s1.copy()
                    try:
                        nt = mk_not(t1)
                        self.assume(leave, nt)
                        leave.pc.append(nt)
                        exits.append(leave)
                    except Dead:
                        pass
                    try:
                        self.assume(s1, t1)
                        s1.pc.append(t1)
                    except Dead:
                        continue
                changed = self.heap_difference(before, s1, env, bound)
                if changed:
                    self.event("retry_state_change", s, module, s1, what=changed)
                again.append(s1)
            else:
                outs.append(o)
        if again and bound and not getattr(self, "_in_stale_probe", False):
            # does the next iteration read a name this one bound?  Probe: a second symbolic
            # iteration in which those names hold a marker (unless they provably hold what they
            # held on first entry); nothing it produces may depend on it
            probe = again[0].copy()
            penv = probe.heap[env.id]
            benv = before.heap[env.id]
            for nm in bound:
                if nm in penv.vars:
                    if nm in benv.vars and self.value_equiv(before, benv.vars[nm], probe, penv.vars[nm]):
                        continue
                    penv.vars[nm] = Opaque("stale:" + nm)
            n_ev = len(self.events)
            self._in_stale_probe = True
            saved_hook = getattr(self, "input_hook", None)
            stale = None
            try:
                if saved_hook is not None:
                    self.input_hook = lambda st_, node_, mod_: saved_hook(st_, node_, mod_, probe=True)
                try:
                    tp = self.eval(probe, env, s.test)
                    if isinstance(tp, Term) and any(d.startswith("opaque:stale:") for d in deps_of(tp)):
                        stale = sorted(d[len("opaque:stale:") :] for d in deps_of(tp) if d.startswith("opaque:stale:"))[0]
                    pres = self.exec_block(s.body, probe, env)
                except Dead:
                    pres = []
            finally:
                self._in_stale_probe = False
                self.input_hook = saved_hook
            for o in pres:
                if o.status != "break":
                    continue
                for i, ob in o.state.heap.items():
                    vals = []
                    if ob.kind in ("list", "set"):
                        vals = [x for _, x in ob.items] + [g for g, _ in ob.items]
                    elif ob.kind == "map":
                        vals = [x for _, x in ob.entries.values()] + [p_ for p_, _ in ob.entries.values()]
                    elif ob.kind == "inst":
                        vals = list(ob.attrs.values())
                    elif ob.kind == "env" and i != env.id:
                        vals = list(ob.vars.values())
                    for x in vals:
                        if isinstance(x, Term) and any(d.startswith("opaque:stale:") for d in deps_of(x)):
                            stale = sorted(d[len("opaque:stale:") :] for d in deps_of(x) if d.startswith("opaque:stale:"))[0]
                for c in o.state.pc:
                    if isinstance(c, Term) and any(d.startswith("opaque:stale:") for d in deps_of(c)):
                        stale = sorted(d[len("opaque:stale:") :] for d in deps_of(c) if d.startswith("opaque:stale:"))[0]
            del self.events[n_ev:]
            if stale:
                self.event("retry_state_change", s, module, st, what="the value of %s from a rejected iteration is read by the next one" % stale)
        if not exits and not outs:
            self.event("retry_never_exits", s, module, st)
            raise Dead()
        if exits:
            cur = exits[0]
            for x in exits[1:]:
                cur, _ = self.merge_states(cur, x, None, None)
            outs.append(Outcome("normal", cur))
        return outs

    def value_equiv(self, sa, va, sb, vb):
        """Do two values (each in its own state) provably denote the same thing?  Terms by identity
        after simplification; lists by their elements once the elements a state's assumptions
        exclude are dropped."""
        va, vb = self.simp(sa, va), self.simp(sb, vb)
        if same(va, vb) and not isinstance(va, Ref):
            return True
        if isinstance(va, Ref) and isinstance(vb, Ref):
            oa, ob = sa.heap.get(va.id), sb.heap.get(vb.id)
            if oa is None or ob is None or oa.kind != ob.kind or oa.kind not in ("list", "set"):
                return va.id == vb.id and oa is not None and ob is not None and not self._obj_differs(oa, ob)

            def live(st_, o):
                out = []
                for g, x in o.items:
                    d = self.decide(st_, g) if isinstance(g, Term) else bool(g)
                    if d is False:
                        continue
                    out.append((None if d is True else g, x))
                return out

            la, lb = live(sa, oa), live(sb, ob)
            return len(la) == len(lb) and all(ga is None and gb is None and same(self.simp(sa, xa), self.simp(sb, xb)) for (ga, xa), (gb, xb) in zip(la, lb))
        return False

    def _obj_differs(self, oa, ob):
        if oa.kind in ("list", "set"):
            return len(oa.items) != len(ob.items) or any(not same(x, y) for (_, x), (_, y) in zip(oa.items, ob.items))
        return oa is not ob

    def heap_difference(self, a, b, env, ignore_names):
        """Description of the first heap object (other than the loop-local names of the current
        frame) that differs between two states, or None."""
        for i, oa in a.heap.items():
            ob = b.heap.get(i)
            if ob is None:
                continue
            if oa.kind != ob.kind:
                return "an object changes kind"
            if oa.kind in ("list", "set"):
                if len(oa.items) != len(ob.items) or any(not same(x, y) for (_, x), (_, y) in zip(oa.items, ob.items)):
                    return "a list is modified on a path that asks again"
            elif oa.kind == "map":
                if oa.order != ob.order or any(not same(oa.entries[k][1], ob.entries[k][1]) for k in oa.order):
                    return "a dict is modified on a path that asks again"
            elif oa.kind == "inst":
                if set(oa.attrs) != set(ob.attrs) or any(not same(oa.attrs[k], ob.attrs[k]) for k in oa.attrs):
                    return "an object attribute is modified on a path that asks again"
            elif oa.kind == "env":
                for k in set(oa.vars) | set(ob.vars):
                    if i == env.id and k in ignore_names:
                        continue
                    if k not in oa.vars or k not in ob.vars or not same(oa.vars[k], ob.vars[k]):
                        return "variable %s is modified on a path that asks again" % k
        return None

    BUILTIN_EXC_BASES = {
        "KeyError": ("LookupError", "Exception", "BaseException"),
        "IndexError": ("LookupError", "Exception", "BaseException"),
        "ValueError": ("Exception", "BaseException"),
        "UnicodeError": ("ValueError", "Exception", "BaseException"),
        "TypeError": ("Exception", "BaseException"),
        "AttributeError": ("Exception", "BaseException"),
        "AssertionError": ("Exception", "BaseException"),
        "ZeroDivisionError": ("ArithmeticError", "Exception", "BaseException"),
        "OverflowError": ("ArithmeticError", "Exception", "BaseException"),
        "InvalidOperation": ("ArithmeticError", "Exception", "BaseException", "decimal.InvalidOperation", "DecimalException"),
        "decimal.InvalidOperation": ("ArithmeticError", "Exception", "BaseException", "InvalidOperation", "DecimalException"),
        "RuntimeError": ("Exception", "BaseException"),
        "NameError": ("Exception", "BaseException"),
        "StopIteration": ("Exception", "BaseException"),
        "EOFError": ("Exception", "BaseException"),
        "KeyboardInterrupt": ("BaseException",),
        "Exception": ("BaseException",),
    }

    def exception_bases(self, name):
        """Names a handler can use to catch an exception called `name`."""
        if name is None:
            return set()
        out = {name, name.split(".")[-1]}
        out |= set(self.BUILTIN_EXC_BASES.get(name, ()))
        key = ("exc_hierarchy",)
        memo = self.ctx.memo
        if key not in memo:
            try:
                from .rules_parse import exception_hierarchy

                memo[key] = exception_hierarchy(self.ctx)
            except Exception:
                memo[key] = {}
        chain = memo[key].get(name.split(".")[-1])
        if chain:
            out |= set(chain)
            for c in chain:
                out |= set(self.BUILTIN_EXC_BASES.get(c, ()))
            out |= {"Exception", "BaseException"}
        return out

    def s_Try(self, s, st, env, module):
        """try/except with exceptions as control flow: every modelled raise inside the body (explicit
        raise, or an implicit-exception hazard under its condition) that a handler matches continues
        in that handler from the state in which it was raised; it is then no longer an escape."""
        from . import guards as G

        n0 = len(self.events)
        self.try_depth = getattr(self, "try_depth", 0) + 1
        try:
            try:
                outs = self.exec_block(s.body, st, env)
            except Dead:
                outs = []
        finally:
            self.try_depth -= 1
        if s.handlers:
            handled = []
            for e in list(self.events[n0:]):
                if e.kind not in ("raise", "hazard") or e.data.get("snapshot") is None or e.data.get("handled"):
                    continue
                names = self.exception_bases(e.data.get("exc"))
                target = None
                for h in s.handlers:
                    hn = G.handler_names(h, module)
                    if h.type is None or any(x in names or x.split(".")[-1] in names or x == "*" for x in hn):
                        target = h
                        break
                if target is None:
                    continue
                handled.append(e)
                hst = e.data["snapshot"]
                e.data["handled"] = True
                if target.name:
                    hst.heap[env.id].vars[target.name] = Opaque("exc:" + str(e.data.get("exc")))
                saved_func = self.current_func
                self.current_func = st.heap[env.id].func if env.id in st.heap else saved_func
                try:
                    try:
                        hres = self.exec_block(target.body, hst, env)
                        for ho in hres:
                            ho.from_handler = True  # the else branch belongs to the body's normal exit only
                        outs = outs + hres
                    except Dead:
                        pass
                finally:
                    self.current_func = saved_func
            if handled:
                ids = set(id(e) for e in handled)
                self.events[:] = [e for e in self.events if id(e) not in ids]
        res = []
        for o in outs:
            tail = ([] if getattr(o, "from_handler", False) else list(s.orelse)) + list(s.finalbody)
            if o.status == "normal" and tail:
                sub = self.exec_block(tail, o.state, env)
                res.extend(sub)
            else:
                res.append(o)
        return self.merge_outcomes(res)

    def s_Import(self, s, st, env, module):
        for al in s.names:
            st.heap[env.id].vars[al.asname or al.name.split(".")[0]] = ExtVal(al.name)
        return [Outcome("normal", st)]

    def s_ImportFrom(self, s, st, env, module):
        for al in s.names:
            name = al.asname or al.name
            if s.level >= 1 and (s.module or "") in self.repo.modules:
                tm = self.repo.modules[s.module]
                r = self.repo.resolve_global(tm, al.name)
                if r and r[0] == "value":
                    dn = self.ce._defname(r[1], r[2])
                    self.ce.consulted.add((r[1].name, dn))
                    # through table(): computed tables are reified from the abstract module initialisation
                    val = self.ce.table(r[1].name, dn, "E5.import") if dn else self.ce.eval(r[1], r[2], "E5.import")
                    st.heap[env.id].vars[name] = Const(val)
                    continue
            if s.level >= 1 and not s.module and al.name in self.repo.modules:
                # from . import constants3 [as constants]
                st.heap[env.id].vars[name] = ExtVal("cvss." + al.name)
                continue
                if r and r[0] == "func":
                    st.heap[env.id].vars[name] = FuncVal(r[1], None)
                    continue
                if r and r[0] == "class":
                    st.heap[env.id].vars[name] = ClassVal(r[1])
                    continue
            st.heap[env.id].vars[name] = ExtVal((s.module or "") + "." + al.name)
        return [Outcome("normal", st)]

    # ------------------------------------------------------------------ joins
    def merge_states(self, A, B, va, vb):
        """Join two disjoint path states. Returns (state, joined value)."""
        L = 0
        while L < len(A.pc) and L < len(B.pc) and A.pc[L] == B.pc[L]:
            L += 1
        ca = mk_and(A.pc[L:])
        cb = mk_and(B.pc[L:])
        M = State(self.space)
        M.constraints_pending = []
        M.modenvs = dict(A.modenvs)
        M.modenvs.update(B.modenvs)
        M.pc = list(A.pc[:L])
        # domains: union, in registry order
        for s in set(A.dom) | set(B.dom):
            da = A.dom.get(s)
            db = B.dom.get(s)
            if da is None or db is None:
                continue
            u = tuple(v for v in self.space.dom[s] if v in da or v in db)
            if u != self.space.dom[s]:
                M.dom[s] = u

        def total(cond):
            """A path's own condition as a table over the joined domain: on rows its tables do not
            mention the path is unreachable (they were computed under the path's earlier
            conditions), so the condition is false there."""
            f = self.try_fold_bool(M, cond) if isinstance(cond, BoolOp) else cond
            if isinstance(f, Fin):
                slots, rows = M.folder().rows(f.slots)
                if rows is not None:
                    ix = [slots.index(s_) for s_ in f.slots]
                    miss = [k for k in (tuple(r[i] for i in ix) for r in rows) if k not in f.table]
                    if miss:
                        table = dict(f.table)
                        for k in miss:
                            table[k] = False
                        return Fin(f.slots, table)
                return f
            return cond

        if isinstance(ca, Const) and truth_const(ca.v):
            if isinstance(cb, Const):
                # neither path recorded a condition of its own (both are joins, or were narrowed by
                # assumptions only): they are told apart by their domains when exactly one slot
                # separates them
                diff = [s_ for s_ in set(A.dom) | set(B.dom) if set(A.dom.get(s_, self.space.dom[s_])) != set(B.dom.get(s_, self.space.dom[s_]))]
                sep = [s_ for s_ in diff if not (set(A.dom.get(s_, self.space.dom[s_])) & set(B.dom.get(s_, self.space.dom[s_])))]
                if sep:
                    # one slot whose domains are disjoint tells the two paths apart, whatever else differs
                    s_ = sorted(sep)[0]
                    da = set(A.dom.get(s_, self.space.dom[s_]))
                    db = set(B.dom.get(s_, self.space.dom[s_]))
                    c = Fin((s_,), dict(((v_,), v_ in da) for v_ in self.space.dom[s_] if v_ in da or v_ in db))
                else:
                    raise AnalysisError("E5.join", "joining states with identical path conditions")
            else:
                c = mk_not(total(cb))
        else:
            c = total(ca)
            # the joined state is reached on one of the two paths: when their conditions relate
            # several slots this is a joint fact the per-slot domains cannot express
            if not isinstance(cb, Const):
                try:
                    tb = total(cb)
                    if isinstance(c, Fin) and isinstance(tb, Fin) and 1 < len(set(c.slots) | set(tb.slots)) <= 3:
                        disj = self.try_fold_bool(M, mk_or([c, tb]))
                        if isinstance(disj, Fin) and len(disj.slots) > 1 and not all(truth_const(v_) for v_ in disj.table.values()):
                            fact = Fin(disj.slots, dict((k_, bool(truth_const(v_))) for k_, v_ in disj.table.items()))
                            if all(f_.sortkey() != fact.sortkey() for f_ in M.constraints_pending):
                                M.constraints_pending.append(fact)
                except (AnalysisError, KeyError):
                    pass
        M.facts = A.facts & B.facts
        kb = set(f.sortkey() for f in B.constraints)
        M.constraints = [f for f in A.constraints if f.sortkey() in kb] + M.constraints_pending
        del M.constraints_pending
        both = []
        for i in set(A.heap) | set(B.heap):
            if i not in B.heap:
                M.heap[i] = A.heap[i]
            elif i not in A.heap:
                M.heap[i] = B.heap[i]
            else:
                both.append(i)
        # frames and instances last: joining two of their values may have to look at (and join) the
        # containers the values refer to, which must already be in the merged heap
        both.sort(key=lambda i: (A.heap[i].kind in ("env", "inst"), i))
        for i in both:
            M.heap[i] = self.merge_obj(M, c, A.heap[i], B.heap[i])
        val = None
        if va is not None or vb is not None:
            val = self.mk_ite(M, c, va, vb)
        return M, val

    def join_listlike(self, M, c, x, y):
        """One list on one path, another on the other (a constant table / a fresh list): a guarded
        list whose elements are present under the path's condition.  None when not both are lists."""
        def items_of(v):
            if isinstance(v, Const) and isinstance(v.v, (list,)):
                from .interp_expr import wrap_const

                return [(TRUE, wrap_const(e)) for e in v.v]
            if isinstance(v, Ref) and v.id in M.heap and M.heap[v.id].kind == "list" and not getattr(M.heap[v.id], "one_shot", False):
                return list(M.heap[v.id].items)
            return None

        ix, iy = items_of(x), items_of(y)
        if ix is None or iy is None:
            return None
        return self.alloc(M, ListObj([(mk_and([c, g]), e) for g, e in ix] + [(mk_and([mk_not(c), g]), e) for g, e in iy]))

    def merge_obj(self, M, c, a, b):
        if a.kind != b.kind:
            raise AnalysisError("E5.join", "heap object changed kind")
        if a.kind == "inst":
            o = a.copy()
            for k in set(a.attrs) | set(b.attrs):
                if k in a.attrs and k in b.attrs:
                    o.attrs[k] = self.mk_ite(M, c, a.attrs[k], b.attrs[k])
                elif k in b.attrs:
                    o.attrs[k] = b.attrs[k]
            return o
        if a.kind == "env":
            o = a.copy()
            for k in set(a.vars) | set(b.vars):
                if k in a.vars and k in b.vars:
                    try:
                        o.vars[k] = self.mk_ite(M, c, a.vars[k], b.vars[k])
                    except AnalysisError:
                        lj = self.join_listlike(M, c, a.vars[k], b.vars[k])
                        o.vars[k] = lj if lj is not None else Opaque("unjoinable:" + k)
                elif getattr(self, "split_unjoinable", False) and not k.startswith("__"):
                    # bound on one path only: in path-splitting mode the paths stay apart (a read on
                    # the other path is an UnboundLocalError, not the first path's value)
                    o.vars[k] = Opaque("unjoinable:" + k)
                elif k in b.vars:
                    o.vars[k] = b.vars[k]
            return o
        if a.kind == "map":
            o = MapObj(a.ordered, a.origin)
            o.input_ordered = a.input_ordered or b.input_ordered
            o.default_factory = a.default_factory or b.default_factory
            for k in a.order + [k for k in b.order if k not in a.entries]:
                if k in a.entries and k in b.entries:
                    pa, xa = a.entries[k]
                    pb, xb = b.entries[k]
                    p = self.mk_ite(M, c, pa, pb)
                    p = self.try_fold_bool(M, p) if isinstance(p, BoolOp) else p
                    da = isinstance(pa, Const) and not truth_const(pa.v)
                    db = isinstance(pb, Const) and not truth_const(pb.v)
                    v = xb if da else xa if db else self.mk_ite(M, c, xa, xb)
                    o.set(k, p, v)
                elif k in a.entries:
                    pa, xa = a.entries[k]
                    o.set(k, mk_and([c, pa]), xa)
                else:
                    pb, xb = b.entries[k]
                    o.set(k, mk_and([mk_not(c), pb]), xb)
            return o
        if a.kind in ("list", "set"):
            o = ListObj()
            o.kind = a.kind
            o.hash_ordered = a.hash_ordered or b.hash_ordered
            for attr_ in ("one_shot", "havoc", "iterator"):
                if getattr(a, attr_, False) or getattr(b, attr_, False):
                    setattr(o, attr_, True)
            if getattr(a, "prefix_closed", False) and getattr(b, "prefix_closed", False) and len(a.items) == len(b.items):
                # position k exists under its guard on either path
                o.prefix_closed = True
                o.items = [(self.mk_ite(M, c, ga, gb), self.mk_ite(M, c, xa, xb)) for (ga, xa), (gb, xb) in zip(a.items, b.items)]
                return o
            n = 0
            while n < len(a.items) and n < len(b.items) and same(a.items[n][0], b.items[n][0]) and same(
                a.items[n][1], b.items[n][1]
            ):
                n += 1
            o.items = list(a.items[:n])
            ra, rb = a.items[n:], b.items[n:]
            if len(ra) == len(rb) and all(same(x[0], y[0]) for x, y in zip(ra, rb)):
                # both paths appended the same number of elements: join them position by position
                try:
                    joined = [(x[0], self.mk_ite(M, c, x[1], y[1])) for x, y in zip(ra, rb)]
                    o.items.extend(joined)
                    return o
                except AnalysisError:
                    pass
            for g, v in a.items[n:]:
                o.items.append((mk_and([c, g]), v))
            nc = mk_not(c)
            for g, v in b.items[n:]:
                o.items.append((mk_and([nc, g]), v))
            return o
        if a.kind == "calliter" and a is b:
            return a
        raise AnalysisError("E5.join", "heap object kind %s" % a.kind)


def _as_load(t):
    import copy as _c

    n = _c.copy(t)
    n.ctx = ast.Load()
    return n


class Evaluator(Interp, ExprMixin, CallMixin, StmtMixin):
    """The abstract interpreter (E5)."""

    def module_env(self, st, module):
        """Abstractly executes a module's import-time initialisation (top-level statements other
        than imports, definitions and the __main__ guard) for tables that are computed rather than
        literal.  Cached per state."""
        if module.name in st.modenvs:
            return st.modenvs[module.name]
        env = self.alloc(st, EnvObj(None, module))
        st.heap[env.id].captured = True
        st.modenvs[module.name] = env
        saved = self.current_func
        self.current_func = None
        try:
            for stmt in module.tree.body:
                if isinstance(stmt, (ast.Import, ast.ImportFrom, ast.FunctionDef, ast.ClassDef, ast.Try)):
                    continue
                if isinstance(stmt, ast.Expr) and isinstance(stmt.value, ast.Constant):
                    continue
                if isinstance(stmt, ast.If) and isinstance(stmt.test, ast.Compare) and isinstance(stmt.test.left, ast.Name) and stmt.test.left.id == "__name__":
                    continue
                try:
                    self.exec_stmt(stmt, st, env)
                except Dead:
                    pass
        finally:
            self.current_func = saved
        for v in st.heap[env.id].vars.values():
            if isinstance(v, Ref) and v.id in st.heap and st.heap[v.id].kind in ("map", "list", "set"):
                st.heap[v.id].module_table = True
        return env

    havoc_depth = 0
    havoc_allowed = None

    def new_state(self):
        return State(self.space)

    def new_env(self, st, module, func=None):
        return self.alloc(st, EnvObj(None, module, func))

    def run_method(self, st, recv, func, args=(), kwargs=None, node=None):
        """Inline a method call on `recv` in state st; returns the value. Raises Dead when every
        path raises."""
        return self.inline(st, func, None, [recv] + list(args), kwargs or {}, node or func.node, func.module)
